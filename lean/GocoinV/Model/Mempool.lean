/-
  Model.Mempool — statement-level model of gocoin's client/txpool (C12).  Core Lean only.

  Mirrors (file : function)
    network.go : needThisTxExt, processTx, HandleNetTx, SubmitLocalTx (as driven by usif), Tick (parts)
    tosend.go  : OneTxToSend.Add / Delete(with_children) / GetChildren / GetAllChildren / removeExcessiveTxs
    mining.go  : mined / unmined / txMined / BlockMined / BlockUndone / removeUnspendableCoinbaseSpends
    rjected.go : OneTxRejected.Add / Delete / cleanup, rejectTx, txAccepted, the TRIdxArray ring
    sort.go    : AddToSort / DelFromSort / insertDownFromHere / findWorstParent (by SortRank) / insertBefore /
                 fixIndex / reindexDown / reindexEverything / adjustSortIndexStep, buildSortedList,
                 GetSortedMempoolSlow, GetSortedMempool, expireOldTxs
    disk.go    : MempoolSave + MempoolLoad (as the state transformer `reload`)

  Keys are the code's: BIDX = first 8 bytes of the txid, UIdx = txid[24:32] xor vout. They are a parameter
  (`Keys`) of every function so that the theorems can state injectivity as an explicit hypothesis; the oracle
  instantiates `realKeys`.

  What is abstracted (inputs of the model rather than computed): the script verdict of a transaction
  (`scriptOk`, an oracle Bool), serialized sizes (`nws`, `size`), wall-clock (expiry receives the expired
  set; the fee floor in force is an argument), Footprint/SysSize byte accounting (eviction receives the
  victims and validates them), the membership of the CPFP fee packages (pkgs.go: observed and validated; the merge
  of GetSortedMempoolRBF itself is modelled, see `mergeRBF`).
  Go panics / os.Exit are the sticky `panicked` flag.
-/
namespace GocoinV.Mempool

abbrev TxId := Nat

/-- the two index functions of the code -/
structure Keys where
  bidx : TxId → Nat
  uidx : TxId → Nat → Nat

/-- txid as the little-endian number of its 32 bytes: BIDX = bytes 0..7, UIdx = bytes 24..31 xor vout -/
def realKeys : Keys where
  bidx id := id % 2 ^ 64
  uidx id vout := Nat.xor ((id / 2 ^ 192) % 2 ^ 64) (vout % 2 ^ 32)

structure TxIn where
  prev : TxId
  vout : Nat
  seq : Nat
deriving DecidableEq, Repr, Inhabited

structure Tx where
  id : TxId
  ins : List TxIn
  outs : List Nat       -- output values
  nws : Nat             -- NoWitSize
  size : Nat            -- Size (with witness)
  scriptOk : Bool       -- verdict of script.VerifyTxScript over all inputs (oracle)
deriving DecidableEq, Repr, Inhabited

def Tx.weight (t : Tx) : Nat := 3 * t.nws + t.size
def Tx.vsize (t : Tx) : Nat := if t.nws = t.size then t.size else (3 * (t.nws + 1) + t.size) / 4

structure Coin where
  value : Nat
  height : Nat
  coinbase : Bool
deriving DecidableEq, Repr, Inhabited

/-! ### association lists (Go maps) -/

abbrev AList (κ ν : Type) := List (κ × ν)

namespace AList
variable {κ ν : Type} [DecidableEq κ]

def get? : AList κ ν → κ → Option ν
  | [], _ => none
  | (k', v) :: r, k => if k' = k then some v else get? r k

def del (m : AList κ ν) (k : κ) : AList κ ν := m.filter (fun p => !decide (p.1 = k))

def set (m : AList κ ν) (k : κ) (v : ν) : AList κ ν := (k, v) :: del m k

def has (m : AList κ ν) (k : κ) : Bool := (get? m k).isSome

end AList

/-- TransactionsToSend record -/
structure T2S where
  tx : Tx
  fee : Nat
  volume : Nat
  mem : List Bool       -- MemInputs; [] = nil
  memCnt : Nat
  loc : Bool
  final : Bool
deriving DecidableEq, Repr, Inhabited

/-- TransactionsRejected record -/
structure Rej where
  id : TxId
  reason : Nat
  tx : Option Tx
  waiting4 : Option TxId
deriving DecidableEq, Repr, Inhabited

structure Cfg where
  allowMem : Bool := true
  notFullRBF : Bool := false
  maxTxWeight : Nat := 400000
  ringCap : Nat := 20000       -- len(TRIdxArray)
deriving Repr, Inhabited

structure State where
  cfg : Cfg := {}
  pool : AList Nat T2S := []                 -- TransactionsToSend, keyed by BIDX
  spent : AList Nat Nat := []                -- SpentOutputs: UIdx → BIDX
  rej : AList Nat Rej := []                  -- TransactionsRejected
  ring : List (Option Nat) := []             -- TRIdxArray from TRIdxTail (oldest) to TRIdxHead; none = zeroed slot
  waiting : AList Nat (TxId × List Nat) := [] -- WaitingForInputs
  rejSpent : AList Nat (List Nat) := []      -- RejectedSpentOutputs
  sorted : List Nat := []                    -- BestT2S … WorstT2S (BIDX)
  ranks : AList Nat Nat := []                -- SortRank of the records on the list (BIDX → uint64)
  sortStep : Nat := 2 ^ 60 / 200000          -- sortIndexStep (InitMempool: adjustSortIndexStep() with an empty pool)
  rankWrap : Bool := false                   -- ghost (no Go counterpart): since the last rebuild a SortRank computation
                                             -- left the uint64 range or met sortIndexStep (/16) = 0, see `fixIndex`
  sortDirty : Bool := false
  sortDisabled : Bool := false
  weightTotal : Nat := 0                     -- TransactionsToSendWeight
  -- environment: the confirmed chain
  utxo : AList (TxId × Nat) Coin := []
  height : Nat := 0
  undo : List (List Tx × List ((TxId × Nat) × Coin)) := []   -- per connected block: its txs and the coins they spent
  panicked : Bool := false
deriving Inhabited

def U64 : Nat := 2 ^ 64

-- reject reasons (rjected.go)
def R_NOT_PENDING := 2
def R_TOO_BIG := 101
def R_OVERSPEND := 154
def R_BAD_INPUT := 157
def R_SCRIPT_FAIL := 158
def R_NO_TXOU := 202
def R_BAD_PARENT := 203
def R_LOW_FEE := 205
def R_NOT_MINED := 208
def R_CB_INMATURE := 209
def R_RBF_LOWFEE := 210
def R_RBF_FINAL := 211
def R_RBF_100 := 212
def R_REPLACED := 213
def R_PANIC := 255
def COINBASE_MATURITY := 100

/-! ### rejected list (rjected.go) -/

/-- advance TRIdxTail over zeroed slots -/
def normRing : List (Option Nat) → List (Option Nat)
  | none :: r => normRing r
  | l => l

/-- zero the slot holding `b` (the record's ArrIndex) -/
def zeroSlot (b : Nat) : List (Option Nat) → List (Option Nat)
  | [] => []
  | some x :: r => if x = b then none :: r else some x :: zeroSlot b r
  | none :: r => none :: zeroSlot b r

/-- remove the first occurrence -/
def eraseFirst (b : Nat) : List Nat → List Nat
  | [] => []
  | x :: r => if x = b then r else x :: eraseFirst b r

/-- OneTxRejected.cleanup: drop the references in RejectedSpentOutputs and WaitingForInputs -/
def rejCleanup (K : Keys) (s : State) (r : Rej) (t : Tx) : State :=
  let b := K.bidx r.id
  let rs := t.ins.foldl (fun (m : AList Nat (List Nat)) i =>
    let u := K.uidx i.prev i.vout
    match m.get? u with
    | none => m
    | some ref =>
      let nr := ref.filter (· ≠ b)
      if nr.length ≠ ref.length then (if nr.isEmpty then m.del u else m.set u nr) else m) s.rejSpent
  let w := match r.waiting4 with
    | none => s.waiting
    | some w4 =>
      let k := K.bidx w4
      match s.waiting.get? k with
      | none => s.waiting
      | some (id, ids) =>
        if ids.length = 1 then (if ids = [b] then s.waiting.del k else s.waiting)
        else s.waiting.set k (id, eraseFirst b ids)
  { s with rejSpent := rs, waiting := w }

/-- OneTxRejected.Delete -/
def rejDelete (K : Keys) (s : State) (r : Rej) : State :=
  let s := match r.tx with
    | some t => rejCleanup K s r t
    | none => s
  let b := K.bidx r.id
  { s with ring := normRing (zeroSlot b s.ring), rej := s.rej.del b }

def rejDeleteByIdx (K : Keys) (s : State) (b : Nat) : State :=
  match s.rej.get? b with
  | some r => rejDelete K s r
  | none => s

/-- TRIdxHead reached TRIdxTail: drop the oldest record -/
def rejEvictOldest (K : Keys) (s : State) : State :=
  if s.ring.length ≥ s.cfg.ringCap then
    match s.ring with
    | some old :: _ =>
      match s.rej.get? old with
      | some o => rejDelete K s o
      | none => { s with panicked := true }
    | _ => { s with ring := normRing s.ring }
  else s

/-- the RejectedSpentOutputs / WaitingForInputs part of Add -/
def rejAddRefs (K : Keys) (s : State) (r : Rej) : State :=
  let b := K.bidx r.id
  match r.tx with
  | none => s
  | some t =>
    let rs := t.ins.foldl (fun (m : AList Nat (List Nat)) i =>
      let u := K.uidx i.prev i.vout
      m.set u ((m.get? u).getD [] ++ [b])) s.rejSpent
    let w := match r.waiting4 with
      | none => s.waiting
      | some w4 =>
        let k := K.bidx w4
        match s.waiting.get? k with
        | none => s.waiting.set k (w4, [b])
        | some (id, ids) => s.waiting.set k (id, ids ++ [b])
    { s with rejSpent := rs, waiting := w }

/-- OneTxRejected.Add (CheckForErrors() is false: no duplicate test) -/
def rejAdd (K : Keys) (s : State) (r : Rej) : State :=
  let b := K.bidx r.id
  rejAddRefs K (rejEvictOldest K { s with ring := s.ring ++ [some b], rej := s.rej.set b r }) r

/-- rejectTx -/
def rejectTx (K : Keys) (s : State) (t : Tx) (why : Nat) (missing : Option TxId) : State :=
  rejAdd K s { id := t.id, reason := why,
               tx := if why ≥ 200 then some t else none,
               waiting4 := if why ≥ 200 then missing else none }

/-! ### the sorted list (sort.go) -/

/-- isFirstTxBetter -/
def better (a b : T2S) : Bool := decide (a.fee * b.tx.weight > b.fee * a.tx.weight)

def posOf (b : Nat) : List Nat → Nat → Option Nat
  | [], _ => none
  | x :: r, i => if x = b then some i else posOf b r (i + 1)

/-- in-pool parents by the MemInputs flags (BIDX of the previous txid) -/
def memParents (K : Keys) (t : T2S) : List Nat :=
  (t.tx.ins.zip t.mem).filterMap fun (i, m) => if m then some (K.bidx i.prev) else none

def SORT_START : Nat := 2 ^ 62

/-- adjustSortIndexStep -/
def stepFor (cnt : Nat) : Nat := 2 ^ 60 / (2 * (if cnt < 100000 then 100000 else cnt))

/-- SortRank of the record with key `b` (a record that never got one has 0) -/
def rankOf (s : State) (b : Nat) : Nat := (s.ranks.get? b).getD 0

/-- findWorstParent: the flagged parent with the highest SortRank (strict `>`: the first one among equals) -/
def worstParent (K : Keys) (s : State) (t : T2S) : Option Nat :=
  (memParents K t).foldl (fun acc p =>
    match acc with
    | none => some p
    | some w => if rankOf s p > rankOf s w then some p else some w) none

/-- insertDownFromHere: skip `start` elements, then stop before the first element `t` beats; the position found -/
def insertPos (s : State) (t : T2S) : Nat → List Nat → Nat
  | _, [] => 0
  | 0, x :: r =>
    match s.pool.get? x with
    | some tx => if better t tx then 0 else 1 + insertPos s t 0 r
    | none => 1 + insertPos s t 0 r
  | n + 1, _ :: r => 1 + insertPos s t n r

/-- SortRanks SORT_START, +step, +2·step, … along a list (buildSortedList, reindexEverything) -/
def rankFrom (step : Nat) : Nat → List Nat → AList Nat Nat
  | _, [] => []
  | r, b :: l => (b, r % U64) :: rankFrom step (r + step) l

/-- the ranks SORT_START + i·step of a list of `len` elements are increasing and stay inside uint64 -/
def rankRoom (step len : Nat) : Bool := decide (1 ≤ step) && decide (SORT_START + len * step < U64)

/-- reindexEverything -/
def reindexAll (s : State) : State :=
  let step := stepFor s.pool.length
  { s with sortStep := step, ranks := rankFrom step SORT_START s.sorted,
           rankWrap := s.rankWrap || !rankRoom step s.sorted.length }

/-- the loop of reindexDown(step) below an element of rank `index`; `none` = the uint64 overflow exit -/
def reindexWalk (st : Nat) : Nat → List Nat → AList Nat Nat → Option (AList Nat Nat)
  | _, [], rk => some rk
  | index, x :: r, rk =>
    let ni := index + st
    if ni ≥ U64 then none
    else if (rk.get? x).getD 0 ≥ ni then some rk
    else reindexWalk st ni r (rk.set x ni)

/-- reindexDown(sortIndexStep / 16) called on the better neighbour (rank `rb`); `below` = the list from the new
    element on -/
def reindexDown (s : State) (rb : Nat) (below : List Nat) : State :=
  let st := s.sortStep / 16
  match reindexWalk st rb below s.ranks with
  | some rk => { s with ranks := rk, rankWrap := s.rankWrap || decide (st = 0) }
  | none => reindexAll s

/-- fixIndex for the element `b` just linked in between `bt` (better neighbour) and `wr` (worse neighbour);
    `below` = the list from `b` on. The append at the end of insertDownFromHere (rank of the worst + step) is the
    case (some, none). uint64 wrap-around is explicit; where the Go code has no guard against it (append at the end;
    sortIndexStep or sortIndexStep/16 = 0, i.e. more than 2^55 pooled transactions) the ghost flag `rankWrap` is set. -/
def fixIndex (s : State) (b : Nat) (bt wr : Option Nat) (below : List Nat) : State :=
  match bt, wr with
  | none, none => { s with ranks := s.ranks.set b SORT_START }
  | none, some w =>
    let rw := rankOf s w
    if rw > s.sortStep then
      { s with ranks := s.ranks.set b (rw - s.sortStep), rankWrap := s.rankWrap || decide (s.sortStep = 0) }
    else if rw / 2 = rw then reindexAll { s with ranks := s.ranks.set b (rw / 2) }
    else { s with ranks := s.ranks.set b (rw / 2), panicked := true }   -- falls through to t2s.better.SortRank, better == nil
  | some p, none =>
    let r := (rankOf s p + s.sortStep) % U64
    { s with ranks := s.ranks.set b r, rankWrap := s.rankWrap || decide (r ≤ rankOf s p) }
  | some p, some w =>
    let rb := rankOf s p
    let diff := (rankOf s w + U64 - rb) % U64
    if diff ≥ 2 then { s with ranks := s.ranks.set b ((rb + diff / 2) % U64) }
    else reindexDown s rb below

/-- AddToSort (called from Add, after the record is in the map; a new OneTxToSend has SortRank 0) -/
def addToSort (K : Keys) (s : State) (b : Nat) (t : T2S) : State :=
  if s.sortDirty then s
  else if s.sortDisabled then { s with sortDirty := true }
  else if s.sorted.isEmpty then { s with sorted := [b], ranks := s.ranks.set b SORT_START }
  else if !((memParents K t).all fun p => s.pool.has p) then { s with panicked := true }  -- parent.SortRank, parent == nil
  else
    let start := match worstParent K s t with
      | none => 0
      | some w => match posOf w s.sorted 0 with
        | some i => i + 1
        | none => 0
    let j := insertPos s t start s.sorted
    let pre := s.sorted.take j
    let post := s.sorted.drop j
    fixIndex { s with sorted := pre ++ b :: post, ranks := s.ranks.del b } b pre.getLast? post.head? (b :: post)

/-- DelFromSort -/
def delFromSort (s : State) (b : Nat) : State :=
  if s.sortDirty then s
  else if s.sortDisabled then { s with sortDirty := true }
  else { s with sorted := s.sorted.filter (· ≠ b), ranks := s.ranks.del b }

/-! ### Add / Delete (tosend.go) -/

/-- OneTxToSend.Add -/
def addT2S (K : Keys) (s : State) (t : T2S) : State :=
  let b := K.bidx t.tx.id
  let sp := t.tx.ins.foldl (fun (m : AList Nat Nat) i => m.set (K.uidx i.prev i.vout) b) s.spent
  let s := { s with spent := sp, pool := s.pool.set b t, weightTotal := s.weightTotal + t.tx.weight }
  addToSort K s b t

/-- the part of Delete after the children: drop SpentOutputs entries, the map entry, the sort entry -/
def delOne (K : Keys) (s : State) (t : T2S) (reason : Nat) : State :=
  let b := K.bidx t.tx.id
  let sp := t.tx.ins.foldl (fun (m : AList Nat Nat) i => m.del (K.uidx i.prev i.vout)) s.spent
  let s := { s with spent := sp, pool := s.pool.del b }
  let s := delFromSort s b
  let s := { s with weightTotal := s.weightTotal - t.tx.weight }
  if reason ≠ 0 then rejectTx K s t.tx reason none else s

/-- indices 0..n-1 -/
def iota (n : Nat) : List Nat := List.range n

/-- OneTxToSend.Delete(with_children = true, reason); `fuel` bounds the recursion depth -/
def delWithChildren (K : Keys) (reason : Nat) : Nat → State → T2S → State
  | 0, s, _ => { s with panicked := true }
  | fuel + 1, s, t =>
    let s := (iota t.tx.outs.length).foldl (fun s vout =>
      match s.spent.get? (K.uidx t.tx.id vout) with
      | none => s
      | some so => match s.pool.get? so with
        | none => s
        | some child => delWithChildren K reason fuel s child) s
    delOne K s t reason

/-- GetChildren: first-level children (records), no duplicates, in vout order -/
def children (K : Keys) (s : State) (t : T2S) : List Nat :=
  (iota t.tx.outs.length).foldl (fun acc vout =>
    match s.spent.get? (K.uidx t.tx.id vout) with
    | none => acc
    | some so => if acc.contains so then acc else acc ++ [so]) []

/-- GetAllChildren: breadth-first closure over `children` -/
def allChildrenAux (K : Keys) (s : State) : Nat → List Nat → Nat → List Nat
  | 0, acc, _ => acc
  | fuel + 1, acc, idx =>
    match acc[idx]? with
    | none => acc
    | some b =>
      match s.pool.get? b with
      | none => allChildrenAux K s fuel acc (idx + 1)
      | some t =>
        let acc := (children K s t).foldl (fun a c => if a.contains c then a else a ++ [c]) acc
        allChildrenAux K s fuel acc (idx + 1)

def allChildren (K : Keys) (s : State) (t : T2S) : List Nat :=
  let first := children K s t
  allChildrenAux K s (s.pool.length + 1) first 0

/-! ### processTx (network.go) -/

structure Flags where
  trusted : Bool := false
  loc : Bool := false
  unmined : Bool := false
deriving Repr, Inhabited

/-- accumulator of the input loop -/
structure Acc where
  final : Bool := false
  rbf : List Nat := []          -- rbf_tx_list (BIDX of pooled records), nil = []
  vals : List Nat := []         -- pos[i].Value
  frommem : List Bool := []
  totinp : Nat := 0

/-- early exit of processTx: code, whether rejectTx is called, the missing parent -/
structure Exit where
  code : Nat
  reject : Bool
  missing : Option TxId := none

def addRbf (l : List Nat) (b : Nat) : List Nat := if l.contains b then l else l ++ [b]

/-- the RBF part of one input: the spender of the same UIdx and all its descendants -/
def rbfStep (K : Keys) (s : State) (fl : Flags) (so : Nat) (rbf : List Nat) : Except Exit (List Nat) :=
  match s.pool.get? so with
  | none => .error ⟨R_PANIC, false, none⟩       -- nil dereference in the Go code
  | some ctx =>
    let strict := !fl.unmined && !fl.trusted
    if strict && ctx.final then .error ⟨R_RBF_FINAL, true, none⟩
    else
      let rbf := addRbf rbf so
      if strict && rbf.length > 100 then .error ⟨R_RBF_100, true, none⟩
      else
        (allChildren K s ctx).foldlM (fun rbf c =>
          match s.pool.get? c with
          | none => .error ⟨R_PANIC, false, none⟩
          | some ch =>
            if strict && ch.final then .error ⟨R_RBF_FINAL, true, none⟩
            else
              let rbf := addRbf rbf c
              if strict && rbf.length > 100 then .error ⟨R_RBF_100, true, none⟩
              else .ok rbf) rbf

/-- one iteration of the loop over tx.TxIn -/
def inputStep (K : Keys) (s : State) (fl : Flags) (a : Acc) (i : TxIn) : Except Exit Acc := do
  let fullRbf := !s.cfg.notFullRBF
  let final := if !fullRbf && !a.final && i.seq ≥ 0xfffffffe then true else a.final
  let u := K.uidx i.prev i.vout
  let rbf ← match s.spent.get? u with
    | some so => rbfStep K s fl so a.rbf
    | none => pure a.rbf
  match s.pool.get? (K.bidx i.prev) with
  | some par =>
    if i.vout ≥ par.tx.outs.length then throw ⟨R_BAD_INPUT, true, none⟩
    else if !fl.trusted && !s.cfg.allowMem then throw ⟨R_NOT_MINED, true, none⟩
    else
      let v := par.tx.outs.getD i.vout 0
      pure { final, rbf, vals := a.vals ++ [v], frommem := a.frommem ++ [true], totinp := (a.totinp + v) % U64 }
  | none =>
    match s.utxo.get? (i.prev, i.vout) with
    | none =>
      if fl.unmined then throw ⟨R_NO_TXOU, false, none⟩
      else if !fl.trusted && !s.cfg.allowMem then throw ⟨R_NOT_MINED, true, none⟩
      else
        match s.rej.get? (K.bidx i.prev) with
        | some r =>
          if r.reason > 200 && r.waiting4.isNone then throw ⟨R_BAD_PARENT, true, none⟩
          else throw ⟨R_NO_TXOU, true, some i.prev⟩
        | none => throw ⟨R_NO_TXOU, true, some i.prev⟩
    | some c =>
      if !fl.unmined && c.coinbase && s.height + 1 - c.height < COINBASE_MATURITY then
        throw ⟨R_CB_INMATURE, true, none⟩
      else
        pure { final, rbf, vals := a.vals ++ [c.value], frommem := a.frommem ++ [false],
               totinp := (a.totinp + c.value) % U64 }

def sumU64 (l : List Nat) : Nat := l.foldl (fun a v => (a + v) % U64) 0

/-- the same outpoint twice inside one transaction (the check added by the `fix:` commit) -/
def hasDupInput : List TxIn → Bool
  | [] => false
  | i :: r => r.any (fun j => j.prev = i.prev && j.vout = i.vout) || hasDupInput r

/-- delete the whole rbf list (the Go loop picks child-less members first; the set deleted is the list) -/
def deleteRbf (K : Keys) (s : State) (rbf : List Nat) : State :=
  rbf.reverse.foldl (fun s b =>
    match s.pool.get? b with
    | some t => delOne K s t R_REPLACED
    | none => s) s

/-- a flagged (in-pool) parent of one of the inputs is on the rbf list (the check added by the 3rd `fix:` commit:
    a replacement must not spend an output of a transaction it is going to remove) -/
def spendsReplaced (K : Keys) (ins : List TxIn) (frommem : List Bool) (rbf : List Nat) : Bool :=
  (ins.zip frommem).any fun (i, m) => m && rbf.contains (K.bidx i.prev)

/-- processTx: result code (0 = accepted) and the new state -/
def processTx (K : Keys) (minFee : Nat) (s : State) (t : Tx) (fl : Flags) : Nat × State :=
  if !fl.unmined && t.weight > s.cfg.maxTxWeight then (R_TOO_BIG, rejectTx K s t R_TOO_BIG none)
  else if !fl.unmined && hasDupInput t.ins then (R_BAD_INPUT, rejectTx K s t R_BAD_INPUT none)
  else
  match t.ins.foldlM (inputStep K s fl) ({} : Acc) with
  | .error e => (e.code, if e.reject then rejectTx K s t e.code e.missing else
                  (if e.code = R_PANIC then { s with panicked := true } else s))
  | .ok a =>
    if spendsReplaced K t.ins a.frommem a.rbf then (R_BAD_INPUT, rejectTx K s t R_BAD_INPUT none)
    else
    let totout := sumU64 t.outs
    if totout > a.totinp then (R_OVERSPEND, rejectTx K s t R_OVERSPEND none)
    else
      let fee := a.totinp - totout
      let rbfT := a.rbf.filterMap (fun b => s.pool.get? b)
      let totvsize := rbfT.foldl (fun n c => n + c.tx.vsize) 0
      let totfees := rbfT.foldl (fun n c => n + c.fee) 0
      if !fl.unmined && !fl.loc && 4000 * fee < t.weight * minFee then (R_LOW_FEE, s)
      else if !fl.unmined && !a.rbf.isEmpty && !fl.loc && totfees * t.vsize ≥ fee * totvsize then
        (R_RBF_LOWFEE, rejectTx K s t R_RBF_LOWFEE none)
      else if !fl.trusted && !t.scriptOk then (R_SCRIPT_FAIL, s)
      else
        let s := deleteRbf K s a.rbf
        let cnt := (a.frommem.filter id).length
        let rec_ : T2S := { tx := t, fee, volume := a.totinp, mem := if cnt = 0 then [] else a.frommem,
                            memCnt := cnt, loc := fl.loc, final := a.final }
        (0, addT2S K s rec_)

/-! ### orphans (rjected.go txAccepted) -/

/-- txAccepted: re-submit everything that waited for `bidx`, transitively -/
def txAcceptedAux (K : Keys) (minFee : Nat) : Nat → State → List Nat → Nat → State
  | 0, s, _, _ => { s with panicked := true }   -- the model's iteration budget ran out (the Go loop has none): NOT the code
  | fuel + 1, s, recs, delidx =>
    match recs[delidx]? with
    | none => s
    | some cur =>
      match s.waiting.get? cur with
      | none => txAcceptedAux K minFee fuel s recs (delidx + 1)
      | some (_, ids) =>
        match ids with
        | [] => { s with panicked := true }
        | first :: _ =>
          match s.rej.get? first with
          | none => { s with panicked := true }
          | some txr =>
            let s := rejDelete K s txr
            match txr.tx with
            | none => { s with panicked := true }
            | some t =>
              let (res, s) := processTx K minFee s t {}
              let recs := if res = 0 then recs ++ [K.bidx t.id] else recs
              -- put back on the list being drained: the parent has no such output (2nd `fix:` commit)
              let s := if res = R_NO_TXOU then
                  match s.waiting.get? cur with
                  | some (_, ids') =>
                    if ids'.contains (K.bidx t.id) then
                      rejectTx K (rejDeleteByIdx K s (K.bidx t.id)) t R_BAD_INPUT none
                    else s
                  | none => s
                else s
              txAcceptedAux K minFee fuel s recs delidx

/-- iteration budget of the txAccepted loop (the Go loop is unbounded). One iteration either moves `delidx` on (at most
    once per entry of `recs`: the start key and every record accepted meanwhile, i.e. ≤ 1 + |rej|) or re-submits one
    data-carrying rejected record that waits for the current key — a record is re-submitted at most once per parent it
    waits for, i.e. at most once per input. The sum below is at least that count; it is NOT proved sufficient in general:
    running out of it raises `panicked` (first branch of `txAcceptedAux`), so every theorem with the hypothesis `alive`
    speaks only about runs in which it sufficed, and the harness sees the flag as a mismatch with the real code. -/
def txAccFuel (s : State) : Nat :=
  s.rej.foldl (fun n p => n + 2 + (match p.2.tx with | some t => t.ins.length | none => 0)) (s.pool.length + 4)

def txAccepted (K : Keys) (minFee : Nat) (s : State) (b : Nat) : State :=
  txAcceptedAux K minFee (txAccFuel s) s [b] 0

/-! ### entry points as the client drives them -/

/-- needThisTxExt: 0 = wanted -/
def needThisTx (K : Keys) (s : State) (id : TxId) : Nat :=
  let b := K.bidx id
  if s.pool.has b then 1
  else if s.rej.has b then 2
  else if s.utxo.any (fun p => p.1.1 = id) then 4
  else 0

/-- ParseTxNet + HandleNetTx -/
def submitNet (K : Keys) (minFee : Nat) (s : State) (t : Tx) (trusted : Bool) : Nat × State :=
  let why := needThisTx K s t.id
  if why ≠ 0 then (1000 + why, s)
  else
    let (res, s) := processTx K minFee s t { trusted }
    if res = 0 then (0, txAccepted K minFee s (K.bidx t.id)) else (res, s)

/-- usif.LoadRawTx on a transaction NeedThisTxExt does not want: a pooled record under its BIDX becomes `Local`
    ("make as own (if not needed)"); nothing else changes -/
def markLocal (K : Keys) (s : State) (id : TxId) : State :=
  match s.pool.get? (K.bidx id) with
  | some r => { s with pool := s.pool.set (K.bidx id) { r with loc := true } }
  | none => s

/-- usif.LoadRawTx + SubmitLocalTx -/
def submitLocal (K : Keys) (minFee : Nat) (s : State) (t : Tx) : Nat × State :=
  let s := rejDeleteByIdx K s (K.bidx t.id)
  let why := needThisTx K s t.id
  if why ≠ 0 then (1000 + why, markLocal K s t.id)
  else
    let (res, s) := processTx K minFee s t { trusted := true, loc := true }
    if res = 0 then (0, txAccepted K minFee s (K.bidx t.id)) else (res, s)

/-! ### blocks (mining.go) -/

/-- IIdx -/
def iidx (K : Keys) (t : T2S) (u : Nat) : Option Nat :=
  posOf u (t.tx.ins.map fun i => K.uidx i.prev i.vout) 0

/-- OneTxToSend.mined: clear the MemInputs flag in the children -/
def minedFlags (K : Keys) (s : State) (t : T2S) : State :=
  (iota t.tx.outs.length).foldl (fun s vout =>
    let u := K.uidx t.tx.id vout
    match s.spent.get? u with
    | none => s
    | some val => match s.pool.get? val with
      | none => s
      | some r =>
        match iidx K r u with
        | none => { s with panicked := true }
        | some idx =>
          if r.mem.isEmpty then { s with panicked := true }
          else
            let mem := r.mem.set idx false
            let cnt := r.memCnt - 1
            let r' := { r with mem := if cnt = 0 then [] else mem, memCnt := cnt }
            { s with pool := s.pool.set val r', sortDirty := true }) s

/-- OneTxToSend.unmined: set the MemInputs flag in the children -/
def unminedFlags (K : Keys) (s : State) (t : T2S) : State :=
  (iota t.tx.outs.length).foldl (fun s vout =>
    let u := K.uidx t.tx.id vout
    match s.spent.get? u with
    | none => s
    | some val => match s.pool.get? val with
      | none => s
      | some r =>
        let mem := if r.mem.isEmpty then List.replicate r.tx.ins.length false else r.mem
        match iidx K r u with
        | none => { s with panicked := true }
        | some idx =>
          if mem.getD idx false then { s with pool := s.pool.set val { r with mem := mem } }
          else { s with pool := s.pool.set val { r with mem := mem.set idx true, memCnt := r.memCnt + 1 },
                        sortDirty := true }) s

/-- txMined -/
def txMined (K : Keys) (s : State) (t : Tx) : State :=
  let b := K.bidx t.id
  let (wasIn, s) := match s.pool.get? b with
    | some r => (true, delOne K (minedFlags K s r) r 0)
    | none => (false, s)
  let (wasRej, s) := t.ins.foldl (fun (acc : Bool × State) i =>
    let (wr, s) := acc
    let u := K.uidx i.prev i.vout
    let s := if wasIn then s else
      match s.spent.get? u with
      | none => s
      | some val => match s.pool.get? val with
        | some r => delWithChildren K 0 (s.pool.length + 1) s r
        | none => { s with spent := s.spent.del u }
    match s.rejSpent.get? u with
    | none => (wr, s)
    | some lst =>
      let (wr, s) := lst.foldl (fun (acc : Bool × State) rb =>
        let (wr, s) := acc
        match s.rej.get? rb with
        | some txr => (wr || rb = b, rejDelete K s txr)
        | none => (wr, s)) (wr, s)
      (wr, { s with rejSpent := s.rejSpent.del u })) (false, s)
  if wasRej || wasIn then s
  else rejDeleteByIdx K s b

/-- chain side of connecting a block: spend the inputs, create the outputs -/
def connectUtxo (s : State) (h : Nat) (txs : List Tx) : State :=
  let (u, spentCoins) := txs.foldl (fun (acc : AList (TxId × Nat) Coin × List ((TxId × Nat) × Coin)) t =>
    let (u, sc) := acc
    let (u, sc) := t.ins.foldl (fun (acc : AList (TxId × Nat) Coin × List ((TxId × Nat) × Coin)) i =>
      let (u, sc) := acc
      match u.get? (i.prev, i.vout) with
      | some c => (u.del (i.prev, i.vout), ((i.prev, i.vout), c) :: sc)
      | none => (u, sc)) (u, sc)
    let u := (iota t.outs.length).foldl (fun u v => u.set (t.id, v) ⟨t.outs.getD v 0, h, false⟩) u
    (u, sc)) (s.utxo, [])
  { s with utxo := u, undo := (txs, spentCoins) :: s.undo }

/-- BlockMined (after the chain has connected the block; `txs` = the block without its coinbase) -/
def blockMined (K : Keys) (minFee : Nat) (s : State) (txs : List Tx) : State :=
  if txs.isEmpty then s
  else
    let s := txs.reverse.foldl (txMined K) s
    txs.foldl (fun s t => txAccepted K minFee s (K.bidx t.id)) s

/-- chain side of disconnecting the last block -/
def disconnectUtxo (s : State) : Option (State × List Tx) :=
  match s.undo with
  | [] => none
  | (txs, spentCoins) :: rest =>
    -- restore what the block spent, then remove what it created (an output created and spent inside the
    -- block is in `spentCoins` too and must not survive)
    let u := spentCoins.foldl (fun u p => u.set p.1 p.2) s.utxo
    let u := txs.foldl (fun u t => (iota t.outs.length).foldl (fun u v => u.del (t.id, v)) u) u
    some ({ s with utxo := u, undo := rest }, txs)

/-- BlockUndone (the UTXO set is already rolled back) -/
def blockUndone (K : Keys) (minFee : Nat) (s : State) (txs : List Tx) : State :=
  if txs.isEmpty then s
  else
    txs.foldl (fun s t =>
      let s := rejDeleteByIdx K s (K.bidx t.id)
      let (res, s) := processTx K minFee s t { trusted := true, unmined := true }
      if res = 0 then
        match s.pool.get? (K.bidx t.id) with
        | some r => unminedFlags K s r
        | none => { s with panicked := true }
      else { s with panicked := true }) s      -- os.Exit(1) in the Go code

/-! ### expiry, eviction (sort.go expireOldTxs, tosend.go removeExcessiveTxs) -/

/-- expireOldTxs with the set of records whose Lastseen is too old -/
def expire (K : Keys) (s : State) (old : List Nat) : State :=
  old.foldl (fun s b =>
    match s.pool.get? b with
    | some t => delWithChildren K 0 (s.pool.length + 1) s t
    | none => s) s

/-- removeUnspendableCoinbaseSpends (mining.go, added by the 4th `fix:` commit): a pooled record has a confirmed
    (not flagged) input that a block of height `h` cannot spend — the output does not exist, or it is a coinbase
    output that is not mature at `h` (`height - po.BlockHeight < COINBASE_MATURITY` in uint32 arithmetic) -/
def unspendableAt (s : State) (h : Nat) (t : T2S) : Bool :=
  (List.range t.tx.ins.length).any fun k =>
    match t.tx.ins[k]? with
    | none => false
    | some i =>
      !(t.mem.getD k false) &&
      match s.utxo.get? (i.prev, i.vout) with
      | none => true
      | some c => c.coinbase && decide ((h + 2 ^ 32 - c.height % 2 ^ 32) % 2 ^ 32 < COINBASE_MATURITY)

/-- the records removeUnspendableCoinbaseSpends collects (the Go code walks the map: the order is unspecified; every
    one is deleted with its children and without a reject record, so the resulting state does not depend on it) -/
def unspendableKeys (s : State) (h : Nat) : List Nat :=
  (s.pool.filter fun p => unspendableAt s h p.2).map (·.1)

/-- BlockUndone for the block of height `h` (the next block will have that height again): put the block's
    transactions back, then drop — as expireOldTxs does — what spends a coinbase that is immature again or gone -/
def blockUndoneAt (K : Keys) (minFee : Nat) (s : State) (h : Nat) (txs : List Tx) : State :=
  let s := blockUndone K minFee s txs
  expire K s (unspendableKeys s h)

/-- HasNoChildren -/
def hasNoChildren (K : Keys) (s : State) (t : T2S) : Bool :=
  (iota t.tx.outs.length).all fun vout => (s.spent.get? (K.uidx t.tx.id vout)).isNone

/-- removeExcessiveTxs deletes a suffix of the sorted listing, worst first, each with Delete(false, 0).
    Which suffix depends on byte footprints (not modelled): the victims are an argument and each must be
    child-less at its turn (that is what "last of a parents-first listing" guarantees); otherwise `none`. -/
def evict (K : Keys) (s : State) (victims : List Nat) : Option State :=
  victims.foldlM (fun s b =>
    match s.pool.get? b with
    | some t => if hasNoChildren K s t then some (delOne K s t 0) else none
    | none => none) s

/-! ### GetSortedMempoolSlow / buildSortedList / GetSortedMempool (sort.go) -/

/-- insertion into a list sorted by `better` (stable: after equal elements) -/
def insSorted (t : Nat × T2S) : List (Nat × T2S) → List (Nat × T2S)
  | [] => [t]
  | x :: r => if better t.2 x.2 then t :: x :: r else x :: insSorted t r

/-- all_txs after sort.Slice (ties in pool order; the Go order of ties is unspecified) -/
def feeOrder (s : State) : List (Nat × T2S) :=
  s.pool.foldl (fun acc p => insSorted p acc) []

/-- missing_parents(tx, true): some flagged parent is not yet in the result -/
def missingParents (K : Keys) (res : List (Nat × T2S)) (t : T2S) : Bool :=
  (memParents K t).any fun p => !(res.map (·.1)).contains p

/-- append_txs: append, then retry the deferred children whose parents are now all in -/
def appendTxs (K : Keys) : Nat → List (Nat × T2S) × List (Nat × T2S) → Nat × T2S →
    List (Nat × T2S) × List (Nat × T2S)
  | 0, st, _ => st
  | fuel + 1, (res, deferred), x =>
    let res := res ++ [x]
    deferred.foldl (fun (st : List (Nat × T2S) × List (Nat × T2S)) d =>
      if (st.1.map (·.1)).contains d.1 then st
      else if (memParents K d.2).contains x.1 && !missingParents K st.1 d.2 then
        appendTxs K fuel st d
      else st) (res, deferred)

/-- one step of the main loop of GetSortedMempoolSlow -/
def slowStep (K : Keys) (fuel : Nat) (st : List (Nat × T2S) × List (Nat × T2S)) (p : Nat × T2S) :
    List (Nat × T2S) × List (Nat × T2S) :=
  if missingParents K st.1 p.2 then (st.1, st.2 ++ [p])
  else appendTxs K fuel st p

/-- GetSortedMempoolSlow with the records -/
def sortedSlowP (K : Keys) (s : State) : List (Nat × T2S) :=
  ((feeOrder s).foldl (slowStep K (s.pool.length + 1)) ([], [])).1

def sortedSlow (K : Keys) (s : State) : List Nat := (sortedSlowP K s).map (·.1)

/-- buildSortedList -/
def buildSorted (K : Keys) (s : State) : State :=
  if s.sortDirty then
    let l := sortedSlow K s
    let step := if l.isEmpty then s.sortStep else stepFor s.pool.length
    { s with sorted := l, sortDirty := false, sortStep := step, ranks := rankFrom step SORT_START l,
             rankWrap := !rankRoom step l.length }
  else s

/-- GetSortedMempool -/
def getSorted (K : Keys) (s : State) : List Nat :=
  if s.sortDirty then sortedSlow K s else s.sorted

/-! ### CPFP fee packages (pkgs.go): the listing of GetSortedMempoolRBF

  The membership of FeePackages (GetItWithAllChildren at creation, addToPackages / delFromPackages afterwards,
  time-based suspension) is not recomputed by the model: the packages are an observed input (like the eviction
  victims), validated by `pkgOK`, and the merge of the sorted list with them is modelled statement by statement. -/

structure Pkg where
  txs : List Nat        -- OneTxsPackage.Txs as BIDX, top parent first
  fee : Nat
  weight : Nat
deriving Repr, Inhabited

/-- anyIn -/
def Pkg.anyIn (pk : Pkg) (res : List Nat) : Bool := pk.txs.any fun b => res.contains b

/-- the inner loop of GetSortedMempoolRBF at list element `t`: consume the packages that beat `t` -/
def takePkgs (t : T2S) : List Pkg → List Nat → List Pkg × List Nat
  | [], res => ([], res)
  | pk :: r, res =>
    if pk.fee * t.tx.weight > t.fee * pk.weight then
      if pk.anyIn res then takePkgs t r res else takePkgs t r (res ++ pk.txs)
    else (pk :: r, res)

/-- GetSortedMempoolRBF: walk the sorted list `l`, merging in the (sorted) FeePackages `pks` -/
def mergeRBF (s : State) : List Nat → List Pkg → List Nat → List Nat
  | [], _, res => res
  | b :: rest, pks, res =>
    match s.pool.get? b with
    | none => mergeRBF s rest pks (if res.contains b then res else res ++ [b])
    | some t =>
      let r := takePkgs t pks res
      mergeRBF s rest r.1 (if r.2.contains b then r.2 else r.2 ++ [b])

/-- every element is pooled and each of its flagged parents stands before it (or in `seen`) -/
def pfKeys (K : Keys) (s : State) : List Nat → List Nat → Bool
  | _, [] => true
  | seen, b :: r =>
    (match s.pool.get? b with
     | none => false
     | some t => (memParents K t).all fun p => seen.contains p) && pfKeys K s (b :: seen) r

def nodupKeys : List Nat → Bool
  | [] => true
  | b :: r => !r.contains b && nodupKeys r

/-- what the merge relies on in a package: at least two members, no duplicates, all pooled, closed under flagged
    parents with parents first, Fee and Weight the sums over the members -/
def pkgOK (K : Keys) (s : State) (pk : Pkg) : Bool :=
  decide (pk.txs.length ≥ 2) && nodupKeys pk.txs && pfKeys K s [] pk.txs &&
  decide (pk.fee = (pk.txs.filterMap s.pool.get?).foldl (fun n t => n + t.fee) 0) &&
  decide (pk.weight = (pk.txs.filterMap s.pool.get?).foldl (fun n t => n + t.tx.weight) 0)

/-- GetSortedMempoolRBF (after buildListAndPackages) -/
def sortedRBF (K : Keys) (s : State) (pks : List Pkg) : List Nat := mergeRBF s (getSorted K s) pks []

/-! ### save + load (disk.go) -/

/-- MempoolSave followed by MempoolLoad into a fresh process -/
def reload (K : Keys) (s : State) : State :=
  let pool := s.pool.map fun (b, t) =>
    if t.mem.isEmpty then (b, t)
    else
      let mem := t.tx.ins.map fun i => s.pool.has (K.bidx i.prev)
      let cnt := (mem.filter id).length
      (b, { t with mem := if cnt = 0 then [] else mem, memCnt := cnt })
  let spent := pool.foldl (fun (m : AList Nat Nat) p =>
    p.2.tx.ins.foldl (fun m i => m.set (K.uidx i.prev i.vout) p.1) m) []
  let wt := pool.foldl (fun n p => n + p.2.tx.weight) 0
  let s0 : State := { cfg := s.cfg, pool, spent, weightTotal := wt, sorted := [], sortDirty := true,
                      sortDisabled := s.sortDisabled, utxo := s.utxo, height := s.height, undo := s.undo,
                      panicked := s.panicked }
  s.ring.foldl (fun st slot =>
    match slot with
    | none => st
    | some b => match s.rej.get? b with
      | none => st
      | some r =>
        let r := if r.tx.isNone then { r with waiting4 := none } else r
        rejAdd K st r) s0

/-! ### operations and runs (the quantifier of the property) -/

inductive Op where
  | submitNet (t : Tx) (trusted : Bool) (minFee : Nat)
  | submitLocal (t : Tx) (minFee : Nat)
  | block (h : Nat) (txs : List Tx) (minFee : Nat) -- connect a (valid) block of height h (common.Last is updated by `tip`)
  | undo (h : Nat) (minFee : Nat)                 -- disconnect the last block (h = its height, bl.Height)
  | tip (h : Nat)                                 -- common.Last.Block moves (after CommitBlock returned)
  | expire (old : List Nat)
  | evict (victims : List Nat)
  | resort                                        -- buildSortedList (every GetSortedMempoolRBF call)
  | commitFlag (yes : Bool)                       -- BlockCommitInProgress
  | reload

def step (K : Keys) (s : State) : Op → State
  | .submitNet t tr mf => (submitNet K mf s t tr).2
  | .submitLocal t mf => (submitLocal K mf s t).2
  | .block h txs mf => blockMined K mf (connectUtxo s h txs) txs
  | .undo h mf => match disconnectUtxo s with
    | some (s, txs) => blockUndoneAt K mf s h txs
    | none => s
  | .tip h => { s with height := h }
  | .expire old => expire K s old
  | .evict v => (evict K s v).getD s
  | .resort => buildSorted K s
  | .commitFlag y => { s with sortDisabled := y }
  | .reload => reload K s

def run (K : Keys) (s : State) (ops : List Op) : State := ops.foldl (step K) s

end GocoinV.Mempool
