/-
  Model.MempoolLoad — the REFUSED load of mempool.dmp (disk.go MempoolLoad, label `fatal_error`) and InitMempool
  (tosend.go; also the text-UI command `mempool purge`).

  MempoolLoad fills the global maps while it reads: after InitMempool() the header (tip hash, version), then the
  TransactionsToSend records one by one (TransactionsToSend[..] = t2s, size / weight counters), only then the rebuild of
  SpentOutputs, then the rejected records (txr.Add()), the END marker, and only after the marker the recovery of the
  MemInputs flags and SortListDirty / FeePackagesDirty = true.  A file cut short by a crash during MempoolSave (which
  writes mempool.dmp in place), or a damaged one, makes a read fail in the middle of this; the code then jumps to
  `fatal_error`, which calls InitMempool() AGAIN and returns false.  client/main.go ignores the result: the node goes
  on with whatever the pool holds.

    `initMempool s`        : the state InitMempool() leaves (every pool-side field as in a fresh process; the chain side,
                             the configuration, SortingDisabled and the sticky panic flag are not touched);
    `loadPartial K s k j`  : the state at the `goto fatal_error` when the file written from `s` is cut after `k` pool
                             records (`j = none`: inside the pool section, SpentOutputs not yet rebuilt) or after the whole
                             pool section and `j` rejected records (`j = some n`);
    `loadRefused K s k j`  : what MempoolLoad leaves when it returns false = initMempool of that.

  The oracle's `loadfail` runs `loadRefused` (the cut position is an input, the result does not depend on it:
  Proofs/C12Load.lean `loadRefused_eq`).  `loadPartial` itself is never observable on the unchanged code; it is there to
  show that the second InitMempool() is load-bearing (`partial_load_counterexample` in Props/C12.lean: without it a
  conflicting spend is accepted next to a half-loaded transaction).  Core Lean only.
-/
import GocoinV.Model.Mempool
namespace GocoinV.Mempool

/-- InitMempool(): emptyFeePackages, InitTransactionsToSend, InitTransactionsRejected, BestT2S/WorstT2S = nil,
    adjustSortIndexStep() on the empty pool, SortListDirty = false.  SortingDisabled is not touched. -/
def initMempool (s : State) : State :=
  { cfg := s.cfg, sortDisabled := s.sortDisabled, utxo := s.utxo, height := s.height, undo := s.undo,
    panicked := s.panicked }

/-- newOneTxToSendFromFile: MemInputs is allocated (all false) iff the saved flag byte says it was not nil;
    MemInputCnt stays 0 until the recovery loop behind the END marker -/
def fileRec (t : T2S) : T2S :=
  { t with mem := if t.mem.isEmpty then [] else t.tx.ins.map fun _ => false, memCnt := 0 }

/-- MempoolLoad up to a failing read -/
def loadPartial (K : Keys) (s : State) (k : Nat) (j : Option Nat) : State :=
  let s0 := initMempool s
  match j with
  | none =>
    let pool := (s.pool.take k).map fun (b, t) => (b, fileRec t)
    { s0 with pool, weightTotal := pool.foldl (fun n p => n + p.2.tx.weight) 0 }
  | some j =>
    let pool := s.pool.map fun (b, t) => (b, fileRec t)
    let spent := pool.foldl (fun (m : AList Nat Nat) p =>
      p.2.tx.ins.foldl (fun m i => m.set (K.uidx i.prev i.vout) p.1) m) []
    let s1 : State := { s0 with pool, spent, weightTotal := pool.foldl (fun n p => n + p.2.tx.weight) 0 }
    ((s.ring.filterMap fun slot => slot.bind s.rej.get?).take j).foldl (fun st r =>
      rejAdd K st (if r.tx.isNone then { r with waiting4 := none } else r)) s1

/-- MempoolLoad returning false: `fatal_error: … InitMempool(); return false` -/
def loadRefused (K : Keys) (s : State) (k : Nat) (j : Option Nat) : State := initMempool (loadPartial K s k j)

end GocoinV.Mempool
