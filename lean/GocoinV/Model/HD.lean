/-
  Model.HD — mirror of lib/btc/wallethd.go (HDWallet.Child / Pub / Serialize / String / StringWallet /
  ByteCheck / PubAddr / MasterKey) and lib/btc/wallet.go (PublicFromPrivate, DeriveNextPrivate,
  DeriveNextPublic, NewPrivateAddr, DecodePrivateAddr, PrivateAddr.String).

  * math/big is `Nat`; `secp256k1.BaseMultiply / BaseMultiplyAdd / ParsePubkey` are the reference curve
    of Base/Secp.lean (textbook affine arithmetic) — gocoin's limb code is the subject of C08.
  * A Go panic is `.error .panic`. `.error .outside` marks inputs on which the Go code produces
    *junk without failing* (a private extended key ≡ 0 mod n: `PublicFromPrivate` returns nil and
    `Child` / `Pub` / `PubAddr` go on with the nil key; keys of the wrong length): the model does not mirror
    the junk VALUE; the harness still runs the real code there and judges it by the reference predicate
    wherever BIP32 defines a result.
  * The point at infinity is NOT serialised any more (`fix:` commit for C08's api-*-identity findings:
    `BaseMultiply` / `BaseMultiplyAdd` return false there): `NewPrivateAddr` panics on a key ≡ 0 mod n, the public
    branch of `Child` panics when I_L·G + P = ∞ (BIP32: "invalid, proceed with the next i"), `DeriveNextPublic`
    returns the zero-filled buffer — all three mirrored exactly.
  * A public key that does not parse (first byte not 02/03, x ≥ p, x³+7 no square) is NOT outside:
    since the `fix:` commits for finding `xpub-noncanonical-x` `ByteCheck` refuses it (it used to ignore
    `ParsePubkey`'s verdict and asked `IsValid()` of the point built from x mod p) and the public branch of
    `Child` panics when `BaseMultiplyAdd` reports failure (it used to return a key of 33 zero bytes).
    `DeriveNextPublic` itself still returns the zero-filled buffer — mirrored exactly.
  * The version constants, the hardened threshold and the "Bitcoin seed" key are REGENERATED from the
    source (Gen/HDConsts.lean).
-/
import GocoinV.Base.Secp
import GocoinV.Model.WalletCrypto
import GocoinV.Gen.HDConsts
namespace GocoinV.HD
open Gen.HDConsts

inductive Fail | panic | outside
  deriving Repr, DecidableEq

structure HDWallet where
  chCode : Bytes     -- 32 bytes
  key : Bytes        -- 33 bytes
  pfx : Nat          -- uint32
  idx : Nat          -- uint32 (`I`)
  checksum : Bytes   -- [4]byte: fingerprint of the parent
  depth : Nat        -- byte
  deriving Repr, DecidableEq

def isPublicPfx (p : Nat) : Bool := setIsPublicHDPrefix.contains p
def isPrivatePfx (p : Nat) : Bool := setIsPrivateHDPrefix.contains p
def isTestnetPfx (p : Nat) : Bool := setIsTestnetHDPrefix.contains p
/-- `PublishHDPrefix` -/
def publishPfx (p : Nat) : Nat :=
  match publishTable.find? (·.1 == p) with
  | some (_, q) => q
  | none => p

/-- compressed serialisation of a finite point -/
def serPoint (compressed : Bool) : Secp.Point → Option Bytes
  | none => none
  | some P => some (if compressed then Secp.ser33 (some P) else Secp.ser65 (some P))

/-- `btc.PublicFromPrivate(priv, compressed)` for a 32-byte `priv`: k·G with k the big-endian value
    (not reduced: `ECmultGen` walks the 256 bits). `none` = point at infinity: `BaseMultiply` reports false
    there (since the `fix:` commit for C08's api-*-identity findings; it used to write stale coordinates and
    report true) and `PublicFromPrivate` returns nil. -/
def publicFromPrivate (priv : Bytes) (compressed : Bool) : Option Bytes :=
  serPoint compressed (Secp.mul (beVal priv) Secp.G)

/-- `btc.DeriveNextPrivate(p, s)` = (p + s) mod n as 32 bytes -/
def deriveNextPrivate (p s : Bytes) : Bytes :=
  beBytes 32 ((beVal p + beVal s) % Secp.n)

/-- `secp256k1.BaseMultiplyAdd(public, secret, out)` for a 33-byte `public`: `.ok none` = it returns false
    (`ParsePubkey` refuses: first byte not 02/03, x ≥ p, or x³+7 without a square root; or secret·G + P is the
    point at infinity — false since the `fix:` commit for C08's api-basemultiplyadd-identity, stale coordinates
    and true before) and leaves `out` untouched; `.ok (some b)` = true with `out` = secret·G + P compressed. -/
def baseMultiplyAdd (pub secret : Bytes) : Except Fail (Option Bytes) :=
  if pub.length ≠ 33 then .error .outside
  else match Secp.parsePubkey pub with
    | none => .ok none
    | some P =>
      match serPoint true (Secp.add (Secp.mul (beVal secret) Secp.G) (some P)) with
      | none => .ok none                            -- infinity: BaseMultiplyAdd returns false
      | some b => .ok (some b)

/-- `btc.DeriveNextPublic(public, secret)` for a 33-byte `public`: secret·G + P, compressed. It ignores
    `BaseMultiplyAdd`'s verdict: for a key that does not parse the zero-filled buffer is returned. -/
def deriveNextPublic (pub secret : Bytes) : Except Fail Bytes :=
  match baseMultiplyAdd pub secret with
  | .error e => .error e
  | .ok none => .ok (List.replicate 33 0)
  | .ok (some b) => .ok b

/-- `(*HDWallet).Child(i)` -/
def child (C : WalletCrypto) (w : HDWallet) (i : Nat) : Except Fail HDWallet :=
  if w.key.length ≠ 33 ∨ i ≥ 2^32 then .error .outside
  else if isPrivatePfx w.pfx then
    match publicFromPrivate (w.key.drop 1) true with
    | none => .error .outside
    | some pub =>
      let ha := C.hmac512 w.chCode ((if i ≥ hardenedFrom then w.key else pub) ++ beBytes 4 i)
      .ok { pfx := w.pfx, depth := (w.depth + 1) % 256, checksum := (C.hash160 pub).take 4, idx := i,
            chCode := ha.drop 32, key := 0 :: deriveNextPrivate (ha.take 32) (w.key.drop 1) }
  else if isPublicPfx w.pfx then
    if i ≥ hardenedFrom then .error .panic
    else
      let ha := C.hmac512 w.chCode (w.key ++ beBytes 4 i)
      match baseMultiplyAdd w.key (ha.take 32) with
      | .error e => .error e
      | .ok none => .error .panic                   -- "HDWallet.Child(): Invalid public key"
      | .ok (some nk) =>
        .ok { pfx := w.pfx, depth := (w.depth + 1) % 256, checksum := (C.hash160 w.key).take 4, idx := i,
              chCode := ha.drop 32, key := nk }
  else .error .panic

/-- the 78 bytes before the checksum -/
def serializeBody (w : HDWallet) : Bytes :=
  beBytes 4 w.pfx ++ [UInt8.ofNat w.depth] ++ w.checksum ++ beBytes 4 w.idx ++ w.chCode ++ w.key

/-- `(*HDWallet).Serialize()` -/
def serialize (C : WalletCrypto) (w : HDWallet) : Bytes :=
  serializeBody w ++ (C.shaHash (serializeBody w)).take 4

/-- `(*HDWallet).String()` -/
def toString (C : WalletCrypto) (w : HDWallet) : Bytes := Base58.encode (serialize C w)

inductive ParseErr | length | pfx | pubkey | checksum
  deriving Repr, DecidableEq

/-- `ByteCheck`: length, known version bytes and — for public versions — `ParsePubkey` of the key bytes
    must succeed (strict SEC1 parsing: 02/03, x < p, x³+7 a square). This IS the code since the `fix:`
    commit for finding `xpub-noncanonical-x`; the harness's corpus holds the x ≥ p witnesses. -/
def byteCheck (dbin : Bytes) : Option ParseErr :=
  if dbin.length ≠ 82 then some .length
  else
    let vb := beVal (dbin.take 4)
    if !isPrivatePfx vb && !isPublicPfx vb then some .pfx
    else if isPublicPfx vb ∧ Secp.parsePubkey ((dbin.drop 45).take 33) = none then some .pubkey
    else none

/-- parse of the 82 bytes (after `ByteCheck`) -/
def parseBytes (C : WalletCrypto) (dbin : Bytes) : Except ParseErr HDWallet :=
  match byteCheck dbin with
  | some e => .error e
  | none =>
    if (C.shaHash (dbin.take 78)).take 4 ≠ dbin.drop 78 then .error .checksum
    else .ok { pfx := beVal (dbin.take 4), depth := ((dbin.drop 4).headD 0).toNat,
               checksum := (dbin.drop 5).take 4, idx := beVal ((dbin.drop 9).take 4),
               chCode := (dbin.drop 13).take 32, key := (dbin.drop 45).take 33 }

/-- `StringWallet` (a failed `Decodeb58` gives nil, which fails the length check) -/
def stringWallet (C : WalletCrypto) (s : Bytes) : Except ParseErr HDWallet :=
  parseBytes C ((Base58.decode s).getD [])

/-- `(*HDWallet).Pub()` -/
def pub (w : HDWallet) : Except Fail HDWallet :=
  if isPublicPfx w.pfx then .ok w
  else if w.key.length ≠ 33 then .error .outside
  else match publicFromPrivate (w.key.drop 1) true with
    | none => .error .outside
    | some k => .ok { w with pfx := publishPfx w.pfx, key := k }

def addrVerPubkey (testnet : Bool) : UInt8 := if testnet then btcAddrVerPubkeyTest else btcAddrVerPubkeyMain
def addrVerScript (testnet : Bool) : UInt8 := if testnet then btcAddrVerScriptTest else btcAddrVerScriptMain

/-- `(*HDWallet).PubAddr()`; inner `none` = nil address -/
def pubAddr (C : WalletCrypto) (w : HDWallet) : Except Fail (Option Addr.Addr) :=
  if w.key.length ≠ 33 then .error .outside
  else
    let pubk : Option Bytes := if isPrivatePfx w.pfx then publicFromPrivate (w.key.drop 1) true else some w.key
    match pubk with
    | none => .error .outside
    | some pb =>
      let h160 := C.hash160 pb
      let testnet := isTestnetPfx w.pfx
      if w.pfx = pfxPrivateZ ∨ w.pfx = pfxPublicZ ∨ w.pfx = pfxTestPrivateZ ∨ w.pfx = pfxTestPublicZ then
        .ok (Addr.fromPkScript C.hashes ([0, 20] ++ h160) testnet)
      else if w.pfx = pfxPrivateY ∨ w.pfx = pfxPublicY ∨ w.pfx = pfxTestPrivateY ∨ w.pfx = pfxTestPublicY then
        .ok (some (.b58 (addrVerScript testnet) (C.hash160 ([0, 20] ++ h160)) none))
      else .ok (some (.b58 (addrVerPubkey testnet) h160 none))

/-- `MasterKey(seed, testnet)` -/
def masterKey (C : WalletCrypto) (seed : Bytes) (testnet : Bool) : HDWallet :=
  let I := C.hmac512 masterHmacKey seed
  { chCode := I.drop (I.length / 2), key := 0 :: I.take (I.length / 2),
    pfx := if testnet then pfxTestPrivate else pfxPrivate, idx := 0, checksum := [0, 0, 0, 0], depth := 0 }

/-! ### PrivateAddr (WIF) -/

structure PrivAddr where
  key : Bytes
  version : UInt8        -- of the private encoding
  addrVersion : UInt8    -- BtcAddr.Version = version - 0x80
  pubkey : Bytes
  h160 : Bytes
  deriving Repr, DecidableEq

/-- `NewPrivateAddr(key, ver, compr)`; `.panic` when PublicFromPrivate returns nil, i.e. when key·G is the
    point at infinity (key ≡ 0 mod n): panic("PublicFromPrivate error") -/
def newPrivateAddr (C : WalletCrypto) (key : Bytes) (ver : UInt8) (compr : Bool) : Except Fail PrivAddr :=
  match publicFromPrivate key compr with
  | none => .error .panic
  | some pb => .ok { key := key, version := ver, addrVersion := ver - 0x80, pubkey := pb, h160 := C.hash160 pb }

/-- `(*PrivateAddr).String()` -/
def privAddrString (C : WalletCrypto) (a : PrivAddr) : Except Fail Bytes :=
  if a.pubkey.length = 33 then
    let buf := a.version :: (a.key ++ [1])
    .ok (Base58.encode (buf ++ (C.shaHash buf).take 4))
  else if a.pubkey.length = 65 then
    let buf := a.version :: a.key
    .ok (Base58.encode (buf ++ (C.shaHash buf).take 4))
  else .error .panic

inductive WifErr | b58 | short | long | checksum | flag
  deriving Repr, DecidableEq

/-- `DecodePrivateAddr`. Since the `fix:` commit for finding `wif-flag-byte-unchecked` the code refuses a
    38-byte payload whose byte 33 (the compression flag) is not 01 (`.flag`, tested after the checksum);
    before, such a payload was taken as an uncompressed key. -/
def decodePrivateAddr (C : WalletCrypto) (s : Bytes) : Except WifErr (Except Fail PrivAddr) :=
  match Base58.decode s with
  | none => .error .b58
  | some pkb =>
    if pkb.length < 37 then .error .short
    else if pkb.length > 38 then .error .long
    else if (C.shaHash (pkb.take (pkb.length - 4))).take 4 ≠ pkb.drop (pkb.length - 4) then .error .checksum
    else if pkb.length = 38 ∧ pkb.getD 33 0 ≠ 1 then .error .flag
    else .ok (newPrivateAddr C ((pkb.drop 1).take 32) (pkb.headD 0) (pkb.length = 38 ∧ pkb.getD 33 0 = 1))

end GocoinV.HD
