/-
  Model.Snappy — lib/others/snappy block format: `Decode` (decode.go + decode_other.go) and
  `Encode` (encode.go + encode_other.go), statement by statement. Core-only, executable.

  * Go `int` is 64 bit (wordSize = 64): `length <= 0` after `int(x)+1` cannot happen, `ErrTooLarge` cannot happen.
  * multi-byte little-endian loads `a | b<<8 | …` are written `a + 256*b + …` (same value: disjoint bits).
  * the destination buffer `dst[0:d]` is the array `dst` (its size is Go's `d`); `dLen` is Go's `len(dst)`.
  * the encoder is split exactly where the Go code calls `emitLiteral` / `emitCopy`: `encodeBlockOps`
    produces the list of emit calls (`Elem`), `emitElem` is the byte form of one call.  The hash table
    is the real one (`Array Nat` of 1<<14 entries, hash `(u * 0x1e35a7bd) >> shift`), so the
    model's output is compared byte-for-byte with `snappy.Encode`; the theorems do not depend on the
    table's contents (every candidate is verified by comparing bytes before a copy is emitted).
-/
import GocoinV.Base.Bytes
import GocoinV.Gen.BlockDBFacts
namespace GocoinV.Snappy

/- constants regenerated from the snappy sources on every run (go/cmd/gen_c16) -/
def MAXBLOCK : Nat := Gen.BlockDBFacts.snappyMaxBlockSize
def MARGIN : Nat := Gen.BlockDBFacts.snappyInputMargin
def MINNONLIT : Nat := Gen.BlockDBFacts.snappyMinNonLiteralBlockSize
def HASHMUL : Nat := Gen.BlockDBFacts.snappyHashMul

/-! ## varint length header (encoding/binary) -/

/-- `binary.Uvarint`: `some (value, bytes read)` when Go returns `n > 0`; `none` for `n <= 0`
    (buffer too small, or overflow of 64 bits). `i` = index of the current byte, `x` = value so far. -/
def uvarintAux : Bytes → Nat → Nat → Option (Nat × Nat)
  | [], _, _ => none
  | b :: rest, i, x =>
    if i = 10 then none
    else if b < 0x80 then
      if i = 9 ∧ b > 1 then none
      else some (x + b.toNat * 2 ^ (7 * i), i + 1)
    else uvarintAux rest (i + 1) (x + (b.toNat % 128) * 2 ^ (7 * i))

def uvarint (src : Bytes) : Option (Nat × Nat) := uvarintAux src 0 0

/-- `binary.PutUvarint` (fuel 10 ≥ number of 7-bit groups of a uint64) -/
def putUvarintAux : Nat → Nat → Bytes
  | 0, x => [UInt8.ofNat x]
  | f + 1, x => if x ≥ 0x80 then UInt8.ofNat (x % 128 + 128) :: putUvarintAux f (x / 128) else [UInt8.ofNat x]

def putUvarint (x : Nat) : Bytes := putUvarintAux 10 x

/-- `decodedLen`: (blockLen, headerLen) or corrupt -/
def decodedLen (src : Bytes) : Option (Nat × Nat) :=
  match uvarint src with
  | none => none
  | some (v, n) => if v > 0xffffffff then none else some (v, n)

/-! ## decode -/

inductive DErr | corrupt | unsupported
  deriving DecidableEq, Repr

/-- the forward, byte-by-byte copy `for end := d+length; d != end; d++ { dst[d] = dst[d-offset] }` -/
def copyFwd (dst : Array UInt8) (offset : Nat) : Nat → Array UInt8
  | 0 => dst
  | n + 1 => copyFwd (dst.push (dst.getD (dst.size - offset) 0)) offset n

/-- what one tag at the head of `src` asks for -/
inductive Tag
  | lit (hdr : Nat) (length : Nat)       -- header bytes consumed, literal length
  | copy (hdr : Nat) (offset length : Nat)
  | bad

def b (src : Bytes) (i : Nat) : Nat := (src.getD i 0).toNat

/-- `uint(k) > uint(len(src))`, computed without walking the whole list -/
def shorter (src : Bytes) (k : Nat) : Bool := (src.take k).length < k

/-- parse the tag at the head of a non-empty `src` (the `switch src[s] & 0x03` with its `s += k` and
    `uint(s) > uint(len(src))` checks) -/
def parseTag (src : Bytes) : Tag :=
  let t := b src 0
  match t % 4 with
  | 0 =>
    let x := t / 4
    if x < 60 then .lit 1 (x + 1)
    else if x = 60 then (if shorter src 2 then .bad else .lit 2 (b src 1 + 1))
    else if x = 61 then (if shorter src 3 then .bad else .lit 3 (b src 1 + 256 * b src 2 + 1))
    else if x = 62 then (if shorter src 4 then .bad else .lit 4 (b src 1 + 256 * b src 2 + 65536 * b src 3 + 1))
    else (if shorter src 5 then .bad else .lit 5 (b src 1 + 256 * b src 2 + 65536 * b src 3 + 16777216 * b src 4 + 1))
  | 1 => if shorter src 2 then .bad else .copy 2 ((t / 32) * 256 + b src 1) (4 + (t / 4) % 8)
  | 2 => if shorter src 3 then .bad else .copy 3 (b src 1 + 256 * b src 2) (1 + t / 4)
  | _ => if shorter src 5 then .bad
         else .copy 5 (b src 1 + 256 * b src 2 + 65536 * b src 3 + 16777216 * b src 4) (1 + t / 4)

/-- one iteration of the `for s < len(src)` loop of `decode`: remaining source and extended destination -/
def decodeStep (dLen : Nat) (src : Bytes) (dst : Array UInt8) : Except DErr (Bytes × Array UInt8) :=
  match parseTag src with
  | .bad => .error .corrupt
  | .lit hdr length =>
    let lit := (src.drop hdr).take length
    -- `length > len(src)-s`  ⇔  fewer than `length` bytes follow the header
    if length > dLen - dst.size ∨ lit.length < length then .error .corrupt
    else .ok (src.drop (hdr + length), dst ++ lit.toArray)
  | .copy hdr offset length =>
    if offset = 0 ∨ dst.size < offset ∨ length > dLen - dst.size then .error .corrupt
    else .ok (src.drop hdr, copyFwd dst offset length)

/-- the loop of `decode` (fuel = an upper bound of the number of tags; every tag consumes ≥ 1 byte) -/
def decodeLoop (dLen : Nat) : Nat → Bytes → Array UInt8 → Except DErr (Array UInt8)
  | _, [], dst => if dst.size ≠ dLen then .error .corrupt else .ok dst
  | 0, _ :: _, _ => .error .corrupt   -- unreachable when fuel ≥ src.length
  | f + 1, src@(_ :: _), dst =>
    match decodeStep dLen src dst with
    | .error e => .error e
    | .ok (src', dst') => decodeLoop dLen f src' dst'

/-- `snappy.Decode(nil, src)` -/
def decode (src : Bytes) : Except DErr Bytes :=
  match decodedLen src with
  | none => .error .corrupt
  | some (dLen, s) =>
    match decodeLoop dLen (src.length) (src.drop s) #[] with
    | .ok d => .ok d.toList
    | .error e => .error e

/-! ## encode -/

/-- one call of `emitLiteral` / `emitCopy` made by the encoder -/
inductive Elem
  | lit (bytes : Bytes)
  | copy (offset length : Nat)
  deriving Repr

/-- `emitLiteral` (assumes 1 ≤ len ≤ 65536) -/
def emitLiteral (lit : Bytes) : Bytes :=
  let n := lit.length - 1
  if n < 60 then UInt8.ofNat (n * 4) :: lit
  else if n < 256 then UInt8.ofNat (60 * 4) :: UInt8.ofNat n :: lit
  else UInt8.ofNat (61 * 4) :: UInt8.ofNat (n % 256) :: UInt8.ofNat (n / 256) :: lit

def copy2 (offset length : Nat) : Bytes :=
  [UInt8.ofNat ((length - 1) * 4 + 2), UInt8.ofNat (offset % 256), UInt8.ofNat (offset / 256)]

/-- `emitCopy` (assumes 1 ≤ offset ≤ 65535, 4 ≤ length ≤ 65535); fuel bounds the `for length >= 68` loop -/
def emitCopyAux : Nat → Nat → Nat → Bytes
  | f + 1, offset, length =>
    if length ≥ 68 then copy2 offset 64 ++ emitCopyAux f offset (length - 64)
    else if length > 64 then copy2 offset 60 ++ emitCopyAux f offset (length - 60)
    else if length ≥ 12 ∨ offset ≥ 2048 then copy2 offset length
    else [UInt8.ofNat ((offset / 256) * 32 + (length - 4) * 4 + 1), UInt8.ofNat (offset % 256)]
  | 0, _, _ => []

def emitCopy (offset length : Nat) : Bytes := emitCopyAux (length / 60 + 2) offset length

def emitElem : Elem → Bytes
  | .lit l => emitLiteral l
  | .copy o l => emitCopy o l

def emitAll (es : List Elem) : Bytes := es.flatMap emitElem

/-- what the decoder must reproduce from a list of emit calls, appended to `dst` -/
def expand (dst : Array UInt8) : List Elem → Array UInt8
  | [] => dst
  | .lit l :: es => expand (dst ++ l.toArray) es
  | .copy o n :: es => expand (copyFwd dst o n) es

def at8 (src : Array UInt8) (i : Nat) : Nat := (src.getD i 0).toNat

def load32 (src : Array UInt8) (i : Nat) : Nat :=
  at8 src i + 256 * at8 src (i + 1) + 65536 * at8 src (i + 2) + 16777216 * at8 src (i + 3)

/-- `hash(u, shift) = (u * 0x1e35a7bd) >> shift` on uint32, then `& tableMask` -/
def hashIdx (u shift : Nat) : Nat := ((u * HASHMUL) % 4294967296 / 2 ^ shift) % 16384

/-- `extendMatch`-style loop: advance `i`,`s` while `s < len(src) && src[i] == src[s]`; returns `s` -/
def extend (src : Array UInt8) : Nat → Nat → Nat → Nat
  | 0, _, s => s
  | f + 1, i, s => if s < src.size ∧ src.getD i 0 = src.getD s 0 then extend src f (i + 1) (s + 1) else s

def slice (src : Array UInt8) (a c : Nat) : Bytes := (src.extract a c).toList

/-- `shift`: `32-8` lowered once per doubling of tableSize while `tableSize < maxTableSize && tableSize < len(src)` -/
def shiftFor (n : Nat) : Nat :=
  let rec go : Nat → Nat → Nat → Nat
    | 0, _, sh => sh
    | f + 1, ts, sh => if ts < 16384 ∧ ts < n then go f (ts * 2) (sh - 1) else sh
  go 8 256 24

structure Enc where
  src : Array UInt8
  shift : Nat
  sLimit : Nat

/-- `emitRemainder:` -/
def remainder (e : Enc) (nextEmit : Nat) (acc : List Elem) : List Elem :=
  if nextEmit < e.src.size then (.lit (slice e.src nextEmit e.src.size) :: acc).reverse else acc.reverse

mutual
/-- inner scan loop of `encodeBlock` (looking for a 4-byte match) -/
def scan (e : Enc) : Nat → Array Nat → Nat → Nat → Nat → Nat → List Elem → List Elem
  | 0, _, _, _, _, _, acc => acc.reverse
  | f + 1, table, nextEmit, nextS, skip, nextHash, acc =>
    let s := nextS
    let bytesBetween := skip / 32
    let nextS := s + bytesBetween
    let skip := skip + bytesBetween
    if nextS > e.sLimit then remainder e nextEmit acc
    else
      let candidate := table.getD nextHash 0
      let table := table.setIfInBounds nextHash s
      let nextHash := hashIdx (load32 e.src nextS) e.shift
      if load32 e.src s = load32 e.src candidate then
        copyLoop e f table s candidate (.lit (slice e.src nextEmit s) :: acc)
      else scan e f table nextEmit nextS skip nextHash acc
/-- the `emitCopy` loop of `encodeBlock` (invariant: a 4-byte match at `s` with `candidate`) -/
def copyLoop (e : Enc) : Nat → Array Nat → Nat → Nat → List Elem → List Elem
  | 0, _, _, _, acc => acc.reverse
  | f + 1, table, s, candidate, acc =>
    let base := s
    let s := extend e.src e.src.size (candidate + 4) (s + 4)
    let acc := .copy (base - candidate) (s - base) :: acc
    let nextEmit := s
    if s ≥ e.sLimit then remainder e nextEmit acc
    else
      let prevHash := hashIdx (load32 e.src (s - 1)) e.shift
      let table := table.setIfInBounds prevHash (s - 1)
      let cur := load32 e.src s
      let currHash := hashIdx cur e.shift
      let candidate := table.getD currHash 0
      let table := table.setIfInBounds currHash s
      if cur ≠ load32 e.src candidate then
        scan e f table nextEmit (s + 1) 32 (hashIdx (load32 e.src (s + 1)) e.shift) acc
      else copyLoop e f table s candidate acc
end

/-- the emit calls of `encodeBlock(dst, src)` (17 ≤ len(src) ≤ 65536) -/
def encodeBlockOps (src : Array UInt8) : List Elem :=
  let shift := shiftFor src.size
  let e : Enc := { src := src, shift := shift, sLimit := src.size - MARGIN }
  scan e (src.size + 1) (Array.replicate 16384 0) 0 1 32 (hashIdx (load32 src 1) shift) []

/-- the emit calls of one ≤ 65536-byte piece `p` in `Encode`'s loop -/
def pieceOps (p : Array UInt8) : List Elem :=
  if p.size < MINNONLIT then [.lit p.toList] else encodeBlockOps p

/-- the pieces `p` of `Encode`'s `for len(src) > 0` loop -/
def pieces : Nat → Bytes → List Bytes
  | 0, _ => []
  | _ + 1, [] => []
  | f + 1, src@(_ :: _) => src.take MAXBLOCK :: pieces f (src.drop MAXBLOCK)

/-- all emit calls of `Encode` -/
def encodeOps (src : Bytes) : List Elem :=
  (pieces (src.length) src).flatMap fun p => pieceOps p.toArray

/-- `snappy.Encode(nil, src)` (len(src) ≤ 0xffffffff, so no `ErrTooLarge` panic) -/
def encode (src : Bytes) : Bytes := putUvarint src.length ++ emitAll (encodeOps src)

end GocoinV.Snappy
