/-
  Model.BlockDB — the block store of lib/chain/blockdb.go as a state machine over an abstract
  file system. Core-only, executable (`oracle_c16` runs exactly these definitions).

  What is modelled, as the code is written:
    NewBlockDBExt + LoadBlockIndex (= `reopen`), BlockAdd (queue + cache + flush thresholds),
    writeAll / writeOne (compression, roll-over, keep / backup of old data files, 136-byte index
    record), addToCache (LRU with the "never evict an unwritten block" rule), BlockGetInternal/BlockGet,
    BlockLength, BlockTrusted / BlockInvalid / setBlockFlag (sets `trusted` in memory for BLOCK_TRUSTED only — fix in /repo),
    Idle, Close.

  Serialisation / abstraction (stated, and enforced by the harness):
    * gocoin has no writer goroutine inside BlockDB: queued blocks reach the disk only in `writeAll`,
      called from BlockAdd (thresholds), Idle and Close — these are the model's flush points.
    * `go db.removeDatFile(..)` started at a roll-over is modelled as finishing at that point
      (the harness waits for `data_files_done` after every operation).
    * `time.Now()` is a logical clock that ticks at every cache insertion / hit.
    * files: `blockchain.new` is `fs.idx`; the data file with index i in the main directory is
      `fs.dats[i]`, in `oldat/` it is `fs.olds[i]` (dat_fname is an injective function of (i, archive)
      as long as nobody creates the alternative legacy name — the harness never does).
      File offsets of the two open handles always equal maxidxfilepos / maxdatfilepos (Seek in
      LoadBlockIndex, then sequential Writes), so writes are `pwrite` at these positions.
    * block hashes are `env.hash (first 80 bytes)`; the index key is its first 8 bytes (`BIdx`).
    * gzip-compressed records (flag 0x04 without 0x08) are never written by this code; reading one
      is reported as `gzip` and kept out of the generators.
    * `AbortNow` is false; uint32 truncations of lengths ≥ 2^32 are out of range (blocks ≤ 4 MB).
-/
import GocoinV.Base.Bytes
import GocoinV.Gen.BlockDBFacts
namespace GocoinV.BlockDB

/-! ## association lists (Go maps) -/
namespace AL
variable {κ : Type} [DecidableEq κ] {α : Type}

def get : List (κ × α) → κ → Option α
  | [], _ => none
  | (k', v) :: t, k => if k' = k then some v else get t k

def del : List (κ × α) → κ → List (κ × α)
  | [], _ => []
  | (k', v) :: t, k => if k' = k then del t k else (k', v) :: del t k

/-- replace in place if present, else append -/
def set : List (κ × α) → κ → α → List (κ × α)
  | [], k, v => [(k, v)]
  | (k', v') :: t, k, v => if k' = k then (k, v) :: t else (k', v') :: set t k v

end AL

abbrev Key := Bytes

/-- `oneBl` (ipos = none is Go's -1) -/
structure Rec where
  fpos : Nat := 0
  ipos : Option Nat := none
  blen : Nat := 0
  olen : Nat := 0
  datfileidx : Nat := 0
  trusted : Bool := false
  compressed : Bool := false
  snappied : Bool := false
  /-- identity of the Go `*oneBl` pointer: records made by BlockAdd get a fresh number (> 0), the ones made by
      LoadBlockIndex carry 0 (the queue is empty then, nothing is ever compared with them) -/
  seq : Nat := 0
  deriving DecidableEq, Repr

structure CacheEnt where
  lastUsed : Nat
  data : Bytes
  deriving DecidableEq, Repr

/-- `oneB2W` -/
structure B2W where
  data : Bytes
  idx : Key
  height : Nat
  txcount : Nat
  /-- `oneB2W.rec`: the index record this entry was queued for -/
  seq : Nat := 0
  deriving DecidableEq, Repr

/-- `BlockDBOpts` after NewBlockDBExt's defaulting (`maxCached = 0` means 100) -/
structure Opts where
  maxCached : Nat
  maxFileSize : Nat
  keep : Nat
  backup : Bool
  compress : Bool
  deriving DecidableEq, Repr

structure FS where
  idx : Bytes := []
  dats : List (Nat × Bytes) := []
  olds : List (Nat × Bytes) := []
  /-- GHOST (not a file; no operation reads it): the numbers of the data files whose stored bytes left the configured
      retention: removed by `removeDatFile` without backup. (Before the repair of the finding `backup-shadowed-by-new-file`
      also: `LoadBlockIndex` O_CREATEd a new file with that number in the main directory while the original sits in `oldat/`;
      that branch of `createCur` is dead when `Gen.BlockDBFacts.restoresBackup` holds.) "Within the configured retention" for
      a written record = its data-file number is not in this list (`Spec.BlockStoreMap.keyLost`);
      `Props.C16.lost_outside_keep_window` bounds the list by the configured `keep`. -/
  lost : List Nat := []
  deriving DecidableEq, Repr

/-- the functions the store uses but does not define -/
structure Env where
  enc : Bytes → Bytes              -- snappy.Encode(nil, ·)
  dec : Bytes → Option Bytes       -- snappy.Decode(nil, ·), none = error
  hash : Bytes → Bytes             -- btc.NewSha2Hash of the 80-byte header (32 bytes)
  /-- does LoadBlockIndex advance maxidxfilepos past an invalid-flagged record (F5)? -/
  advInvalid : Bool

structure State where
  fs : FS := {}
  opts : Opts := ⟨100, 0, 0, false, false⟩
  index : List (Key × Rec) := []
  cache : List (Key × CacheEnt) := []
  queue : List B2W := []
  datToWrite : Nat := 0
  maxidxfilepos : Nat := 0
  maxdatfilepos : Nat := 0
  maxdatfileidx : Nat := 0
  clock : Nat := 1
  isOpen : Bool := false
  /-- the next fresh record identity (see `Rec.seq`) -/
  nextSeq : Nat := 1
  deriving Repr

/- constants regenerated from blockdb.go on every run (go/cmd/gen_c16) -/
open Gen.BlockDBFacts in
def RECSIZE : Nat := recSize
open Gen.BlockDBFacts in
def MAX_BLOCKS_TO_WRITE : Nat := maxBlocksToWrite
open Gen.BlockDBFacts in
def MAX_DATA_WRITE : Nat := maxDataWrite
def BLOCK_TRUSTED : Nat := Gen.BlockDBFacts.blockTrusted
def BLOCK_INVALID : Nat := Gen.BlockDBFacts.blockInvalid
def BLOCK_COMPRSD : Nat := Gen.BlockDBFacts.blockComprsd
def BLOCK_SNAPPED : Nat := Gen.BlockDBFacts.blockSnapped
def BLOCK_LENGTH : Nat := Gen.BlockDBFacts.blockLength
def BLOCK_INDEX : Nat := Gen.BlockDBFacts.blockIndex

inductive GetErr
  | notInIndex | notWritten | purged | noFile | shortRead | snappy | gzip
  deriving DecidableEq, Repr

structure WalkRec where
  hash : Bytes
  hdr : Bytes
  height : Nat
  blen : Nat
  txs : Nat
  deriving DecidableEq, Repr

inductive Out
  | ok
  | data (bytes : Bytes) (trusted : Bool)
  | getErr (e : GetErr) (trusted : Bool)
  | len (n : Nat)
  | lenErr
  | walk (recs : List WalkRec)
  | panic
  | bad            -- operation outside the modelled domain (closed store, block < 80 bytes, …)
  deriving DecidableEq, Repr

inductive Op
  | add (hash : Bytes) (height txcount : Nat) (trusted : Bool) (raw : Bytes)
  | get (hash : Bytes)
  | length (hash : Bytes) (decodeIfNeeded : Bool)
  | trusted (hash : Bytes)
  | invalid (hash : Bytes)
  | idle
  | close
  | reopen (opts : Opts)
  deriving Repr

def keyOf (hash : Bytes) : Key := hash.take 8

/-! ## files -/

/-- `WriteAt` / `Write` at offset `pos` (a hole is zero-filled) -/
def pwrite (f : Bytes) (pos : Nat) (d : Bytes) : Bytes :=
  (f ++ List.replicate (pos - f.length) 0).take pos ++ d ++ f.drop (pos + d.length)

/-- the 136-byte index record written by `writeOne` -/
def mkRecord (flags datfileidx olen height fpos blen txcount : Nat) (hdr : Bytes) : Bytes :=
  [UInt8.ofNat flags] ++ List.replicate 27 0 ++ leBytes 4 datfileidx ++ leBytes 4 olen ++ leBytes 4 height
    ++ leBytes 8 fpos ++ leBytes 4 blen ++ leBytes 4 txcount ++ hdr.take 80

def field (b : Bytes) (a c : Nat) : Nat := leVal ((b.drop a).take (c - a))

/-- `removeDatFile(idx)`: rename into oldat/ (backup) or remove; nothing happens when the file is absent -/
def removeDatFile (o : Opts) (fs : FS) (i : Nat) : FS :=
  match AL.get fs.dats i with
  | none => fs
  | some content =>
    if o.backup then { fs with dats := AL.del fs.dats i, olds := AL.set fs.olds i content }
    else { fs with dats := AL.del fs.dats i, lost := i :: fs.lost }

/-! ## cache -/

def evictable (index : List (Key × Rec)) (k : Key) : Bool :=
  match AL.get index k with
  | some r => r.ipos.isSome
  | none => false   -- cannot happen: every cached key is in the index (Go would nil-dereference)

/-- the entry with the smallest LastUsed among the evictable ones -/
def oldest (index : List (Key × Rec)) : List (Key × CacheEnt) → Option (Key × Nat)
  | [] => none
  | (k, c) :: t =>
    match oldest index t with
    | none => if evictable index k then some (k, c.lastUsed) else none
    | some (k', u') => if evictable index k ∧ c.lastUsed < u' then some (k, c.lastUsed) else some (k', u')

/-- `for len(db.cache) >= db.max_cached_blocks { … }` -/
def evict (index : List (Key × Rec)) (max : Nat) : Nat → List (Key × CacheEnt) → List (Key × CacheEnt)
  | 0, cache => cache
  | f + 1, cache =>
    if cache.length ≥ max then
      match oldest index cache with
      | none => cache
      | some (k, _) => evict index max f (AL.del cache k)
    else cache

def addToCache (s : State) (k : Key) (data : Bytes) : State :=
  match AL.get s.cache k with
  | some c => { s with cache := AL.set s.cache k { c with lastUsed := s.clock }, clock := s.clock + 1 }
  | none =>
    let cache := evict s.index s.opts.maxCached s.cache.length s.cache
    { s with cache := AL.set cache k ⟨s.clock, data⟩, clock := s.clock + 1 }

/-! ## writing -/

/-- the roll-over branch of `writeOne` -/
def rollOver (s : State) : State :=
  let fs := { s.fs with dats := AL.set s.fs.dats (s.maxdatfileidx + 1) [] }   -- os.Create truncates
  let fs := if s.opts.keep ≠ 0 ∧ s.maxdatfileidx ≥ s.opts.keep
            then removeDatFile s.opts fs (s.maxdatfileidx - s.opts.keep) else fs
  { s with fs := fs, maxdatfilepos := 0, maxdatfileidx := s.maxdatfileidx + 1 }

def flagsOf (compressed trusted : Bool) : Nat :=
  (if compressed then BLOCK_COMPRSD + BLOCK_SNAPPED else 0) + (if trusted then BLOCK_TRUSTED else 0)
    + BLOCK_LENGTH + BLOCK_INDEX

/-- the roll-over decision of `writeOne` for `n` bytes to be written -/
def maybeRoll (s : State) (n : Nat) : State :=
  if s.opts.maxFileSize ≠ 0 ∧ s.maxdatfilepos + n > s.opts.maxFileSize then rollOver s else s

/-- the two file writes of `writeOne` and the publication of the record's fields -/
def writeRecord (s : State) (b2w : B2W) (r0 : Rec) (cbts : Bytes) : State :=
  let blen := cbts.length
  let datfileidx := s.maxdatfileidx
  let fpos := s.maxdatfilepos
  let ipos := s.maxidxfilepos
  let fl := mkRecord (flagsOf s.opts.compress r0.trusted) datfileidx b2w.data.length b2w.height fpos blen
              b2w.txcount b2w.data
  let dat := (AL.get s.fs.dats datfileidx).getD []
  let fs := { s.fs with dats := AL.set s.fs.dats datfileidx (pwrite dat fpos cbts),
                        idx := pwrite s.fs.idx ipos fl }
  let nrec := { r0 with compressed := s.opts.compress, snappied := s.opts.compress, blen := blen,
                        datfileidx := datfileidx, fpos := fpos, ipos := some ipos }
  { s with fs := fs, maxidxfilepos := s.maxidxfilepos + RECSIZE, maxdatfilepos := s.maxdatfilepos + blen,
           index := AL.set s.index b2w.idx nrec }

/-- `writeOne`: none when the queue is empty (Go returns false) -/
def writeOne (env : Env) (s : State) : Option State :=
  match s.queue with
  | [] => none
  | b2w :: q =>
    let s := { s with queue := q, datToWrite := s.datToWrite - b2w.data.length }
    match AL.get s.index b2w.idx with
    | none => some s                                  -- "Block not in the index anymore - discard"
    | some r0 =>
      -- `rec != b2w.rec`: the block was marked invalid while queued and the same hash was added again
      if r0.seq ≠ b2w.seq ∨ r0.ipos.isSome then some s else
      let cbts := if s.opts.compress then env.enc b2w.data else b2w.data
      some (writeRecord (maybeRoll s cbts.length) b2w r0 cbts)

/-- `writeAll` (fuel = queue length) -/
def writeAll (env : Env) : Nat → State → State
  | 0, s => s
  | f + 1, s => match writeOne env s with
    | none => s
    | some s' => writeAll env f s'

def flush (env : Env) (s : State) : State := writeAll env s.queue.length s

/-- `setBlockFlag`: `trusted = true` in memory when the flag is BLOCK_TRUSTED; OR the flag into the byte at ipos
    (ReadAt/WriteAt at -1 fail silently) -/
def setBlockFlag (s : State) (k : Key) (r0 : Rec) (fl : Nat) : State :=
  let s := { s with index := AL.set s.index k { r0 with trusted := r0.trusted || fl == BLOCK_TRUSTED } }
  match r0.ipos with
  | none => s
  | some p =>
    let cur := (s.fs.idx.getD p 0).toNat
    { s with fs := { s.fs with idx := pwrite s.fs.idx p [UInt8.ofNat (cur ||| fl)] } }

def blockTrusted (s : State) (hash : Bytes) : State :=
  let k := keyOf hash
  match AL.get s.index k with
  | none => s
  | some r0 => if r0.trusted then s else setBlockFlag s k r0 BLOCK_TRUSTED

def blockAdd (env : Env) (s : State) (hash : Bytes) (height txcount : Nat) (trusted : Bool) (raw : Bytes) : State :=
  let k := keyOf hash
  match AL.get s.index k with
  | none =>
    let s := { s with index := AL.set s.index k { ipos := none, trusted := trusted, olen := raw.length, seq := s.nextSeq } }
    let s := addToCache s k raw
    let s := { s with datToWrite := s.datToWrite + raw.length, nextSeq := s.nextSeq + 1,
                      queue := s.queue ++ [{ data := raw, idx := k, height := height, txcount := txcount % 2^32,
                                             seq := s.nextSeq }] }
    if s.queue.length ≥ MAX_BLOCKS_TO_WRITE ∨ s.datToWrite ≥ MAX_DATA_WRITE then flush env s else s
  | some r0 =>
    if !r0.trusted && trusted then
      if r0.ipos.isNone then { s with index := AL.set s.index k { r0 with trusted := true } }
      else blockTrusted s hash
    else s

def blockInvalid (s : State) (hash : Bytes) : State × Out :=
  let k := keyOf hash
  match AL.get s.index k with
  | none => (s, .ok)
  | some r0 =>
    if r0.trusted then (s, .panic)     -- "Trusted block cannot be invalid" (db.mutex stays locked)
    else if r0.ipos.isNone then ({ s with cache := AL.del s.cache k, index := AL.del s.index k }, .ok)
    else (setBlockFlag s k r0 BLOCK_INVALID, .ok)

/-! ## reading -/

/-- decompression of the bytes read from the data file: (block, error) -/
def decodeStored (env : Env) (r0 : Rec) (raw : Bytes) : Bytes × Option GetErr :=
  if r0.compressed then
    if r0.snappied then
      match env.dec raw with
      | some d => (d, none)
      | none => ([], some .snappy)      -- "snappy.Decode() failed": bl = nil, and it is cached as such
    else ([], some .gzip)
  else (raw, none)

def blockGet (env : Env) (s : State) (hash : Bytes) : State × Out :=
  let k := keyOf hash
  match AL.get s.index k with
  | none => (s, .getErr .notInIndex false)
  | some r0 =>
    match AL.get s.cache k with
    | some c =>
      ({ s with cache := AL.set s.cache k { c with lastUsed := s.clock }, clock := s.clock + 1 }, .data c.data r0.trusted)
    | none =>
      if r0.ipos.isNone then (s, .getErr .notWritten r0.trusted)
      else if r0.blen = 0 then (s, .getErr .purged r0.trusted)
      else
        match (AL.get s.fs.dats r0.datfileidx).orElse (fun _ => AL.get s.fs.olds r0.datfileidx) with
        | none => (s, .getErr .noFile r0.trusted)
        | some file =>
          if r0.fpos + r0.blen > file.length then (s, .getErr .shortRead r0.trusted)
          else
            let (bl, err) := decodeStored env r0 ((file.drop r0.fpos).take r0.blen)
            let nrec := if r0.olen = 0 then { r0 with olen := bl.length } else r0
            let s := { s with index := AL.set s.index k nrec }
            let s := addToCache s k bl
            match err with
            | none => (s, .data bl r0.trusted)
            | some e => (s, .getErr e r0.trusted)

def blockLength (env : Env) (s : State) (hash : Bytes) (decodeIfNeeded : Bool) : State × Out :=
  let k := keyOf hash
  match AL.get s.index k with
  | none => (s, .lenErr)
  | some r0 =>
    if r0.olen ≠ 0 then (s, .len r0.olen)
    else if !r0.compressed || !decodeIfNeeded then (s, .len r0.blen)
    else
      match blockGet env s hash with
      | (s', .data _ _) => (s', .len ((AL.get s'.index k).getD r0).olen)
      | (s', _) => (s', .lenErr)

/-! ## LoadBlockIndex -/

structure LoadAcc where
  index : List (Key × Rec) := []
  maxidxfilepos : Nat := 0
  maxdatfilepos : Nat := 0
  maxdatfileidx : Nat := 0
  walk : List WalkRec := []   -- reversed

def hasFlag (flags fl : Nat) : Bool := (flags / fl) % 2 = 1

/-- the invalid-record branch of LoadBlockIndex, data-file part:
    `if (b[0]&BLOCK_INDEX) != 0 { if idx := Uint32(b[28:32]); idx != 0xffffffff && idx > db.maxdatfileidx { db.maxdatfileidx = idx; db.maxdatfilepos = 0 } }`
    — the data file of an invalid block still counts for the file to append to (repair of the file-number regression:
    LoadBlockIndex used to fall back to a LOWER file number when every block of the newer files was invalid; whether the
    source has the repair is the regenerated fact `Gen.BlockDBFacts.invalidCountsFile`) -/
def bumpInvalid (a : LoadAcc) (flags : Nat) (b : Bytes) : LoadAcc :=
  let d := if hasFlag flags BLOCK_INDEX then field b 28 32 else 0
  if Gen.BlockDBFacts.invalidCountsFile ∧ d ≠ 0xffffffff ∧ d > a.maxdatfileidx
  then { a with maxdatfileidx := d, maxdatfilepos := 0 } else a

/-- the body of the `for` loop for one full 136-byte record `b` -/
def loadRecord (env : Env) (a : LoadAcc) (b : Bytes) : LoadAcc :=
  let flags := (b.getD 0 0).toNat
  let bh := field b 36 40
  let hdr := (b.drop 56).take 80
  let blockHash := env.hash hdr
  if hasFlag flags BLOCK_INVALID then
    let a := bumpInvalid a flags b
    -- `continue`: the unfixed code does not advance maxidxfilepos here
    if env.advInvalid then { a with maxidxfilepos := a.maxidxfilepos + RECSIZE } else a
  else
    let blen0 := field b 48 52
    let hasLen := hasFlag flags BLOCK_LENGTH
    let blen := if hasLen then field b 32 36 else blen0      -- the local `blen` handed to walk
    let olen := if hasLen then field b 32 36 else 0
    let datfileidx := if hasFlag flags BLOCK_INDEX then field b 28 32 else 0
    let ob : Rec := { trusted := hasFlag flags BLOCK_TRUSTED, compressed := hasFlag flags BLOCK_COMPRSD,
                      snappied := hasFlag flags BLOCK_SNAPPED, fpos := field b 40 48, blen := blen0, olen := olen,
                      datfileidx := datfileidx, ipos := some a.maxidxfilepos }
    -- `if blen > 0 && ob.datfileidx != 0xffffffff && ob.datfileidx > db.maxdatfileidx { idx = …; pos = 0 }`
    let bump : Bool := blen > 0 ∧ datfileidx ≠ 0xffffffff ∧ datfileidx > a.maxdatfileidx
    let mdi := if bump then datfileidx else a.maxdatfileidx
    let mdp0 := if bump then 0 else a.maxdatfilepos
    -- `if int64(ob.fpos)+int64(ob.blen) > db.maxdatfilepos { … }`
    let mdp := if ob.fpos + ob.blen > mdp0 then ob.fpos + ob.blen else mdp0
    { index := AL.set a.index (keyOf blockHash) ob,
      maxidxfilepos := a.maxidxfilepos + RECSIZE, maxdatfilepos := mdp, maxdatfileidx := mdi,
      walk := ⟨blockHash, hdr, bh, blen, field b 52 56⟩ :: a.walk }

/-- the read loop: full records only (`io.ReadFull` fails on a short tail) -/
def loadLoop (env : Env) : Nat → Bytes → LoadAcc → LoadAcc
  | 0, _, a => a
  | f + 1, file, a =>
    if file.length < RECSIZE then a
    else loadLoop env f (file.drop RECSIZE) (loadRecord env a (file.take RECSIZE))

/-- `for limit := 0; limit < 3; limit++ { idx--; …; if idx == 0 { break } }` -/
def cleanupGo (o : Opts) : Nat → Nat → FS → FS
  | 0, _, fs => fs
  | f + 1, idx, fs =>
    let idx := idx - 1
    let fs := removeDatFile o fs idx
    if idx = 0 then fs else cleanupGo o f idx fs

/-- removal (or backup) of old data files at the end of LoadBlockIndex -/
def loadCleanup (o : Opts) (maxdatfileidx : Nat) (fs : FS) : FS :=
  if o.keep ≠ 0 ∧ maxdatfileidx > o.keep then
    let idx := maxdatfileidx - o.keep
    cleanupGo o 3 idx fs
  else fs

/-- the opening of the current data file `m` in LoadBlockIndex:
    `if Stat(main/m) fails { os.Rename(oldat/m, main/m) }; os.OpenFile(main/m, O_RDWR|O_CREATE)`.
    The rename is the repair of the former finding `backup-shadowed-by-new-file` (whether the source has it is the regenerated
    fact `Gen.BlockDBFacts.restoresBackup`); without it an empty file was created over the backup, which is what the ghost
    `lost` records in the last branch. -/
def createCur (fs : FS) (m : Nat) : FS :=
  match AL.get fs.dats m with
  | some _ => fs
  | none =>
    match (if Gen.BlockDBFacts.restoresBackup then AL.get fs.olds m else none) with
    | some content => { fs with dats := AL.set fs.dats m content, olds := AL.del fs.olds m }
    | none => { fs with dats := AL.set fs.dats m [],
                        lost := if (AL.get fs.olds m).isSome then m :: fs.lost else fs.lost }

/-- `NewBlockDBExt(dir, opts)` followed by `LoadBlockIndex` on the files left by earlier sessions -/
def reopen (env : Env) (fs : FS) (o : Opts) : State × Out :=
  let o := if o.maxCached = 0 then { o with maxCached := 100 } else o
  let a := loadLoop env (fs.idx.length / RECSIZE + 1) fs.idx {}
  let fs := createCur fs a.maxdatfileidx
  let fs := loadCleanup o a.maxdatfileidx fs
  ({ fs := fs, opts := o, index := a.index, maxidxfilepos := a.maxidxfilepos, maxdatfilepos := a.maxdatfilepos,
     maxdatfileidx := a.maxdatfileidx, isOpen := true }, .walk a.walk.reverse)

/-! ## the state machine -/

def init : State := {}

def step (env : Env) (s : State) (op : Op) : State × Out :=
  match op with
  | .reopen o => if s.isOpen then (s, .bad) else reopen env s.fs o
  | op =>
    if !s.isOpen then (s, .bad) else
    match op with
    | .add hash height txcount trusted raw =>
      if raw.length < 80 then (s, .bad) else (blockAdd env s hash height txcount trusted raw, .ok)
    | .get hash => blockGet env s hash
    | .length hash d => blockLength env s hash d
    | .trusted hash => (blockTrusted s hash, .ok)
    | .invalid hash => blockInvalid s hash
    | .idle => (flush env s, .ok)
    | .close => ({ flush env s with isOpen := false }, .ok)
    | .reopen _ => (s, .bad)

/-- run a history, collecting outputs -/
def run (env : Env) : State → List Op → State × List Out
  | s, [] => (s, [])
  | s, op :: ops =>
    let (s', o) := step env s op
    let (s'', os) := run env s' ops
    (s'', o :: os)

end GocoinV.BlockDB
