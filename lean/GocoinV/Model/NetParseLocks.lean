/-
  Model.NetParseLocks — a lock-set scan over the LOCK TRACES that go/cmd/gen_c18 regenerates from
  every function of the client/network files C18 anchors (Gen/NetFacts.lean `lockTraces`).

  A trace is the function body in source order reduced to: Lock / Unlock / deferred Unlock, block
  structure (if / else / for / switch+case / closure), the ways of leaving (return, break, continue,
  goto + label, panic) and every access to state shared between a connection's own thread and the
  threads that walk the connection list (inv bookkeeping, block downloads in progress, the peers database,
  the statistics map `counters` that the UI thread's GetStats ranges over), tagged with the lock that
  protects it.

  `scan` keeps the set of locks TAKEN IN THIS FUNCTION and reports
    * a return (or the end of the body) with such a lock still held and no deferred Unlock for it,
    * `break` / `continue` leaving a loop iteration with a different lock set than the loop was
      entered with (the shape `Lock; …; if full { continue }; …; Unlock`),
    * `goto` arriving at its label with a different lock set than the label is reached with otherwise,
    * a block that falls through to its end with a changed lock set (if without else, loop body),
    * Lock of a mutex the function already holds (self-deadlock), Unlock of one it does not hold,
    * an explicit `panic(...)` with such a lock held and no deferred Unlock for it (the unwinding runs the
      deferred Unlocks only; Run's recover swallows the panic and the mutex stays locked) - unless that very
      panic is listed in `panicUnreachable` with the theorem that proves it unreachable,
    * a call, made while a mutex is held (a deferred Unlock has not run yet), of a function of the traced
      files that locks that same mutex itself - through its receiver (`c.DoS()` with c.Mutex held) or a
      package-level mutex; one level deep (the callee's own trace, not what the callee calls in turn),
    * a shared access outside the span of its lock.
  The scan is path-insensitive and per function (beyond the one level above a callee's locks are not followed): functions that
  are called with a lock held by contract are listed in `callerHolds` with that lock.
  Core Lean only; evaluated by the kernel on the regenerated traces (Props.C18.lock_discipline_current).
-/
import GocoinV.Gen.NetFacts
namespace GocoinV.NetParse.Locks

abbrev Tok := Nat × String

structure Frame where
  kind : String
  entry : List String                        -- lock set when the block was entered
  ifRes : Option (Option (List String)) := none  -- else-block: lock set the if-branch fell through with (none: it left)

structure St where
  held : List String := []
  deferred : List String := []
  stack : List Frame := []
  gotos : List (String × List String) := []
  /-- an if-block was just closed: (lock set at its entry, lock set it fell through with / none if it left) -/
  pend : Option (List String × Option (List String)) := none
  lastLeaves : Bool := false     -- the previous token left the block (return / break / continue / goto / panic)
  bad : List String := []

def sameSet (a b : List String) : Bool := a.all (b.contains ·) && b.all (a.contains ·)

/-- equal lock sets, not counting locks with a deferred Unlock (those are released at the exit) -/
def St.same (s : St) (a b : List String) : Bool :=
  sameSet (a.filter (fun l => !s.deferred.contains l)) (b.filter (fun l => !s.deferred.contains l))

def St.complain (s : St) (m : String) : St := { s with bad := s.bad ++ [m] }

/-- lock set at entry of the nearest enclosing frame satisfying `p` (not looking out of a closure) -/
def entryOf (p : String → Bool) : List Frame → Option (List String)
  | [] => none
  | f :: fs => if p f.kind then some f.entry else if f.kind == "func" then none else entryOf p fs

def inFunc : List Frame → Bool
  | [] => false
  | f :: fs => f.kind == "func" || inFunc fs

def isLoop (k : String) : Bool := k == "for"
def isBreakable (k : String) : Bool := k == "for" || k == "switch"

/-- what must be free when control leaves the current function / closure -/
def exitCheck (s : St) (what : String) : St :=
  let left := s.held.filter (fun l => !s.deferred.contains l)
  if left.isEmpty then s
  else s.complain (what ++ (if inFunc s.stack then " (closure)" else "") ++ " with " ++ ", ".intercalate left ++ " held")

/-- an `if` without `else`: the branch must fall through with the lock set it was entered with -/
def resolve (s : St) : St :=
  match s.pend with
  | none => s
  | some (entry, r) =>
    let s1 := { s with pend := none, held := entry }
    match r with
    | none => s1
    | some h => if s.same h entry then s1 else s1.complain ("if block ends with a changed lock set: " ++ ", ".intercalate h ++ " held")

def step (s0 : St) (t : Tok) : St :=
  let s := if t.1 == 3 && t.2 == "else" then s0 else resolve s0
  let s' := { s with lastLeaves := false }
  match t.1 with
  | 0 => -- lock
    if s.held.contains t.2 then (s'.complain ("Lock of " ++ t.2 ++ " while it is held")) else { s' with held := t.2 :: s.held }
  | 1 => -- unlock
    if s.held.contains t.2 then { s' with held := s.held.erase t.2 } else s'.complain ("Unlock of " ++ t.2 ++ " which is not held")
  | 2 => { s' with deferred := t.2 :: s.deferred }
  | 3 => -- open
    if t.2 == "func" then { s' with stack := ⟨t.2, s.held, none⟩ :: s.stack, held := [] }
    else if t.2 == "else" then
      match s.pend with
      | some (entry, r) => { s' with pend := none, stack := ⟨t.2, entry, some r⟩ :: s.stack, held := entry }
      | none => s'.complain "else without if"
    else { s' with stack := ⟨t.2, s.held, none⟩ :: s.stack }
  | 4 => -- close
    match s.stack with
    | [] => s'.complain "unbalanced block"
    | f :: fs =>
      let here : Option (List String) := if s.lastLeaves then none else some s.held
      if f.kind == "func" then
        let s2 := if s.lastLeaves then s' else exitCheck s' "end of closure"
        { s2 with stack := fs, held := f.entry }
      else if f.kind == "if" then
        { s' with stack := fs, held := f.entry, pend := some (f.entry, here) }
      else if f.kind == "else" then
        match f.ifRes.getD none, here with
        | none, none => { s' with stack := fs, held := f.entry, lastLeaves := true }
        | some a, none => { s' with stack := fs, held := a }
        | none, some b => { s' with stack := fs, held := b }
        | some a, some b =>
          if s.same a b then { s' with stack := fs, held := a }
          else { (s'.complain "if and else end with different lock sets") with stack := fs, held := a }
      else if s.lastLeaves || s.same s.held f.entry then { s' with stack := fs, held := f.entry }
      else { (s'.complain (f.kind ++ " block ends with a changed lock set: " ++ ", ".intercalate s.held ++ " held")) with stack := fs, held := f.entry }
  | 5 => { (exitCheck s' "return") with lastLeaves := true }
  | 6 => -- break / continue
    let e := if t.2 == "continue" then entryOf isLoop s.stack else entryOf isBreakable s.stack
    match e with
    | none => { (s'.complain (t.2 ++ " outside a loop")) with lastLeaves := true }
    | some e =>
      if s.same s.held e then { s' with lastLeaves := true }
      else { (s'.complain (t.2 ++ " with a changed lock set: " ++ ", ".intercalate s.held ++ " held")) with lastLeaves := true }
  | 7 => { s' with gotos := (t.2, s.held) :: s.gotos, lastLeaves := true }
  | 8 => -- label
    let here := s.gotos.filter (·.1 == t.2)
    let rest := s.gotos.filter (·.1 != t.2)
    -- a label reached only by goto takes the lock set of the jumps
    let held := if s.lastLeaves then (match here with | g :: _ => g.2 | [] => s.held) else s.held
    let s2 := { s' with gotos := rest, held := held }
    if here.all (fun g => s.same g.2 held) then s2 else s2.complain ("goto " ++ t.2 ++ " arrives with a different lock set")
  | 9 => if s.held.contains t.2 then s' else s'.complain ("shared access without " ++ t.2)
  | 10 => -- case: every clause starts with the lock set of the switch
    match s.stack with
    | f :: _ =>
      if s.lastLeaves || s.same s.held f.entry then { s' with held := f.entry }
      else { (s'.complain "case falls out with a changed lock set") with held := f.entry }
    | [] => s'.complain "case outside switch"
  | 11 => -- explicit panic(...): the unwinding runs the deferred Unlocks; Run's recover swallows the panic, so
          -- a lock taken here without defer stays locked for ever
    { (exitCheck s' "panic") with lastLeaves := true }
  | 12 => -- call of a function (of the traced files) that locks t.2 itself: sync.Mutex is not re-entrant
    if s.held.contains t.2 then s'.complain ("call of a function that locks " ++ t.2 ++ " while it is held") else s'
  | _ => s'.complain "unknown token"

/-- functions that are called with a lock already held, by contract stated at the definition or
    visible at every call site: the scan starts with that lock and expects it back at the exit -/
def callerHolds : List (String × List String) := []

def scanFrom (init : List String) (ts : List Tok) : List String :=
  let s := resolve (ts.foldl step { held := init, deferred := init })
  let s := if s.lastLeaves then s else exitCheck s "end of function"
  let s := if s.stack.isEmpty then s else s.complain "unbalanced block at the end"
  if s.gotos.isEmpty then s.bad else s.bad ++ ["goto without label"]

def scan (fn : String) (ts : List Tok) : List String :=
  scanFrom ((callerHolds.lookup fn).getD []) ts

/-- explicit `panic(...)` statements standing between a Lock and its non-deferred Unlock that are PROVED
    unreachable: (function, lock, theorem of Props.C18 that proves it). Each entry removes ONE complaint
    "panic with <lock> held" of exactly that function - a second panic under the same lock, another lock
    or another function is still reported.
    * ProcessCmpctBlock (cblk.go `panic("Tx idx … is missing")` under txpool.TxMutex): every short id the
      second pass reads back was put into the map by the first loop.
    * FetchMessage (core.go `panic("ERROR: hdr_len > 24 …")` under c.Mutex): hdr_len grows by the count Read
      returned for the slice hdr[hdr_len:24], so it cannot pass 24 (assumption: the net.Conn.Read contract). -/
def panicUnreachable : List (String × String × String) :=
  [("OneConnection.ProcessCmpctBlock", "txpool.TxMutex", "GocoinV.Props.C18.cmpctblock_panic_unreachable"),
   ("OneConnection.FetchMessage", "c.Mutex", "GocoinV.Props.C18.fetch_hdrlen_panic_unreachable")]

/-- remove, for function `fn`, one complaint per matching entry of `panicUnreachable` -/
def dropProved (fn : String) (ms : List String) : List String :=
  panicUnreachable.foldl
    (fun ms w => if w.1 == fn then ms.erase ("panic with " ++ w.2.1 ++ " held") else ms) ms

/-- every complaint of the scan, nothing filtered, prefixed with the function -/
def complaintsRaw (trs : List (String × List Tok)) : List String :=
  trs.flatMap (fun p => (scan p.1 p.2).map (fun m => p.1 ++ ": " ++ m))

/-- all complaints over a list of traces except the proved-unreachable panics, prefixed with the function -/
def complaints (trs : List (String × List Tok)) : List String :=
  trs.flatMap (fun p => (dropProved p.1 (scan p.1 p.2)).map (fun m => p.1 ++ ": " ++ m))

/-- the shared access (`what` under `lock`, receiver spelled `c`) is made by `root` itself or by a function that
    `root` calls directly - whatever that (possibly unexported) function is called and whether it has been
    inlined into `root` or not -/
def accessVia (root what lock : String) : Bool :=
  Gen.NetFacts.sharedAccesses.contains (root, what, lock) ||
  Gen.NetFacts.callGraph.any (fun e => e.1 == root && Gen.NetFacts.sharedAccesses.contains (e.2, what, lock))

/-! ### the scan on the two shapes of ParseAddr's database-full path and of processGetData's InvStore -/

/-- `for { Lock; if full { goto unlock_db }; Put; unlock_db: Unlock }` — the current source -/
def shapeGoto : List Tok :=
  [(3, "for"), (0, "peersdb"), (3, "if"), (7, "unlock_db"), (4, "if"), (9, "peersdb"), (8, "unlock_db"), (1, "peersdb"), (4, "for")]
/-- the same with `continue` instead of the goto: the iteration is left with the lock held -/
def shapeContinue : List Tok :=
  [(3, "for"), (0, "peersdb"), (3, "if"), (6, "continue"), (4, "if"), (9, "peersdb"), (1, "peersdb"), (4, "for")]
/-- `Lock; InvStore; Unlock` and the same without the Lock / Unlock pair -/
def shapeStoreLocked : List Tok := [(3, "for"), (0, "c.Mutex"), (9, "c.Mutex"), (1, "c.Mutex"), (4, "for")]
def shapeStoreBare : List Tok := [(3, "for"), (9, "c.Mutex"), (4, "for")]
/-- `Lock; if err { return }; Unlock` (SendRawMsg before its fix) -/
def shapeReturnHeld : List Tok := [(0, "c.Mutex"), (3, "if"), (5, ""), (4, "if"), (1, "c.Mutex")]
/-- `Lock; if full { Unlock; c.DoS(); return }; Unlock` — SendRawMsg's overflow path in the current source
    (DoS locks c.Mutex itself) -/
def shapeCallUnlocked : List Tok :=
  [(0, "c.Mutex"), (3, "if"), (1, "c.Mutex"), (12, "c.Mutex"), (5, ""), (4, "if"), (1, "c.Mutex")]
/-- `Lock; defer Unlock; if full { c.DoS(); return }` — the same path after a "tidy-up" to a deferred
    Unlock: every exit is fine, but DoS waits for the mutex its caller holds -/
def shapeCallDeferred : List Tok :=
  [(0, "c.Mutex"), (2, "c.Mutex"), (3, "if"), (12, "c.Mutex"), (5, ""), (4, "if")]

/-! ### the statistics map `counters` (GetStats ranges over it under c.Mutex; a count outside the mutex is a
    fatal "concurrent map iteration and map write" of the Go runtime). A call of a counter helper
    (`Gen.NetFacts.counterHelpers`: cntInc / cntAdd, which write the map with no lock of their own) and every
    mention of the field is a token 9 needing the connection's mutex. -/

/-- ProcessBlockTxn's trace as gen_c18 produced it from the source BEFORE /repo fix 6fde6594 (regenerated from
    that commit's parent, verbatim): `Lock; if bip == nil { Unlock; cntInc; Misbehave; return }` twice -/
def oldProcessBlockTxn : List Tok :=
  [(3, "if"), (12, "c.Mutex"), (5, ""), (4, "if"), (3, "if"), (12, "c.Mutex"), (5, ""), (4, "if"), (0, "MutexRcv"), (2, "MutexRcv"), (0, "c.Mutex"), (3, "if"), (1, "c.Mutex"), (9, "c.Mutex"), (12, "c.Mutex"), (5, ""), (4, "if"), (3, "if"), (1, "c.Mutex"), (9, "c.Mutex"), (12, "c.Mutex"), (5, ""), (4, "if"), (9, "c.Mutex"), (1, "c.Mutex"), (3, "if"), (5, ""), (4, "if"), (3, "if"), (5, ""), (4, "if"), (3, "if"), (4, "if"), (3, "for"), (3, "if"), (12, "c.Mutex"), (5, ""), (4, "if"), (3, "if"), (4, "if"), (3, "else"), (5, ""), (4, "else"), (4, "for"), (3, "for"), (3, "if"), (12, "c.Mutex"), (5, ""), (4, "if"), (4, "for"), (3, "if"), (3, "if"), (3, "if"), (4, "if"), (4, "if"), (3, "else"), (4, "else"), (5, ""), (4, "if"), (0, "c.Mutex"), (9, "c.Mutex"), (1, "c.Mutex"), (3, "if"), (4, "if")]
/-- SendGetMP's trace before that fix: `TxMutex.Lock; if full { TxMutex.Unlock; cntInc; return }` - no c.Mutex at all -/
def oldSendGetMP : List Tok :=
  [(3, "if"), (5, ""), (4, "if"), (0, "txpool.TxMutex"), (3, "if"), (1, "txpool.TxMutex"), (9, "c.Mutex"), (5, ""), (4, "if"), (3, "if"), (4, "if"), (3, "for"), (3, "if"), (6, "break"), (4, "if"), (4, "for"), (3, "for"), (3, "if"), (6, "break"), (4, "if"), (4, "for"), (1, "txpool.TxMutex"), (12, "c.Mutex"), (5, "")]
/-- `Lock; if bip == nil { cntInc; Unlock; Misbehave; return }; …; Unlock` — the repaired shape (count, then Unlock) -/
def shapeCountThenUnlock : List Tok :=
  [(0, "c.Mutex"), (3, "if"), (9, "c.Mutex"), (1, "c.Mutex"), (12, "c.Mutex"), (5, ""), (4, "if"), (1, "c.Mutex")]
/-- `TxMutex.Lock; if full { TxMutex.Unlock; cntLockInc; return }` — the repaired SendGetMP: the locking variant is a
    call of a function that takes c.Mutex itself (token 12), fine while c.Mutex is not held -/
def shapeCountLocking : List Tok :=
  [(0, "txpool.TxMutex"), (3, "if"), (1, "txpool.TxMutex"), (12, "c.Mutex"), (5, ""), (4, "if"), (1, "txpool.TxMutex")]
/-- the locking variant called with c.Mutex held: self-deadlock -/
def shapeCountLockingHeld : List Tok := [(0, "c.Mutex"), (12, "c.Mutex"), (1, "c.Mutex")]

/-- `Lock; if missing { panic(…) }; Unlock` — ProcessCmpctBlock's second pass: the lock stays held -/
def shapePanicHeld : List Tok := [(0, "TxMutex"), (3, "if"), (11, ""), (4, "if"), (1, "TxMutex")]
/-- `Lock; defer Unlock; if missing { panic(…) }` — the unwinding releases the lock -/
def shapePanicDeferred : List Tok := [(0, "TxMutex"), (2, "TxMutex"), (3, "if"), (11, ""), (4, "if")]

end GocoinV.NetParse.Locks
