/-
  Model.BlockCheck — lib/chain/block_check.go (PreCheckBlock, GetBlockFlags, PostCheckBlock, CheckBlock),
  lib/chain/chain_accept.go CheckTransactions, lib/btc/tx.go (IsCoinBase, CheckTransaction, IsFinal),
  lib/btc/funcs.go (CalcMerkle, GetWitnessMerkle), lib/btc/block.go (GetMerkle, weight formula of
  BuildTxListExt incl. WHEN it reads the object's transaction counter: `builtWeight`), lib/script/misc.go UintToScript.
  The order of the checks and the (dos, maybelater) outputs are mirrored statement by statement.
  Not modelled here: the byte-level transaction parser `NewTx` (property C09) — a parsed transaction is
  an input (`Tx`). The two `BlockIndex` look-ups of PreCheckBlock are by the 8-byte key `bidx` of a hash; what
  `preCheckBlock` receives is the entry found (with its WHOLE hash) and it makes the whole-hash comparisons itself
  (whether the source makes them is regenerated: `knownHashCompared`, `parentHashCompared`).
  Hash function = parameter `h` (the oracle instantiates it with SHA-256d). Go panics = `none`. Core-only.
-/
import GocoinV.Base.Bytes
import GocoinV.Model.Retarget
namespace GocoinV.BlockCheck
open GocoinV GocoinV.Target GocoinV.Retarget GocoinV.Gen.ConsensusConsts

/-- `Chain.Consensus` activation heights -/
structure Consensus where
  bip34Height : Nat
  bip65Height : Nat
  bip66Height : Nat
  enforceCSV : Nat
  enforceSegwit : Nat
  enforceTaproot : Nat
  deriving Repr

/-! ### PreCheckBlock -/

inductive PreErr
  | ok | badLength | badVersion | highHash | timeTooNew | keyCollision | genesis | duplicate | noParent | tooDeep
  | badDiffBits | timeTooOld | badVersionGate
  deriving Repr, DecidableEq

def PreErr.code : PreErr → String
  | .ok => "ok" | .badLength => "bad-blk-length" | .badVersion => "bad-version" | .highHash => "high-hash"
  | .timeTooNew => "time-too-new" | .keyCollision => "index-collision" | .genesis => "genesis" | .duplicate => "duplicate" | .noParent => "bad-prevblk"
  | .tooDeep => "too-deep" | .badDiffBits => "bad-diffbits" | .timeTooOld => "time-too-old"
  | .badVersionGate => "bad-version-gate"

/-- `Uint256.BIdx()`: the first 8 bytes of a hash = the low 64 bits of its little-endian number. The key of
    `Chain.BlockIndex`. -/
def bidx (h : Nat) : Nat := h % 2^64

structure PreIn where
  rawLen : Nat
  ver : Nat                     -- bl.Version(), uint32
  hash : Nat                    -- bl.Hash as a little-endian number (= bl.Hash.BigInt())
  parentHash : Nat              -- bl.ParentHash(): the header's previous-block FIELD, as a little-endian number
  bits : Nat                    -- bl.Bits()
  time : Nat                    -- bl.BlockTime()
  now : Int                     -- time.Now().Unix()
  known : Option (Nat × Bool)   -- ch.BlockIndex[bl.Hash.BIdx()]: (entry.BlockHash, entry.Parent == nil)
  parent : Option (Nat × List Node)   -- ch.BlockIndex[BIdx(bl.ParentHash())]: (prevblk.BlockHash, prevblk and its ancestors)
  parentIsLast : Bool           -- prevblk == ch.LastBlock()
  lastHeight : Nat              -- ch.LastBlock().Height

structure PreOut where
  dos : Bool
  maybelater : Bool
  err : PreErr
  height : Nat := 0             -- bl.Height as left by the call (0 = not assigned)
  mtp : Nat := 0                -- bl.MedianPastTime as left by the call
  deriving Repr, DecidableEq

/-- `int32(bl.Version())`: two's complement reading of the uint32 header field -/
def signedVersion (ver : Nat) : Int :=
  let v : Nat := ver % 2^32
  if v < 2^31 then (v : Int) else (v : Int) - 2^32

/-- `ver < 2 && h >= BIP34Height || ver < 3 && h >= BIP66Height || ver < 4 && h >= BIP65Height`
    (`ver` int32, heights uint32) -/
def versionRejected (c : Consensus) (ver height : Nat) : Bool :=
  (decide (signedVersion ver < minVersion_BIP34Height) && decide (height ≥ c.bip34Height)) ||
  (decide (signedVersion ver < minVersion_BIP66Height) && decide (height ≥ c.bip66Height)) ||
  (decide (signedVersion ver < minVersion_BIP65Height) && decide (height ≥ c.bip65Height))

/-- the parent as PreCheckBlock obtains it: the `BlockIndex` entry under the 8-byte key of the previous-block
    field, kept only if its WHOLE hash is that field (`!ok || !bytes.Equal(prevblk.BlockHash.Hash[:], bl.ParentHash())`) -/
def parentOf (i : PreIn) : Option (List Node) :=
  match i.parent with
  | none => none
  | some (ph, ch) => if parentHashCompared && ph != i.parentHash then none else some ch

def preCheckBlock (p : Params) (c : Consensus) (i : PreIn) : Option PreOut :=
  if i.rawLen < preMinRawLen then some { dos := true, maybelater := false, err := .badLength }
  else if signedVersion i.ver = forbiddenVersion then some { dos := true, maybelater := false, err := .badVersion }
  else if !checkProofOfWork i.hash i.bits then some { dos := true, maybelater := false, err := .highHash }
  else if (i.time : Int) > i.now + maxFutureBlockTime then
    some { dos := decide ((i.time : Int) > i.now + futureDosLimit), maybelater := false, err := .timeTooNew }
  else match i.known with
  | some (kh, isGenesis) =>
    if knownHashCompared && kh != i.hash then some { dos := false, maybelater := false, err := .keyCollision }
    else if isGenesis then some { dos := false, maybelater := false, err := .genesis }
    else some { dos := false, maybelater := false, err := .duplicate }
  | none =>
    match parentOf i with
    | none => some { dos := false, maybelater := true, err := .noParent }
    | some [] => none
    | some (prev :: anc) =>
      let height : Nat := (prev.height + 1) % 2^32
      if !i.parentIsLast && decide ((i.lastHeight : Int) - (height : Int) ≥ (forkDepthLimit : Int)) then
        some { dos := false, maybelater := false, err := .tooDeep, height := height }
      else match getNextWorkRequired p (prev :: anc) i.time with
      | none => none
      | some gnwr =>
        if i.bits ≠ gnwr then some { dos := true, maybelater := false, err := .badDiffBits, height := height }
        else match getMedianTimePast (prev :: anc) with
        | none => none
        | some mtp =>
          if i.time ≤ mtp then some { dos := true, maybelater := false, err := .timeTooOld, height := height, mtp := mtp }
          else if versionRejected c i.ver height then
            some { dos := true, maybelater := false, err := .badVersionGate, height := height, mtp := mtp }
          else some { dos := false, maybelater := false, err := .ok, height := height, mtp := mtp }

/-! ### GetBlockFlags -/

def getBlockFlags (c : Consensus) (height time : Nat) : Nat :=
  let f := if time = 0 ∨ time ≥ BIP16SwitchTime then VER_P2SH else 0
  let f := if height ≥ c.bip66Height then f ||| VER_DERSIG else f
  let f := if height ≥ c.bip65Height then f ||| VER_CLTV else f
  let f := if c.enforceCSV ≠ 0 ∧ height ≥ c.enforceCSV then f ||| VER_CSV else f
  let f := if c.enforceSegwit ≠ 0 ∧ height ≥ c.enforceSegwit then f ||| (VER_WITNESS ||| VER_NULLDUMMY) else f
  if c.enforceTaproot ≠ 0 ∧ height ≥ c.enforceTaproot then f ||| VER_TAPROOT else f

/-! ### transactions (parsed form) -/

structure TxIn where
  null : Bool        -- Input.IsNull(): hash all zero and vout = 0xffffffff
  seq : Nat
  scriptLen : Nat    -- len(ScriptSig)
  deriving Repr, DecidableEq

structure Tx where
  ins : List TxIn
  in0Script : Bytes                      -- TxIn[0].ScriptSig (read for Txs[0] only)
  outs : List Bytes                      -- Pk_script of every output (contents read for Txs[0] only)
  outValues : List Nat                   -- Value of every output (uint64)
  segwit : Option (List (List Bytes))    -- Tx.SegWit; none = nil
  txid : Bytes                           -- Hash.Hash
  wtxid : Bytes                          -- WTxID().Hash
  lockTime : Nat
  noWitSize : Nat
  size : Nat
  deriving Repr

def Tx.isCoinBase (t : Tx) : Bool :=
  match t.ins with
  | [i] => i.null
  | _ => false

inductive TxErr
  | vinEmpty | voutEmpty | oversize | voutTooLarge | totalTooLarge | cbLength | prevoutNull | nonFinal
  deriving Repr, DecidableEq

def TxErr.code : TxErr → String
  | .vinEmpty => "bad-txns-vin-empty" | .voutEmpty => "bad-txns-vout-empty" | .oversize => "bad-txns-oversize"
  | .voutTooLarge => "bad-txns-vout-toolarge" | .totalTooLarge => "bad-txns-txouttotal-toolarge"
  | .cbLength => "bad-cb-length" | .prevoutNull => "bad-txns-prevout-null" | .nonFinal => "bad-txns-nonfinal"

/-- the output-value loop of `CheckTransaction`: each value and the running (uint64) total against MAX_MONEY -/
def checkOutValues : List Nat → Nat → Option TxErr
  | [], _ => none
  | v :: rest, total =>
    if v > MAX_MONEY then some .voutTooLarge
    else
      let total := (total + v) % 2^64
      if total > MAX_MONEY then some .totalTooLarge else checkOutValues rest total

/-- `Tx.CheckTransaction` (`tx.NoWitSize*4` is a uint32 product) -/
def checkTransaction (t : Tx) : Option TxErr :=
  if t.ins.length = 0 then some .vinEmpty
  else if t.outs.length = 0 then some .voutEmpty
  else if (t.noWitSize * 4) % 2^32 > txMaxWeight then some .oversize
  else if let some e := checkOutValues t.outValues 0 then some e
  else if t.isCoinBase then
    match t.ins with
    | i :: _ => if i.scriptLen < cbScriptMin ∨ i.scriptLen > cbScriptMax then some .cbLength else none
    | [] => none
  else if t.ins.any (·.null) then some .prevoutNull
  else none

/-- `Tx.IsFinal(blockheight, timestamp)` -/
def isFinal (lockTime : Nat) (seqs : List Nat) (height time : Nat) : Bool :=
  if lockTime = 0 then true
  else if (if lockTime < LOCKTIME_THRESHOLD then decide (lockTime < height) else decide (lockTime < time)) then true
  else seqs.all (· = 0xffffffff)

/-- what one goroutine of `CheckTransactions` reports for one transaction -/
def checkOneTx (t : Tx) (height time : Nat) : Option TxErr :=
  match checkTransaction t with
  | some e => some e
  | none => if isFinal t.lockTime (t.ins.map (·.seq)) height time then none else some .nonFinal

/-- `CheckTransactions`: the goroutines race; the reported error is one of these (empty = nil). -/
def checkTransactions (txs : List Tx) (height time : Nat) : List TxErr :=
  txs.filterMap (checkOneTx · height time)

/-! ### UintToScript -/

/-- the loop `for exp_len = 5; exp_len > 1; exp_len-- { if exp[exp_len] != 0 || exp[exp_len-1] >= 0x80 { break } }`
    started at `k`; `e i` = `exp[i]`. -/
def expLen (e : Nat → Nat) : Nat → Nat
  | 0 => 0
  | 1 => 1
  | k+2 => if e (k+2) ≠ 0 ∨ e (k+1) ≥ 0x80 then k+2 else expLen e (k+1)

/-- `exp[i]` after `PutUint32(exp[1:5], n)` in a zeroed `[6]byte` -/
def expByte (n i : Nat) : Nat :=
  if 1 ≤ i ∧ i ≤ 4 then (n / 256^(i-1)) % 256 else 0

/-- `script.UintToScript(n uint32)` -/
def uintToScript (n : Nat) : Bytes :=
  if 1 ≤ n ∧ n ≤ 16 then [UInt8.ofNat (n + OP_1 - 1)]
  else if n = 0 then [UInt8.ofNat OP_0]
  else
    let l := expLen (expByte n) 5
    UInt8.ofNat l :: (List.range l).map (fun i => UInt8.ofNat (expByte n (i+1)))

/-! ### CalcMerkle -/

/-- one pass of the inner loop: pairs (i, min(i+1, siz-1)) for i = 0,2,4…; `mutated` is raised when the
    two *distinct* positions of a pair hold equal values. -/
def merkleLevel (h : Bytes → Bytes) : List Bytes → List Bytes × Bool
  | [] => ([], false)
  | [a] => ([h (a ++ a)], false)
  | a :: b :: rest =>
    let r := merkleLevel h rest
    (h (a ++ b) :: r.1, (a == b) || r.2)

def calcMerkleLoop (h : Bytes → Bytes) : Nat → List Bytes → Bool → List Bytes × Bool
  | 0, l, m => (l, m)
  | fuel+1, l, m =>
    if l.length > 1 then
      let r := merkleLevel h l
      calcMerkleLoop h fuel r.1 (m || r.2)
    else (l, m)

/-- `btc.CalcMerkle(mtr)`: (root, mutated); an empty slice makes `mtr[len(mtr)-1]` panic. -/
def calcMerkle (h : Bytes → Bytes) (l : List Bytes) : Option (Bytes × Bool) :=
  match calcMerkleLoop h l.length l false with
  | (r :: _, m) => some (r, m)
  | ([], _) => none

def zero32 : Bytes := List.replicate 32 0

/-- `btc.GetWitnessMerkle(txs)`: leaf 0 is 32 zero bytes, leaf i is `txs[i].WTxID()`; the flag is dropped by the caller -/
def witnessMerkle (h : Bytes → Bytes) (txs : List Tx) : Option Bytes :=
  match txs with
  | [] => none
  | _ :: rest => (calcMerkle h (zero32 :: rest.map (·.wtxid))).map (·.1)

/-! ### weight (BuildTxListExt) -/

/-- `4*(80+VLenSize(TxCount)) + Σ (3*NoWitSize + Size)`  (uint64 / uint sums; no wrap below 2^64) -/
def blockWeight (txs : List Tx) : Nat :=
  4 * (80 + CompactSize.vlenSize txs.length) + (txs.map (fun t => 3 * t.noWitSize + t.size)).sum

/-- `bl.BlockWeight` as BuildTxListExt leaves it for an object whose `bl.TxCount` was `cntOnEntry` when the function
    was entered and whose parse yielded `txs`. The object keeps (TxCount, TxOffset): set by NewBlock / UpdateContent
    from a whole serialisation, still 0 for an object made from the 80-byte header whose body was attached by
    `bl.Raw = …` (the client's block download path) or reset by hand after a corrupt copy. The function starts with
    the fallback `if bl.TxCount == 0 { bl.TxCount, bl.TxOffset = vlenWire(bl.Raw[80:]) … }`; after it `bl.TxCount`
    is the number of transactions parsed on every entry path (it sizes `bl.Txs` and bounds the loop). WHERE the base
    weight `4*(80+VLenSize(TxCount))` reads the counter relative to that statement is regenerated from the source
    (`buildTxListReadsCountAfterFallback`): read before it, the counter is the value on entry. -/
def builtWeight (cntOnEntry : Nat) (txs : List Tx) : Nat :=
  4 * (80 + CompactSize.vlenSize (if buildTxListReadsCountAfterFallback then txs.length else cntOnEntry))
    + (txs.map (fun t => 3 * t.noWitSize + t.size)).sum

/-! ### PostCheckBlock -/

inductive PostErr
  | ok | badLength | buildFailed | badWeight | cbMissing | cbHeight | cbMultiple | duplicateTx | badMerkle
  | nonceSize | witnessMerkle | unexpectedWitness | tx (es : List TxErr)
  deriving Repr, DecidableEq

def PostErr.code : PostErr → String
  | .ok => "ok" | .badLength => "bad-blk-length" | .buildFailed => "build-failed" | .badWeight => "bad-blk-weight"
  | .cbMissing => "bad-cb-missing" | .cbHeight => "bad-cb-height" | .cbMultiple => "bad-cb-multiple"
  | .duplicateTx => "bad-txns-duplicate" | .badMerkle => "bad-txnmrklroot" | .nonceSize => "bad-witness-nonce-size"
  | .witnessMerkle => "bad-witness-merkle-match" | .unexpectedWitness => "unexpected-witness"
  | .tx es => "tx:" ++ String.intercalate "|" (es.map (·.code))

structure PostIn where
  rawLen : Nat
  preParsed : Bool          -- bl.Txs != nil on entry (BuildTxList and the weight limit are skipped)
  buildOk : Bool            -- BuildTxList succeeded (only read when ¬preParsed)
  trusted : Bool            -- bl.Trusted
  height : Nat              -- bl.Height
  mtp : Nat                 -- bl.MedianPastTime
  time : Nat                -- bl.BlockTime()
  merkleRoot : Bytes        -- bl.MerkleRoot()
  txs : List Tx             -- bl.Txs (after BuildTxList when it ran)
  cntOnEntry : Nat := 0     -- bl.TxCount on entry (0: header-first object / hand reset; else set by UpdateContent)

/-- the commitment search of PostCheckBlock: outputs of the coinbase from the last one down -/
def findCommitment (outsRev : List Bytes) : Option Bytes :=
  outsRev.find? (fun pk => decide (pk.length ≥ witnessCommitMinLen) && (pk.take witnessHeader.length == witnessHeader))

def nonceShapeOk (sw : Option (List (List Bytes))) : Option Bytes :=
  match sw with
  | some [[n]] => if n.length = witnessNonceLen then some n else none
  | _ => none

/-- the `!bl.Trusted` tail of PostCheckBlock after the Merkle-root test -/
def postWitnessAndTxs (h : Bytes → Bytes) (flags : Nat) (i : PostIn) : Option PostErr :=
  let cutoff := if flags &&& VER_CSV ≠ 0 then i.mtp else i.time
  match i.txs with
  | [] => none            -- bl.Txs[0] would panic (unreachable: guarded by bad-cb-missing)
  | cb :: _ =>
    let commit := if flags &&& VER_WITNESS ≠ 0 then findCommitment cb.outs.reverse else none
    let wres : Option (Option PostErr) :=      -- none = panic; some none = passed
      match commit with
      | some pk =>
        match nonceShapeOk cb.segwit with
        | none => some (some .nonceSize)
        | some nonce =>
          match witnessMerkle h i.txs with
          | none => none
          | some root =>
            if h (root ++ nonce) == (pk.drop witnessHeader.length).take 32 then some none
            else some (some .witnessMerkle)
      | none =>
        if i.txs.any (·.segwit.isSome) then some (some .unexpectedWitness) else some none
    match wres with
    | none => none
    | some (some e) => some e
    | some none =>
      match checkTransactions i.txs i.height cutoff with
      | [] => some .ok
      | es => some (.tx es)

/-- `Chain.PostCheckBlock(bl)`: (error, bl.VerifyFlags as left by the call; 0 = not assigned) -/
def postCheckBlock (h : Bytes → Bytes) (c : Consensus) (i : PostIn) : Option (PostErr × Nat) :=
  if i.rawLen < postMinRawLen then some (.badLength, 0)
  else if !i.preParsed && !i.buildOk then some (.buildFailed, 0)
  else if !i.preParsed && decide (builtWeight i.cntOnEntry i.txs > postMaxWeight) then some (.badWeight, 0)
  else
    let cbErr : Option PostErr :=
      if i.trusted then none
      else match i.txs with
        | [] => some .cbMissing
        | cb :: rest =>
          if !cb.isCoinBase then some .cbMissing
          else if decide (i.height ≥ c.bip34Height) && !((uintToScript i.height).isPrefixOf cb.in0Script) then some .cbHeight
          else if rest.any (·.isCoinBase) then some .cbMultiple
          else none
    match cbErr with
    | some e => some (e, 0)
    | none =>
      match calcMerkle h (i.txs.map (·.txid)) with
      | none => none
      | some (root, mutated) =>
        if mutated then some (.duplicateTx, 0)
        else if root != i.merkleRoot then some (.badMerkle, 0)
        else
          let flags := getBlockFlags c i.height i.time
          if i.trusted then some (.ok, flags)
          else (postWitnessAndTxs h flags i).map (·, flags)

/-- `Chain.CheckBlock`: PreCheckBlock, then PostCheckBlock with `dos = true` for every post error -/
def checkBlockDos (pre : PreOut) (post : Option PostErr) : Bool :=
  if pre.err = .ok then (match post with | some .ok => false | some _ => true | none => false) else pre.dos

/-! ### CheckBlock with its effects made explicit

  `Chain.CheckBlock(bl)` reads the chain (`ch.BlockIndex[...]`, `ch.LastBlock()`, the parent's ancestors) and
  writes only into the block object it is given: `bl.Height`, `bl.MedianPastTime` (PreCheckBlock), `bl.Txs` (+ the
  sizes/weight BuildTxList derives from `bl.Raw`) and `bl.VerifyFlags` (PostCheckBlock). `checkBlockM` threads the
  chain state through every path and returns it, so that "nothing changes" is a statement about this definition.
  The two map look-ups that `preCheckBlock` takes as inputs are made here, from the state: by the 8-byte key
  `bidx` of the block's hash / of the header's previous-block field; the entry found is handed over together with
  its whole hash. -/

/-- what `CheckBlock` can reach of `chain.Chain`: the block tree, the `BlockIndex` map, the tip and the unspent
    set (`U` is opaque: no statement of CheckBlock mentions `ch.Unspent`) -/
structure ChainSt (U : Type) where
  nodes : Array (Node × Int)     -- BlockTreeNode (height, timestamp, bits) and the number of its Parent (-1 = nil)
  hashes : Array Nat             -- BlockTreeNode.BlockHash of node k, as a little-endian number (whole 32 bytes)
  index : List (Nat × Nat)       -- BlockIndex: BIdx (first 8 bytes of the hash, little endian) ↦ node number
  last : Nat                     -- node number of ch.LastBlock()
  unspent : U

def chainOf (nodes : Array (Node × Int)) : Nat → Int → List Node
  | 0, _ => []
  | fuel+1, idx =>
    if idx < 0 then [] else
    match nodes[idx.toNat]? with
    | none => []
    | some (n, p) => n :: chainOf nodes fuel p

/-- a node followed by its ancestors (the `Parent` pointers) -/
def ChainSt.chain {U : Type} (cs : ChainSt U) (idx : Nat) : List Node := chainOf cs.nodes (cs.nodes.size + 1) idx

def lookupKey (l : List (Nat × Nat)) (k : Nat) : Option Nat := (l.find? (·.1 == k)).map (·.2)

/-- `BlockHash` of node `n` (whole hash) -/
def ChainSt.hashOf {U : Type} (cs : ChainSt U) (n : Nat) : Nat := cs.hashes[n]?.getD 0

/-- the `*btc.Block` object -/
structure BlockObj where
  -- fixed by `Raw` / set by the caller before CheckBlock
  rawLen : Nat
  ver : Nat
  hash : Nat                      -- bl.Hash as a little-endian number (PoW test; its `bidx` is bl.Hash.BIdx())
  parentHash : Nat                -- bl.ParentHash(), the previous-block field of the header, as a little-endian number
  bits : Nat
  time : Nat
  merkleRoot : Bytes
  trusted : Bool
  build : Option (List Tx)        -- what BuildTxList() leaves in bl.Txs for this Raw: all of them, or those before the
                                  -- failing one; none = it returns before assigning (corrupt count field)
  buildOk : Bool                  -- BuildTxList() returned nil
  rawCount : Nat := 0             -- the count field of Raw as vlenWire reads it (0: corrupt / absent)
  rawOffset : Nat := 0            -- the width of that count field (vlenWire's second result; 0: corrupt / absent)
  -- assigned by CheckBlock
  height : Nat
  mtp : Nat
  txs : Option (List Tx)          -- none = nil
  verifyFlags : Nat
  txCount : Nat := 0              -- bl.TxCount: rawCount for NewBlock(whole serialisation); 0 for a header-first object
                                  -- (body attached by `bl.Raw = …`); BuildTxList's fallback assigns it when it is 0
  -- the rest of the object state BuildTxListExt writes (audit 2: they were outside the record)
  txOffset : Nat := 0             -- bl.TxOffset: assigned together with TxCount by the fallback (+80 when the count is sound)
  weight : Nat := 0               -- bl.BlockWeight: assigned whenever BuildTxList got as far as `bl.Txs = make(…)`
  totalInputs : Nat := 0          -- bl.TotalInputs: BuildTxList ADDS len(tx.TxIn) of every transaction it parsed (never reset)

/-- PreCheckBlock returned after `bl.Height = prevblk.Height + 1` -/
def PreErr.setsHeight : PreErr → Bool
  | .tooDeep | .badDiffBits | .timeTooOld | .badVersionGate | .ok => true
  | _ => false

/-- PreCheckBlock returned after `bl.MedianPastTime = prevblk.GetMedianTimePast()` -/
def PreErr.setsMtp : PreErr → Bool
  | .timeTooOld | .badVersionGate | .ok => true
  | _ => false

/-- PostCheckBlock returned after `ch.ApplyBlockFlags(bl)` -/
def PostErr.setsFlags : PostErr → Bool
  | .ok | .nonceSize | .witnessMerkle | .unexpectedWitness | .tx _ => true
  | _ => false

/-- the inputs of `preCheckBlock` as PreCheckBlock obtains them from the chain state -/
def preInOf {U : Type} (cs : ChainSt U) (bl : BlockObj) (now : Int) : PreIn :=
  let parentIdx := lookupKey cs.index (bidx bl.parentHash)
  { rawLen := bl.rawLen, ver := bl.ver, hash := bl.hash, parentHash := bl.parentHash, bits := bl.bits, time := bl.time, now := now,
    known := (lookupKey cs.index (bidx bl.hash)).map
      (fun n => (cs.hashOf n, match cs.nodes[n]? with | some (_, p) => decide (p < 0) | none => false)),
    parent := parentIdx.map (fun n => (cs.hashOf n, cs.chain n)),
    parentIsLast := parentIdx == some cs.last,
    lastHeight := match cs.nodes[cs.last]? with | some (n, _) => n.height | none => 0 }

/-- the block object as PreCheckBlock leaves it -/
def afterPre (bl : BlockObj) (o : PreOut) : BlockObj :=
  { bl with height := if o.err.setsHeight then o.height else bl.height,
            mtp := if o.err.setsMtp then o.mtp else bl.mtp }

/-- the inputs of `postCheckBlock` for a block object that passed PreCheckBlock -/
def postInOf (bl : BlockObj) : PostIn :=
  { rawLen := bl.rawLen, preParsed := bl.txs.isSome, buildOk := bl.buildOk, trusted := bl.trusted, height := bl.height,
    mtp := bl.mtp, time := bl.time, merkleRoot := bl.merkleRoot, txs := bl.txs.getD (bl.build.getD []),
    cntOnEntry := bl.txCount }

/-- PostCheckBlock called BuildTxList: `bl.Txs == nil` on entry and the length test passed -/
def BlockObj.buildRan (bl : BlockObj) : Bool := bl.txs.isNone && decide (bl.rawLen ≥ postMinRawLen)

/-- `bl.BlockWeight` as BuildTxListExt leaves it once `bl.Txs` was allocated and `txs` were parsed: for a complete
    parse the weight PostCheckBlock holds against the limit (`builtWeight`); for a parse that stopped at a bad
    transaction the base weight of the COUNT FIELD (the loop did not reach it) plus the transactions parsed so far -/
def BlockObj.weightBuilt (bl : BlockObj) (txs : List Tx) : Nat :=
  if bl.buildOk then builtWeight bl.txCount txs
  else 4 * (80 + CompactSize.vlenSize (if buildTxListReadsCountAfterFallback then (if bl.txCount == 0 then bl.rawCount else bl.txCount) else bl.txCount))
        + (txs.map (fun t => 3 * t.noWitSize + t.size)).sum

/-- the block object as PostCheckBlock leaves it: `bl.Txs` is assigned by BuildTxList when it was nil and the size
    test passed (and then `bl.TxCount`, when it was 0, by BuildTxList's fallback: the count field of Raw);
    `bl.VerifyFlags` when ApplyBlockFlags was reached -/
def afterPost (bl : BlockObj) (e : PostErr) (flags : Nat) : BlockObj :=
  { bl with txs := if bl.txs.isNone && decide (bl.rawLen ≥ postMinRawLen) then bl.build else bl.txs,
            verifyFlags := if e.setsFlags then flags else bl.verifyFlags,
            txCount := if bl.txs.isNone && decide (bl.rawLen ≥ postMinRawLen) && bl.txCount == 0 then bl.rawCount else bl.txCount,
            txOffset := if bl.buildRan && bl.txCount == 0 then
                          (if bl.rawCount == 0 || bl.rawOffset == 0 then bl.rawOffset else bl.rawOffset + 80)
                        else bl.txOffset,
            weight := if bl.buildRan then (match bl.build with | none => bl.weight | some txs => bl.weightBuilt txs) else bl.weight,
            totalInputs := if bl.buildRan then bl.totalInputs + ((bl.build.getD []).map (·.ins.length)).sum else bl.totalInputs }

structure CheckRes where
  dos : Bool
  maybelater : Bool
  code : String
  deriving Repr, DecidableEq

/-- `Chain.CheckBlock(bl)`: the chain state after the call, the block object after the call, the result.
    `none` = a Go panic (only for chain states that violate the tree invariants). -/
def checkBlockM {U : Type} (p : Params) (c : Consensus) (h : Bytes → Bytes) (now : Int)
    (cs : ChainSt U) (bl : BlockObj) : Option (ChainSt U × BlockObj × CheckRes) :=
  match preCheckBlock p c (preInOf cs bl now) with
  | none => none
  | some o =>
    let bl1 := afterPre bl o
    if o.err ≠ .ok then some (cs, bl1, { dos := o.dos, maybelater := o.maybelater, code := o.err.code })
    else
      match postCheckBlock h c (postInOf bl1) with
      | none => none
      | some (e, flags) =>
        some (cs, afterPost bl1 e flags, { dos := decide (e ≠ .ok), maybelater := o.maybelater, code := e.code })

/-! ### the consensus parameters NewChainExt installs (regenerated constants) -/

def mainnetConsensus : Consensus :=
  { bip34Height := mainnet_BIP34Height, bip65Height := mainnet_BIP65Height, bip66Height := mainnet_BIP66Height,
    enforceCSV := mainnet_Enforce_CSV, enforceSegwit := mainnet_Enforce_SEGWIT, enforceTaproot := mainnet_Enforce_Taproot }
def testnet3Consensus : Consensus :=
  { bip34Height := testnet3_BIP34Height, bip65Height := testnet3_BIP65Height, bip66Height := testnet3_BIP66Height,
    enforceCSV := testnet3_Enforce_CSV, enforceSegwit := testnet3_Enforce_SEGWIT, enforceTaproot := testnet3_Enforce_Taproot }
def testnet4Consensus : Consensus :=
  { bip34Height := testnet4_BIP34Height, bip65Height := testnet4_BIP65Height, bip66Height := testnet4_BIP66Height,
    enforceCSV := testnet4_Enforce_CSV, enforceSegwit := testnet4_Enforce_SEGWIT, enforceTaproot := testnet4_Enforce_Taproot }

end GocoinV.BlockCheck
