/-
  Model.NetParse — the PARSING LAYER of the message handlers of client/network (property C18).

  What is modelled, handler by handler, statement by statement: every length guard, every
  CompactSize read, every index / slice expression on the payload, Go `int` (64-bit two's
  complement, `wrap`) and `uint64` arithmetic, which locks are held at every exit (a lock taken
  with `defer Unlock` is released on a panic, one taken without is not), and a step counter for
  every loop (one step per iteration; loops run on explicit fuel and running out of fuel is
  reported as a panic "fuel", so "never panics" includes "the loop variant suffices").
  What is NOT modelled: everything behind the parser (peer database, block index, header
  acceptance, mempool matching, routing, the send buffer).  Where a handler needs a fact from
  there to continue parsing it is a parameter (`Env`).

  Each handler exists in the form of the CURRENT source; for the seven defects repaired by
  `fix:` commits the pre-fix guard is kept as a `fixed := false` variant, used only by the
  counterexample theorems of Props/C18.  The guards relied upon are restated in `expectedFacts`
  and compared with the facts the translator extracts from the source (Gen/NetFacts.lean).
  Core Lean only.
-/
import GocoinV.Base.Bytes
namespace GocoinV.NetParse
open GocoinV CompactSize

/-! ### Go integers, slices -/

/-- reinterpretation of an integer as Go `int` (64-bit two's complement) -/
def wrap (x : Int) : Int :=
  let m := x % 18446744073709551616
  if m < 9223372036854775808 then m else m - 18446744073709551616

/-- the slice expression `pl[a:b]` is legal -/
def sliceOk (len a b : Int) : Bool := decide (0 ≤ a ∧ a ≤ b ∧ b ≤ len)

/-- the index expression `s[i]` is legal -/
def indexOk (len i : Int) : Bool := decide (0 ≤ i ∧ i < len)

/-- bytes of a legal slice -/
def sub (pl : Bytes) (a b : Int) : Bytes := (pl.drop a.toNat).take (b - a).toNat

inductive Lock | conn | rcv | tx | blockIndex | compact
  deriving DecidableEq, Repr

inductive Out
  | ok (tag : String) (nums : List Nat) (blobs : List Bytes)
  | reject (reason : String)
  | panic (site : String)
  deriving Repr

def Out.isPanic : Out → Bool
  | .panic _ => true
  | _ => false

/-- tag, numbers and blobs of an accepted message (`none`: refused or panicked) - lets theorems name an outcome -/
def Out.accepted : Out → Option (String × List Nat × List Bytes)
  | .ok t ns bs => some (t, ns, bs)
  | _ => none

def Out.rejected : Out → Option String
  | .reject r => some r
  | _ => none

def Out.panicSite : Out → Option String
  | .panic s => some s
  | _ => none

structure Res where
  out : Out
  locks : List Lock   -- locks still held when the handler has returned / unwound
  steps : Nat
  deriving Repr

/-- `btc.ReadVLen` on a reader whose unread bytes are `b`: value and the new unread bytes;
    `none` = error (EOF / unexpected EOF). -/
def readVLen (b : Bytes) : Option (Nat × Bytes) :=
  match b with
  | [] => none
  | h :: t =>
    if h.toNat < 0xfd then some (h.toNat, t)
    else
      let c := if h = 0xfd then 2 else if h = 0xfe then 4 else 8
      if t.length < c then none else some (leVal (t.take c), t.drop c)

/-- `Reader.Read(buf[:k])`: the bytes obtained (maybe fewer than k) and the rest -/
def readUpTo (k : Nat) (b : Bytes) : Bytes × Bytes := (b.take k, b.drop k)

/-! ### version (ver.go HandleVersion) -/

def u32 (b : Bytes) : Nat := leVal (b.take 4)
def u64 (b : Bytes) : Nat := leVal (b.take 8)

def SERVICE_SEGWIT : Nat := 8
def SERVICE_NETWORK : Nat := 1
def SERVICE_NETWORK_LIMITED : Nat := 1024
def MIN_PROTO_VERSION : Nat := 209

/-- the checks HandleVersion makes on the parsed fields of a non-special peer (before the
    nonce is compared with ours and with the other connections' — that needs the connection list) -/
def versionChecks (ver services : Nat) (nonce : Bytes) : Option String :=
  if ver < MIN_PROTO_VERSION then some "TooLow"
  else if services &&& SERVICE_SEGWIT = 0 then some "NoSegwit"
  else if services &&& (SERVICE_NETWORK ||| SERVICE_NETWORK_LIMITED) = 0 then some "NoService"
  else if nonce.all (· = 0) then some "NullNonce"
  else none

def handleVersionG (fixed : Bool) (pl : Bytes) : Res :=
  let n : Int := pl.length
  if n < 80 then ⟨.reject "MsgTooShort", [], 1⟩ else
  -- c.Mutex.Lock()
  let ver := u32 pl
  let services := u64 (pl.drop 4)
  let ts := u64 (pl.drop 12)
  let ip := beVal ((pl.drop 40).take 4)
  let nonce := (pl.drop 72).take 8
  let fin (agent : Bytes) (height hasH dnr : Nat) : Res :=
    -- c.Mutex.Unlock()
    match versionChecks ver services nonce with
    | some r => ⟨.reject r, [], 1⟩
    | none => ⟨.ok "version" [ver, services, ts, ip, height, hasH, dnr] [nonce, agent], [], 1⟩
  if n ≥ 82 then
    let (le, ofs) := vlen (pl.drop 80)
    let bad : Bool :=
      if fixed then (ofs == 0 || decide (le < 0) || decide (le > n - 80 - ofs))
      else (ofs == 0 || decide (n < wrap (80 + le)))
    if bad then ⟨.reject "MsgCorrupt", [], 1⟩ else     -- Unlock before return
    let of1 : Int := wrap (ofs + 80)
    let e1 := wrap (of1 + le)
    if !sliceOk n of1 e1 then ⟨.panic "HandleVersion:pl[of:of+le]", [.conn], 1⟩ else
    let agent := sub pl of1 e1
    let of2 := e1
    if n ≥ wrap (of2 + 4) then
      if !sliceOk n of2 (wrap (of2 + 4)) then ⟨.panic "HandleVersion:pl[of:of+4]", [.conn], 1⟩ else
      let height := u32 (sub pl of2 (of2 + 4))
      let of3 := wrap (of2 + 4)
      if n > of3 then
        if !indexOk n of3 then ⟨.panic "HandleVersion:pl[of]", [.conn], 1⟩ else
        fin agent height 1 (if (pl.drop of3.toNat).head? = some 0 then 1 else 0)
      else fin agent height 1 0
    else fin agent 0 0 0
  else fin [] 0 0 0

def handleVersion := handleVersionG true

/-! ### inv (invs.go ProcessInv) -/

/-- the loop `for i := 0; i < cnt; i++`: `k` iterations left, `of` current offset, `rest` = `pl[of:]`
    (carried along so that the executable model is linear in the payload) -/
def invLoop (n : Int) : Nat → Int → Bytes → List Bytes → Nat → Res
  | 0, _, _, acc, st => ⟨.ok "inv" [acc.length] acc.reverse, [], st⟩
  | k+1, of, rest, acc, st =>
    if !sliceOk n of (wrap (of + 4)) then ⟨.panic "ProcessInv:pl[of:of+4]", [], st⟩ else
    -- c.Mutex.Lock(); c.InvStore(typ, pl[of+4:of+36])
    if !sliceOk n (wrap (of + 4)) (wrap (of + 36)) then ⟨.panic "ProcessInv:pl[of+4:of+36]", [.conn], st⟩ else
    invLoop n k (wrap (of + 36)) (rest.drop 36) (rest.take 36 :: acc) (st + 1)

def processInvG (fixed : Bool) (pl : Bytes) : Res :=
  let n : Int := pl.length
  if n < 37 then ⟨.reject "InvEmpty", [], 1⟩ else
  let (cnt, ofs) := vlen pl
  let bad : Bool :=
    if fixed then (ofs == 0 || decide (cnt < 0) || decide (cnt > 50000) || decide (n ≠ wrap (ofs + wrap (36 * cnt))))
    else (ofs == 0 || decide (n ≠ wrap (ofs + wrap (36 * cnt))))
  if bad then ⟨.reject "InvErr", [], 1⟩ else
  invLoop n cnt.toNat ofs (pl.drop ofs) [] 1

def processInv := processInvG true

/-! ### getdata (data.go ProcessGetData + processGetData, send buffer not paused) -/

def getDataLoop : Nat → Bytes → List Bytes → Nat → Res
  | 0, _, _, st => ⟨.panic "fuel", [], st⟩
  | f+1, b, acc, st =>
    if b.length = 0 then ⟨.ok "getdata" [acc.length] acc.reverse, [], st⟩
    else
      let (h, r) := readUpTo 36 b
      getDataLoop f r (h :: acc) (st + 1)

/-- `pending`: `some p` = c.unfinished_getdata is not nil and holds p bytes (an earlier getdata was
    postponed because the send buffer was full): the new request is appended to it, or refused when
    the two together exceed 36·50000 bytes (data.go:33-42); `none` = the loop runs now. -/
def processGetData (pending : Option Nat) (pl : Bytes) : Res :=
  match readVLen pl with
  | none => ⟨.ok "getdata-noop" [] [], [], 1⟩
  | some (cnt, b) =>
    if (b.length : Int) ≠ wrap (wrap (cnt : Int) * 36) then ⟨.reject "GetDataLenERR", [], 1⟩
    else match pending with
      | some p =>
        if p + b.length > 36 * 50000 then ⟨.reject "GetDataTooBigA", [], 1⟩
        else ⟨.ok "getdata-appended" [p + b.length] [], [], 1⟩
      | none => getDataLoop (b.length + 1) b [] 1

/-! ### addr (addr.go ParseAddr) — record extraction only -/

def addrLoop : Nat → Bytes → List Bytes → Nat → Res
  | 0, _, acc, st => ⟨.ok "addr" [acc.length] acc.reverse, [], st⟩
  | k+1, b, acc, st =>
    let (rec, r) := readUpTo 30 b
    if rec.length ≠ 30 then ⟨.reject "AddrError", [], st⟩
    else addrLoop k r (rec :: acc) (st + 1)

def parseAddr (pl : Bytes) : Res :=
  let (cnt, b) := match readVLen pl with
    | none => (0, [])
    | some x => x
  let icnt := wrap (cnt : Int)
  -- `for i := 0; i < int(cnt); i++` with the count as announced (a negative int(cnt) runs no iteration);
  -- that the loop leaves at the first short read, whatever the count says, is PROVED
  -- (Proofs.C18 addrLoop_good: steps ≤ len/30 + 1), not built into the definition
  addrLoop icnt.toNat b [] 1

/-! ### getblocks / getheaders (data.go parseLocatorsPayload) -/

def MAX_LOCATOR_SZ : Nat := 101

def locLoop : Nat → Bytes → List Bytes → Option (List Bytes × Bytes)
  | 0, b, acc => some (acc.reverse, b)
  | k+1, b, acc =>
    let (h, r) := readUpTo 32 b
    if h.length = 0 then none else locLoop k r ((h ++ List.replicate (32 - h.length) 0) :: acc)

/-- result: locator hashes, stop hash; `none` = error -/
def parseLocators (pl : Bytes) : Option (List Bytes × Bytes) × Nat :=
  if pl.length < 4 then (none, 1) else
  match readVLen (pl.drop 4) with
  | none => (none, 1)
  | some (cnt0, b) =>
    let cnt := if cnt0 > MAX_LOCATOR_SZ then MAX_LOCATOR_SZ else cnt0
    let afterLocs : Option (List Bytes × Bytes) :=
      if cnt > 0 then
        if (b.length : Int) < wrap ((cnt : Int) * 32) then none
        else locLoop cnt b []
      else some ([], b)
    match afterLocs with
    | none => (none, cnt + 1)
    | some (hs, r) =>
      let (s, _) := readUpTo 32 r
      (some (hs, s ++ List.replicate (32 - s.length) 0), cnt + 1)

def getBlocks (pl : Bytes) : Res :=
  match parseLocators pl with
  | (none, st) => ⟨.reject "BadGetBlks", [], st⟩
  | (some (hs, stop), st) =>
    if hs.length < 1 then ⟨.reject "BadGetBlks", [], st⟩
    else ⟨.ok "getblocks" [hs.length] (hs ++ [stop]), [], st⟩

def getHeaders (pl : Bytes) : Res :=
  match parseLocators pl with
  | (none, st) => ⟨.reject "BadGetHdrsA", [], st⟩
  | (some (hs, stop), st) =>
    if hs.length > 101 then ⟨.reject "BadGetHdrsB", [], st⟩
    else ⟨.ok "getheaders" [hs.length] (hs ++ [stop]), [], st⟩

/-! ### headers (hdrs.go HandleHeaders) — extraction of the 80-byte headers -/

def hdrLoop : Nat → Bytes → List Bytes → Nat → Res
  | 0, _, acc, st => ⟨.ok "headers" [acc.length] acc.reverse, [], st⟩
  | k+1, b, acc, st =>
    let (h, r) := readUpTo 80 b
    if h.length ≠ 80 then ⟨.reject "HdrErr1", [], st⟩ else   -- MutexRcv released by defer
    match readVLen r with
    | none => ⟨.reject "HdrErr2", [], st⟩
    | some (_, r') => hdrLoop k r' (h :: acc) (st + 1)

def handleHeaders (pl : Bytes) : Res :=
  match readVLen pl with
  | none => ⟨.ok "headers-noop" [] [], [], 1⟩
  | some (cnt, b) =>
    if cnt > 2000 then ⟨.reject "HdrErrX", [], 1⟩
    else hdrLoop cnt b [] 1

/-! ### tx (trxs.go ParseTxNet) — `newTx` is the decoder of lib/btc (C09's model), a parameter -/

def parseTxNet (newTx : Bytes → Option (Nat × Nat)) (pl : Bytes) : Res :=
  match newTx pl with      -- (number of inputs, bytes consumed)
  | none => ⟨.reject "TxRejectedBroken", [], 1⟩
  | some (nin, le) =>
    if le ≠ pl.length then ⟨.reject "TxRejectedLenMismatch", [], 1⟩
    else if nin < 1 then ⟨.reject "TxRejectedNoInputs", [], 1⟩
    else ⟨.ok "tx" [nin, le] [], [], 1⟩

/-! ### block (data.go netBlockReceived) — only the length guard precedes the backend -/

def netBlockReceived (pl : Bytes) : Res :=
  if pl.length < 100 then ⟨.reject "ShortBlock", [], 1⟩
  else ⟨.ok "block" [pl.length] [pl.take 80], [], 1⟩

/-! ### getblocktxn (cblk.go ProcessGetBlockTxn) -/

/-- `ntx`: number of transactions of the block named by pl[:32] (`none`: block unknown).
    The loop reads one CompactSize per iteration, so `fuel` = unread bytes + 1 suffices. -/
def gbtLoop (fixed : Bool) (ntx : Nat) : Nat → Bytes → Nat → Nat → List Nat → Nat → Res
  | 0, _, _, _, _, st => ⟨.panic "fuel", [], st⟩
  | f+1, req, il, exp, acc, st =>
    match readVLen req with
    | none => ⟨.reject "GetBlockTxnERR", [], st⟩
    | some (d, req') =>
      let idx := (d + exp) % 18446744073709551616
      let refuse : Bool := if fixed then decide (idx ≥ ntx) else decide (wrap idx ≥ (ntx : Int))
      if refuse then ⟨.reject "GetBlockTxnIdx+", [], st⟩ else
      if !indexOk ntx idx then ⟨.panic "ProcessGetBlockTxn:Txs[idx]", [], st⟩ else
      if il = 1 then ⟨.ok "getblocktxn" [acc.length + 1] [(idx :: acc).reverse.map (UInt8.ofNat ·)], [], st⟩
      else gbtLoop fixed ntx f req' (il - 1) ((idx + 1) % 18446744073709551616) (idx :: acc) (st + 1)

def processGetBlockTxnG (fixed : Bool) (ntx : Option Nat) (pl : Bytes) : Res :=
  if pl.length < 34 then ⟨.reject "GetBlockTxnShort", [], 1⟩ else
  match ntx with
  | none => ⟨.ok "getblocktxn-unknown" [] [], [], 1⟩
  | some ntx =>
    let req := pl.drop 32
    let (il, req') := match readVLen req with
      | none => (0, [])
      | some x => x
    if il = 0 then ⟨.reject "GetBlockTxnEmpty", [], 1⟩
    else gbtLoop fixed ntx (req'.length + 1) req' il 0 [] 1

def processGetBlockTxn := processGetBlockTxnG true

/-! ### cmpctblock (cblk.go ProcessCmpctBlock), from `offs := 88` through the short-id loop, the prefilled
     loop and the SECOND PASS over col.Txs (cblk.go:360-382) which reads the short ids back from the payload.
     Precondition (backend): the header pl[:80] was accepted and the block is not over-requested.
     `txSize` = btc.TxSize. MutexRcv is held with `defer Unlock` throughout: released at every exit.
     The second pass runs between `txpool.TxMutex.Lock()` and its NON-deferred Unlock: a panic there
     leaves TxMutex locked (Run's recover swallows the panic). What lies between the prefilled loop and
     the second pass (sha256 of `pl[:88]` - legal since len(pl) ≥ 90 -, mempool matching with its two
     "Same short ID - abort" early returns, both after an Unlock) is backend and not modelled. -/

def shortIdLoop (pl : Bytes) (n : Int) : Nat → Int → List Bytes → Nat → Except Res (Int × List Bytes × Nat)
  | 0, offs, seen, st => .ok (offs, seen, st)
  | k+1, offs, seen, st =>
    if n < wrap (offs + 6) then .error ⟨.reject "CmpctBlkErrB2", [], st⟩ else
    if !sliceOk n offs (wrap (offs + 6)) then .error ⟨.panic "ProcessCmpctBlock:pl[offs:offs+6]", [], st⟩ else
    let sid := sub pl offs (offs + 6)
    if seen.contains sid then .error ⟨.reject "CmpctBlkErrB3", [], st⟩ else
    shortIdLoop pl n k (wrap (offs + 6)) (sid :: seen) (st + 1)

def prefilledLoop (fixed : Bool) (txSize : Bytes → Nat) (pl : Bytes) (n : Int) (total : Int) :
    Nat → Int → Int → List Nat → Nat → Res
  | 0, _, _, acc, st => ⟨.ok "cmpctblock" acc.reverse [], [], st⟩
  | k+1, offs, exp, acc, st =>
    if !sliceOk n offs n then ⟨.panic "ProcessCmpctBlock:pl[offs:]", [], st⟩ else
    let (idx0, m) := vlen (pl.drop offs.toNat)
    if m == 0 || decide (idx0 < 0) || decide (m > 3) then ⟨.reject "CmpctBlkErrD", [], st⟩ else
    let idx := wrap (idx0 + exp)
    let refuse : Bool := if fixed then decide (idx ≥ total) else decide (idx0 ≥ total)
    if refuse then ⟨.reject "CmpctBlkErrF", [], st⟩ else
    let offs1 := wrap (offs + m)
    if !sliceOk n offs1 n then ⟨.panic "ProcessCmpctBlock:pl[offs:] (tx)", [], st⟩ else
    let sz : Int := txSize (pl.drop offs1.toNat)
    if sz = 0 then ⟨.reject "CmpctBlkErrE", [], st⟩ else
    if !indexOk total idx then ⟨.panic "ProcessCmpctBlock:col.Txs[idx]", [], st⟩ else
    if !sliceOk n offs1 (wrap (offs1 + sz)) then ⟨.panic "ProcessCmpctBlock:pl[offs:offs+n]", [], st⟩ else
    prefilledLoop fixed txSize pl n total k (wrap (offs1 + sz)) (wrap (idx + 1)) (sz.toNat :: idx.toNat :: acc) (st + 1)

/-- indices written by the prefilled loop, taken from its REVERSED result list
    [szₖ, idxₖ, …, sz₁, idx₁] (the loop's accumulator) -/
def pairIdx : List Nat → List Nat
  | _ :: idx :: t => idx :: pairIdx t
  | _ => []

/-- `col.Txs = make([]interface{}, total)` followed by `col.Txs[idx] = pl[offs:offs+n]` for every
    index written by the prefilled loop: `true` = the slot holds a []byte (prefilled) -/
def slotsOf (total : Nat) (written : List Nat) : Array Bool :=
  written.foldl (fun a i => a.setIfInBounds i true) (Array.replicate total false)

/-- the second pass `for n = 0; n < len(col.Txs); n++ { switch col.Txs[n].(type) … }` over the slot list:
    a prefilled slot is skipped; for any other slot the short id is read back from
    `pl[shortidx_idx : shortidx_idx+6]` and looked up in the map the first loop built (`seen`);
    `panic("Tx idx … is missing")` when it is not there; then `shortidx_idx += 6`.
    txpool.TxMutex is held (no defer) throughout.
    NOT in the model: the same branch stores `col.Sid2idx[sid] = n` for a short id the mempool did not resolve, into a
    map that is made only `if missing > 0` - a second (runtime) panic site under TxMutex. Argument, not a theorem:
    `missing = len(shortids) - cnt_found` counts exactly the ids whose map value stayed nil (a duplicate id aborts
    before), so an unresolved id in this loop implies missing ≥ 1 and the map is there. The harness reaches the
    branch (cmpctblock with unknown short ids → getblocktxn) in both streams. -/
def secondPass (pl : Bytes) (n : Int) (seen : List Bytes) : List Bool → Int → Nat → Res
  | [], _, st => ⟨.ok "cmpctblock" [] [], [], st⟩
  | true :: sl, sidx, st => secondPass pl n seen sl sidx (st + 1)
  | false :: sl, sidx, st =>
    if !sliceOk n sidx (wrap (sidx + 6)) then ⟨.panic "ProcessCmpctBlock:pl[shortidx_idx:shortidx_idx+6]", [.tx], st⟩ else
    if !seen.contains (sub pl sidx (sidx + 6)) then ⟨.panic "ProcessCmpctBlock:Tx idx missing", [.tx], st⟩ else
    secondPass pl n seen sl (wrap (sidx + 6)) (st + 1)

/-! #### compiled-code shortcuts (`@[csimp]`: proved equal, the compiler uses the fast form; the
     definitions above stay the ones every theorem is about). The loops above re-slice the payload from
     its start for every element (`pl.drop offs`: quadratic on Lean lists); the `…R` forms carry the
     unread rest along and drop only what one element consumes. -/

theorem drop_advance (pl : Bytes) (a b n : Int) (h : sliceOk n a b = true) :
    (pl.drop a.toNat).drop (b - a).toNat = pl.drop b.toNat := by
  simp only [sliceOk, decide_eq_true_eq] at h
  rw [List.drop_drop]
  congr 1; omega

def shortIdLoopR (n : Int) : Nat → Bytes → Int → List Bytes → Nat → Except Res (Int × List Bytes × Nat)
  | 0, _, offs, seen, st => .ok (offs, seen, st)
  | k+1, rest, offs, seen, st =>
    if n < wrap (offs + 6) then .error ⟨.reject "CmpctBlkErrB2", [], st⟩ else
    if !sliceOk n offs (wrap (offs + 6)) then .error ⟨.panic "ProcessCmpctBlock:pl[offs:offs+6]", [], st⟩ else
    let sid := rest.take 6
    if seen.contains sid then .error ⟨.reject "CmpctBlkErrB3", [], st⟩ else
    shortIdLoopR n k (rest.drop (wrap (offs + 6) - offs).toNat) (wrap (offs + 6)) (sid :: seen) (st + 1)

theorem shortIdLoop_eq_R (pl : Bytes) (n : Int) : ∀ (k : Nat) (offs : Int) (seen : List Bytes) (st : Nat),
    shortIdLoop pl n k offs seen st = shortIdLoopR n k (pl.drop offs.toNat) offs seen st := by
  intro k
  induction k with
  | zero => intros; rfl
  | succ k ih =>
    intro offs seen st
    unfold shortIdLoop shortIdLoopR
    have hsub : sub pl offs (offs + 6) = (pl.drop offs.toNat).take 6 := by
      unfold sub; congr 1; omega
    by_cases h1 : n < wrap (offs + 6)
    · simp only [h1, ↓reduceIte]
    · simp only [h1, ↓reduceIte]
      by_cases h2 : sliceOk n offs (wrap (offs + 6)) = true
      · simp only [h2, Bool.not_true, Bool.false_eq_true, ↓reduceIte, hsub]
        by_cases h3 : seen.contains ((pl.drop offs.toNat).take 6) = true
        · simp only [h3, ↓reduceIte]
        · simp only [h3, Bool.false_eq_true, ↓reduceIte]
          rw [ih, drop_advance pl offs _ n h2]
      · simp only [h2, Bool.not_false, ↓reduceIte]

def prefilledLoopR (fixed : Bool) (txSize : Bytes → Nat) (pl : Bytes) (n : Int) (total : Int) :
    Nat → Bytes → Int → Int → List Nat → Nat → Res
  | 0, _, _, _, acc, st => ⟨.ok "cmpctblock" acc.reverse [], [], st⟩
  | k+1, rest, offs, exp, acc, st =>
    if !sliceOk n offs n then ⟨.panic "ProcessCmpctBlock:pl[offs:]", [], st⟩ else
    let (idx0, m) := vlen rest
    if m == 0 || decide (idx0 < 0) || decide (m > 3) then ⟨.reject "CmpctBlkErrD", [], st⟩ else
    let idx := wrap (idx0 + exp)
    let refuse : Bool := if fixed then decide (idx ≥ total) else decide (idx0 ≥ total)
    if refuse then ⟨.reject "CmpctBlkErrF", [], st⟩ else
    let offs1 := wrap (offs + m)
    if !sliceOk n offs1 n then ⟨.panic "ProcessCmpctBlock:pl[offs:] (tx)", [], st⟩ else
    -- offs ≤ offs1 always holds for payloads shorter than 2^63 bytes; the other branch keeps the equality unconditional
    let rest1 := if offs ≤ offs1 then rest.drop (offs1 - offs).toNat else pl.drop offs1.toNat
    let sz : Int := txSize rest1
    if sz = 0 then ⟨.reject "CmpctBlkErrE", [], st⟩ else
    if !indexOk total idx then ⟨.panic "ProcessCmpctBlock:col.Txs[idx]", [], st⟩ else
    if !sliceOk n offs1 (wrap (offs1 + sz)) then ⟨.panic "ProcessCmpctBlock:pl[offs:offs+n]", [], st⟩ else
    prefilledLoopR fixed txSize pl n total k (rest1.drop (wrap (offs1 + sz) - offs1).toNat) (wrap (offs1 + sz)) (wrap (idx + 1)) (sz.toNat :: idx.toNat :: acc) (st + 1)

theorem prefilledLoop_eq_R (fixed : Bool) (txSize : Bytes → Nat) (pl : Bytes) (n total : Int) :
    ∀ (k : Nat) (offs exp : Int) (acc : List Nat) (st : Nat),
    prefilledLoop fixed txSize pl n total k offs exp acc st =
      prefilledLoopR fixed txSize pl n total k (pl.drop offs.toNat) offs exp acc st := by
  intro k
  induction k with
  | zero => intros; rfl
  | succ k ih =>
    intro offs exp acc st
    unfold prefilledLoop prefilledLoopR
    by_cases h1 : sliceOk n offs n = true
    · simp only [h1, Bool.not_true, Bool.false_eq_true, ↓reduceIte]
      generalize hv : vlen (List.drop offs.toNat pl) = v
      obtain ⟨idx0, m⟩ := v
      have hr : (if offs ≤ wrap (offs + (m : Int)) then (pl.drop offs.toNat).drop (wrap (offs + (m : Int)) - offs).toNat
                  else pl.drop (wrap (offs + (m : Int))).toNat) = pl.drop (wrap (offs + (m : Int))).toNat := by
        split
        · rename_i hle
          simp only [sliceOk, decide_eq_true_eq] at h1
          rw [List.drop_drop]; congr 1; omega
        · rfl
      simp only [hr]
      repeat' split
      all_goals first
        | rfl
        | (rename_i h4; rw [ih, drop_advance pl _ _ n (by simpa using h4)])
    · simp only [h1, Bool.not_false, ↓reduceIte]

def shortIdLoopFast (pl : Bytes) (n : Int) (k : Nat) (offs : Int) (seen : List Bytes) (st : Nat) :=
  shortIdLoopR n k (pl.drop offs.toNat) offs seen st

@[csimp] theorem shortIdLoop_eq_fast : @shortIdLoop = @shortIdLoopFast := by
  funext pl n k offs seen st; exact shortIdLoop_eq_R pl n k offs seen st

def prefilledLoopFast (fixed : Bool) (txSize : Bytes → Nat) (pl : Bytes) (n total : Int) (k : Nat) (offs exp : Int)
    (acc : List Nat) (st : Nat) := prefilledLoopR fixed txSize pl n total k (pl.drop offs.toNat) offs exp acc st

@[csimp] theorem prefilledLoop_eq_fast : @prefilledLoop = @prefilledLoopFast := by
  funext fixed txSize pl n total k offs exp acc st; exact prefilledLoop_eq_R fixed txSize pl n total k offs exp acc st

def secondPassR (n : Int) (seen : List Bytes) : List Bool → Bytes → Int → Nat → Res
  | [], _, _, st => ⟨.ok "cmpctblock" [] [], [], st⟩
  | true :: sl, rest, sidx, st => secondPassR n seen sl rest sidx (st + 1)
  | false :: sl, rest, sidx, st =>
    if !sliceOk n sidx (wrap (sidx + 6)) then ⟨.panic "ProcessCmpctBlock:pl[shortidx_idx:shortidx_idx+6]", [.tx], st⟩ else
    if !seen.contains (rest.take 6) then ⟨.panic "ProcessCmpctBlock:Tx idx missing", [.tx], st⟩ else
    secondPassR n seen sl (rest.drop (wrap (sidx + 6) - sidx).toNat) (wrap (sidx + 6)) (st + 1)

theorem secondPass_eq_R (pl : Bytes) (n : Int) (seen : List Bytes) : ∀ (sl : List Bool) (sidx : Int) (st : Nat),
    secondPass pl n seen sl sidx st = secondPassR n seen sl (pl.drop sidx.toNat) sidx st := by
  intro sl
  induction sl with
  | nil => intros; rfl
  | cons b sl ih =>
    intro sidx st
    cases b with
    | true => unfold secondPass secondPassR; exact ih sidx (st + 1)
    | false =>
      unfold secondPass secondPassR
      have hsub : sub pl sidx (sidx + 6) = (pl.drop sidx.toNat).take 6 := by
        unfold sub; congr 1; omega
      by_cases h2 : sliceOk n sidx (wrap (sidx + 6)) = true
      · simp only [h2, Bool.not_true, Bool.false_eq_true, ↓reduceIte, hsub]
        by_cases h3 : seen.contains ((pl.drop sidx.toNat).take 6) = true
        · simp only [h3, Bool.not_true, Bool.false_eq_true, ↓reduceIte]
          rw [ih, drop_advance pl sidx _ n h2]
        · simp only [h3, Bool.not_false, ↓reduceIte]
      · simp only [h2, Bool.not_false, ↓reduceIte]

def secondPassFast (pl : Bytes) (n : Int) (seen : List Bytes) (sl : List Bool) (sidx : Int) (st : Nat) :=
  secondPassR n seen sl (pl.drop sidx.toNat) sidx st

@[csimp] theorem secondPass_eq_fast : @secondPass = @secondPassFast := by
  funext pl n seen sl sidx st; exact secondPass_eq_R pl n seen sl sidx st

def processCmpctBlockG (fixed : Bool) (txSize : Bytes → Nat) (pl : Bytes) : Res :=
  let n : Int := pl.length
  if n < 90 then ⟨.reject "CmpctBlkErrA", [], 1⟩ else
  -- MutexRcv.Lock(); defer MutexRcv.Unlock(); header accepted (precondition)
  let (scnt, m) := vlen (pl.drop 88)
  if m == 0 || decide (scnt < 0) || decide (m > 3) then ⟨.reject "CmpctBlkErrB", [], 1⟩ else
  match shortIdLoop pl n scnt.toNat (88 + m) [] 1 with
  | .error r => r
  | .ok (offs, seen, st) =>
    if !sliceOk n offs n then ⟨.panic "ProcessCmpctBlock:pl[offs:] (prefilledcnt)", [], st⟩ else
    let (pcnt, m2) := vlen (pl.drop offs.toNat)
    if m2 == 0 || decide (pcnt < 0) || decide (m2 > 3) then ⟨.reject "CmpctBlkErrC", [], st⟩ else
    match prefilledLoop fixed txSize pl n (pcnt + scnt) pcnt.toNat (wrap (offs + m2)) 0 [] st with
    | ⟨.ok t nums bl, _, s⟩ =>
      -- txpool.TxMutex.Lock(); …; second pass over col.Txs, shortidx_idx starting where the short ids start
      match secondPass pl n seen (slotsOf (pcnt + scnt).toNat (pairIdx nums.reverse)).toList (88 + m) s with
      | ⟨.ok _ _ _, l2, s2⟩ => ⟨.ok t (scnt.toNat :: pcnt.toNat :: nums) bl, l2, s2⟩   -- txpool.TxMutex.Unlock()
      | r => r
    | r => r

def processCmpctBlock := processCmpctBlockG true

/-! ### blocktxn (cblk.go ProcessBlockTxn): the two guards, then (collector present, backend
     precondition) the transaction loop `for offs < len(pl)`; all short ids assumed known. -/

def blockTxnLoop (txSize : Bytes → Nat) (pl : Bytes) (n : Int) : Nat → Int → List Nat → Nat → Res
  | 0, _, _, st => ⟨.panic "fuel", [], st⟩
  | f+1, offs, acc, st =>
    if !(offs < n) then ⟨.ok "blocktxn" acc.reverse [], [], st⟩ else
    if !sliceOk n offs n then ⟨.panic "ProcessBlockTxn:pl[offs:]", [], st⟩ else
    let sz : Int := txSize (pl.drop offs.toNat)
    if sz = 0 then ⟨.reject "BlkTxnErrTx", [], st⟩ else
    if !sliceOk n offs (wrap (offs + sz)) then ⟨.panic "ProcessBlockTxn:pl[offs:offs+n]", [], st⟩ else
    blockTxnLoop txSize pl n f (wrap (offs + sz)) (sz.toNat :: acc) (st + 1)

def blockTxnLoopR (txSize : Bytes → Nat) (n : Int) : Nat → Bytes → Int → List Nat → Nat → Res
  | 0, _, _, _, st => ⟨.panic "fuel", [], st⟩
  | f+1, rest, offs, acc, st =>
    if !(offs < n) then ⟨.ok "blocktxn" acc.reverse [], [], st⟩ else
    if !sliceOk n offs n then ⟨.panic "ProcessBlockTxn:pl[offs:]", [], st⟩ else
    let sz : Int := txSize rest
    if sz = 0 then ⟨.reject "BlkTxnErrTx", [], st⟩ else
    if !sliceOk n offs (wrap (offs + sz)) then ⟨.panic "ProcessBlockTxn:pl[offs:offs+n]", [], st⟩ else
    blockTxnLoopR txSize n f (rest.drop (wrap (offs + sz) - offs).toNat) (wrap (offs + sz)) (sz.toNat :: acc) (st + 1)

theorem blockTxnLoop_eq_R (txSize : Bytes → Nat) (pl : Bytes) (n : Int) : ∀ (f : Nat) (offs : Int) (acc : List Nat) (st : Nat),
    blockTxnLoop txSize pl n f offs acc st = blockTxnLoopR txSize n f (pl.drop offs.toNat) offs acc st := by
  intro f
  induction f with
  | zero => intros; rfl
  | succ f ih =>
    intro offs acc st
    unfold blockTxnLoop blockTxnLoopR
    by_cases h1 : offs < n
    · simp only [h1, decide_true, Bool.not_true, Bool.false_eq_true, ↓reduceIte]
      by_cases h2 : sliceOk n offs n = true
      · simp only [h2, Bool.not_true, Bool.false_eq_true, ↓reduceIte]
        by_cases h3 : ((txSize (List.drop offs.toNat pl) : Nat) : Int) = 0
        · simp only [h3, ↓reduceIte]
        · simp only [h3, ↓reduceIte]
          by_cases h4 : sliceOk n offs (wrap (offs + ((txSize (List.drop offs.toNat pl) : Nat) : Int))) = true
          · simp only [h4, Bool.not_true, Bool.false_eq_true, ↓reduceIte]
            rw [ih, drop_advance pl offs _ n h4]
          · simp only [h4, Bool.not_false, ↓reduceIte]
      · simp only [h2, Bool.not_false, ↓reduceIte]
    · simp only [h1, decide_false, Bool.not_false, ↓reduceIte]


def blockTxnLoopFast (txSize : Bytes → Nat) (pl : Bytes) (n : Int) (f : Nat) (offs : Int) (acc : List Nat) (st : Nat) :=
  blockTxnLoopR txSize n f (pl.drop offs.toNat) offs acc st

@[csimp] theorem blockTxnLoop_eq_fast : @blockTxnLoop = @blockTxnLoopFast := by
  funext txSize pl n f offs acc st; exact blockTxnLoop_eq_R txSize pl n f offs acc st

def processBlockTxn (txSize : Bytes → Nat) (pl : Bytes) : Res :=
  let n : Int := pl.length
  if n < 33 then ⟨.reject "BlkTxnErrLen", [], 1⟩ else
  let (le, m) := vlen (pl.drop 32)
  if m == 0 || decide (le < 0) || decide (m > 3) then ⟨.reject "BlkTxnErrCnt", [], 1⟩ else
  blockTxnLoop txSize pl n (pl.length + 1) (32 + m) [] 1

/-! ### small inline handlers of tick.go Run -/

def feeFilter (pl : Bytes) : Res :=
  if pl.length ≥ 8 then
    if !sliceOk pl.length 0 8 then ⟨.panic "feefilter:pl[:8]", [], 1⟩
    else ⟨.ok "feefilter" [u64 pl] [], [], 1⟩
  else ⟨.ok "feefilter-ignored" [] [], [], 1⟩

def sendCmpct (pl : Bytes) : Res :=
  if pl.length ≥ 9 then
    if !sliceOk pl.length 1 9 then ⟨.panic "sendcmpct:pl[1:9]", [], 1⟩
    else ⟨.ok "sendcmpct" [u64 (pl.drop 1), (pl.head?.getD 0).toNat] [], [], 1⟩
  else ⟨.ok "sendcmpct-short" [] [], [], 1⟩

/-- ping.go HandlePong with a ping in flight whose nonce is `inFlight` (`none`: payload nil) -/
def handlePong (pl : Bytes) : Res := ⟨.ok "pong" [pl.length] [], [], 1⟩

/-- ver.go AuthRvcd for a peer whose key is not in the friends list: the guards, the slice
    `pl[33:]` given to the signature parser, no further payload access. -/
def authRcvd (already : Bool) (pl : Bytes) : Res :=
  if already then ⟨.reject "XAuthMsgCnt", [], 1⟩ else
  if pl.length < 33 then ⟨.reject "XAuthMsgShort", [], 1⟩ else
  if !sliceOk pl.length 0 33 then ⟨.panic "AuthRvcd:pl[:33]", [], 1⟩ else
  if !sliceOk pl.length 33 pl.length then ⟨.panic "AuthRvcd:pl[33:]", [], 1⟩ else
  ⟨.ok "xauth-unauthorized" [] [], [], 1⟩

/-- trxs.go ProcessGetMP (authorized peers only): extraction of the 8-byte ids -/
def getMPLoop : Nat → Bytes → Nat → Nat → Res
  | 0, _, got, st => ⟨.ok "getmp" [got] [], [], st⟩
  | k+1, b, got, st =>
    let (h, r) := readUpTo 8 b
    if h.length ≠ 8 then ⟨.reject "GetMPError2", [], st⟩ else getMPLoop k r (got + 1) (st + 1)

def processGetMP (pl : Bytes) : Res :=
  match readVLen pl with
  | none => ⟨.reject "GetMPError1", [], 1⟩
  | some (cnt, b) => getMPLoop (wrap (cnt : Int)).toNat b 0 1   -- `for i := 0; i < int(cnt); i++`, plain count

/-- tick.go Run, `case "authack"`: an unsigned one ends the connection (Disconnect, no ban); a signed one
    sets AuthAckGot under c.Mutex (Lock / Unlock closed before the payload is looked at), then
    `if len(pl) > 0 { ChainSynchronized = pl[0] != 0 }`. nums = [has payload, synchronized flag]. -/
def authAck (trusted : Bool) (pl : Bytes) : Res :=
  if !trusted then ⟨.ok "authack-unsigned" [] [], [], 1⟩ else
  if pl.length > 0 then
    (if !indexOk pl.length 0 then ⟨.panic "authack:pl[0]", [], 1⟩
     else ⟨.ok "authack" [1, if pl.head? ≠ some 0 then 1 else 0] [], [], 1⟩)
  else ⟨.ok "authack" [0, 0] [], [], 1⟩

/-- tick.go GetMPDone. `ours` = a getmp request of this connection is pending (c.GetMP not empty), the global
    ticket is taken and it is THIS connection's: the only state in which the payload is looked at -
    `if len(pl) < 1 || pl[0] == 0 { <-c.GetMP } else if c.SendGetMP() != nil …` (the index stands behind the
    short-circuit `||`). In every other state the handler leaves on a length test or without reading anything.
    nums = [0: the exchange is over, the ticket is given back | 1: the peer has more, the next getmp is sent]. -/
def getMPDone (ours : Bool) (pl : Bytes) : Res :=
  if !ours then ⟨.ok "getmpdone-idle" [] [], [], 1⟩ else
  if pl.length < 1 then ⟨.ok "getmpdone" [0] [], [], 1⟩ else
  if !indexOk pl.length 0 then ⟨.panic "GetMPDone:pl[0]", [], 1⟩ else
  ⟨.ok "getmpdone" [if pl.head? = some 0 then 0 else 1] [], [], 1⟩

/-! ### core.go FetchMessage: the header loop -/

/-- `for c.recv.hdr_len < 24 { n, e = SockRead(c.Conn, c.recv.hdr[c.recv.hdr_len:24]); …; c.recv.hdr_len += n; …
    if c.recv.hdr_len != 24 { if c.recv.hdr_len > 24 { panic("ERROR: hdr_len > 24 …") } … } }` over successive
    reads (across calls: hdr_len is kept in the connection) returning `reads` bytes. `none` = the explicit panic,
    which stands between c.Mutex.Lock() and its Unlock. -/
def hdrReads : List Nat → Nat → Option Nat
  | [], hl => some hl
  | n :: rs, hl => if hl ≥ 24 then some hl else if hl + n > 24 then none else hdrReads rs (hl + n)

/-- the net.Conn.Read contract along such a run: every read returns at most the length of the slice it was given,
    `hdr[hdr_len:24]` (common.SockRead only ever shortens that slice) -/
def readsWithin : List Nat → Nat → Bool
  | [], _ => true
  | n :: rs, hl => hl ≥ 24 || (decide (n ≤ 24 - hl) && readsWithin rs (hl + n))

/-! ### core.go FetchMessage: one complete message at the start of `wire` -/

structure FetchEnv where
  magic : Bytes
  maxMsgSize : Bytes → Nat     -- by command (zero-trimmed)
  checksum : Bytes → Bytes     -- first 4 bytes of sha256d
  hasKey : Bool                -- an AES context was negotiated (xauth)
  versionReceived : Bool

def trimZeros (b : Bytes) : Bytes := (b.reverse.dropWhile (· = 0)).reverse

/-- outcome: ok "msg" [payload length] [cmd, payload, rest] | ok "need-more" | reject | panic.
    An encrypted-flagged message with a key is left to the AEAD (outcome "encrypted"). -/
def fetchMessageG (fixed : Bool) (E : FetchEnv) (wire : Bytes) : Res :=
  if wire.length < 24 then
    (if wire.length ≥ 4 ∧ wire.take 4 ≠ E.magic then ⟨.reject "NetBadMagic", [], 1⟩
     else ⟨.ok "need-more" [] [], [], 1⟩)
  else
  let hdr := wire.take 24
  if hdr.take 4 ≠ E.magic then ⟨.reject "NetBadMagic", [], 1⟩ else
  let cmd := trimZeros ((hdr.drop 4).take 12)
  let raw := u32 (hdr.drop 16)
  let decrypt := raw ≥ 2147483648
  let plLen := raw % 2147483648
  let body := wire.drop 24
  if plLen > 0 ∧ decrypt ∧ !E.hasKey then
    (if fixed then ⟨.reject "MsgNoKey", [], 1⟩ else ⟨.panic "FetchMessage:c.aesData.nonceSize", [], 1⟩)
  else
  let msi := E.maxMsgSize cmd + (if decrypt then 28 else 0)
  if plLen > 0 ∧ plLen > msi then ⟨.reject ("Big-" ++ bytesStr cmd), [], 1⟩ else
  if body.length < plLen then ⟨.ok "need-more" [] [], [], 1⟩ else
  let pl := body.take plLen
  if decrypt then
    (if !E.hasKey then ⟨.reject "MsgNoKey", [], 1⟩ else ⟨.ok "encrypted" [plLen] [cmd], [], 1⟩)
  else if !E.versionReceived ∧ (hdr.drop 20).take 4 ≠ E.checksum pl then ⟨.reject "MsgBadChksum", [], 1⟩
  else ⟨.ok "msg" [plLen] [cmd, pl, body.drop plLen], [], 1⟩

def fetchMessage := fetchMessageG true

/-! ### the dispatch of Run (tick.go): command → handler, after the version handshake -/

structure Env where
  txSize : Bytes → Nat
  newTx : Bytes → Option (Nat × Nat)
  ntx : Option Nat          -- getblocktxn: size of the named block
  authGot : Bool            -- xauth already seen on this connection
  authorized : Bool
  pendingGetData : Option Nat   -- getdata: bytes waiting in c.unfinished_getdata (`none`: nil)
  trusted : Bool            -- cmd.trusted: the message came signed / through the encrypted channel
  getmpOurs : Bool := false -- getmpdone: a getmp request is pending and the global ticket is this connection's

def parse (E : Env) (cmd : String) (pl : Bytes) : Res :=
  if cmd = "version" then handleVersion pl
  else if cmd = "inv" then processInv pl
  else if cmd = "tx" then parseTxNet E.newTx pl
  else if cmd = "addr" then parseAddr pl
  else if cmd = "block" then netBlockReceived pl
  else if cmd = "getblocks" then getBlocks pl
  else if cmd = "getdata" then processGetData E.pendingGetData pl
  else if cmd = "pong" then handlePong pl
  else if cmd = "getheaders" then getHeaders pl
  else if cmd = "headers" then handleHeaders pl
  else if cmd = "feefilter" then feeFilter pl
  else if cmd = "sendcmpct" then sendCmpct pl
  else if cmd = "cmpctblock" then processCmpctBlock E.txSize pl
  else if cmd = "getblocktxn" then processGetBlockTxn E.ntx pl
  else if cmd = "blocktxn" then processBlockTxn E.txSize pl
  else if cmd = "getmp" then (if E.authorized then processGetMP pl else ⟨.ok "ignored" [] [], [], 1⟩)
  else if cmd = "xauth" then authRcvd E.authGot pl
  else if cmd = "authack" then authAck E.trusted pl
  else if cmd = "getmpdone" then getMPDone E.getmpOurs pl
  else ⟨.ok "no-parse" [] [], [], 1⟩   -- ping, getaddr, notfound, sendheaders, filter*, unknown: payload not indexed

end GocoinV.NetParse
