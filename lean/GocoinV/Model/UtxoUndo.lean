/-
  Model.UtxoUndo — the record-level life cycle of lib/utxo/unspent_db.go that the property's words "returned
  unchanged after being stored" also cover: a stored record is partly spent by a block (`UnspentDB.del`), and the
  block is undone (`UnspentDB.UndoBlockTxs`: the undo record — the spent outputs only — is merged with what is left
  of the stored record and serialised again). Core-only.

    spend mask r        `del(txid, outs)`: `rec.Outs[i] = nil` where `outs[i]`
    undoOf mask r       the undo record chain.CommitBlock hands to CommitBlockTxs (`UndoData[txid]`): same header,
                        only the outputs the block spends
    mergeUndo u old     `UndoBlockTxs`: `for a := range rec.Outs { if rec.Outs[a] == nil { rec.Outs[a] = oldrec.Outs[a] } }`
                        (`old = none`: the record had been deleted because nothing was left)
-/
import GocoinV.Model.UtxoRec
namespace GocoinV.UtxoRec

def spendOuts : List Bool → List (Option Out) → List (Option Out)
  | m :: ms, o :: os => (if m then none else o) :: spendOuts ms os
  | _, os => os

def undoOuts : List Bool → List (Option Out) → List (Option Out)
  | m :: ms, o :: os => (if m then o else none) :: undoOuts ms os
  | _, os => os.map fun _ => none

def spend (mask : List Bool) (r : Rec) : Rec := { r with outs := spendOuts mask r.outs }

def undoOf (mask : List Bool) (r : Rec) : Rec := { r with outs := undoOuts mask r.outs }

/-- `oldrec.Outs[a]` is an index expression: a shorter old record makes Go panic (`none`) -/
def mergeOuts : List (Option Out) → List (Option Out) → Option (List (Option Out))
  | [], _ => some []
  | some o :: us, [] => (mergeOuts us []).bind fun t => if us.all Option.isSome then some (some o :: t) else none
  | none :: _, [] => none
  | u :: us, o :: os => (mergeOuts us os).map fun t => (match u with | some x => some x | none => o) :: t

/-- `UndoBlockTxs` for one undo record: the record that is serialised into the map -/
def mergeUndo (u : Rec) (old : Option Rec) : Option Rec :=
  match old with
  | none => some u
  | some o => (mergeOuts u.outs o.outs).map fun outs => { u with outs := outs }

/-! ### the loader's ring of pack buffers (NewUnspentDb): a producer (file reader) fills pack number `sent` in
    buffer `sent % B` and sends full packs through a channel of capacity `C`; ONE consumer goroutine receives a
    pack and walks it (inserting into the maps). -/

structure Ring where
  /-- packs sent into the channel so far = number of the pack the reader is filling now -/
  sent : Nat
  /-- packs the consumer has taken out of the channel -/
  recv : Nat
  /-- packs the consumer has completely walked -/
  done : Nat
deriving DecidableEq, Repr

inductive RingStep (C : Nat) : Ring → Ring → Prop
  /-- `ch <- recs` completes (room in the channel); the reader turns to the next buffer -/
  | send (s : Ring) (h : s.sent - s.recv < C) : RingStep C s { s with sent := s.sent + 1 }
  /-- `recs := <-ch` (the consumer is between two packs) -/
  | recv (s : Ring) (h1 : s.recv < s.sent) (h2 : s.recv = s.done) : RingStep C s { s with recv := s.recv + 1 }
  /-- the `for _, r := range recs` loop of the consumer ends -/
  | finish (s : Ring) (h : s.done < s.recv) : RingStep C s { s with done := s.done + 1 }

inductive RingReach (C : Nat) : Ring → Prop
  | init : RingReach C ⟨0, 0, 0⟩
  | step {s t : Ring} : RingReach C s → RingStep C s t → RingReach C t

/-- the reader writes into buffer `sent % B`; pack `j` (not completely walked yet: `done ≤ j < sent`) lives in
    buffer `j % B` -/
def Ring.Safe (B : Nat) (s : Ring) : Prop := ∀ j, s.done ≤ j → j < s.sent → j % B ≠ s.sent % B

end GocoinV.UtxoRec
