/-
  Model.ScriptCompress — script.IsP2KH / IsP2SH / IsP2PK / CompressScript / DecompressScript
  (lib/script/misc.go). Core-only, executable.

  The two places where the Go code calls into secp256k1 are PARAMETERS of the model (`KeyOps`):
    * `valid65 k`  = `pk.ParsePubkey(k) && pk.IsValid()` for a 65-byte `k` with `k[0] = 4`
    * `expand33 v` = the 65 bytes `GetPublicKey` writes after `pk.ParsePubkey(v)` for a 33-byte `v`
                     with `v[0] ∈ {2,3}`
  Theorems are stated for every `KeyOps` satisfying explicitly named hypotheses. The oracle runs the
  model with `mathKeys`: the same two functions written as plain arithmetic mod p on the raw 256-bit
  coordinate values (what the 5x52 field code computes up to representation: `set_b32_limit` range check,
  `IsValid` compares normalised values, `Sqrt` is `a^((p+1)/4)`, `GetPublicKey` normalises).
-/
import GocoinV.Base.Bytes
namespace GocoinV.ScriptCompress

structure KeyOps where
  valid65 : Bytes → Bool
  expand33 : Bytes → Bytes

/-- Go `s[i]` where the index is known to be in range from a preceding length test -/
@[inline] def at' (s : Bytes) (i : Nat) : UInt8 := s.getD i 0

/-- Go `copy(dst[0:n], src)` into a zeroed destination: the first `n` bytes of `src`, zero padded. -/
def copyN (n : Nat) (src : Bytes) : Bytes :=
  src.take n ++ List.replicate (n - src.length) 0

def isP2KH (s : Bytes) : Bool :=
  s.length == 25 && at' s 0 == 0x76 && at' s 1 == 0xa9 && at' s 2 == 0x14 &&
    at' s 23 == 0x88 && at' s 24 == 0xac

def isP2SH (s : Bytes) : Bool :=
  s.length == 23 && at' s 0 == 0xa9 && at' s 1 == 0x14 && at' s 22 == 0x87

/-- `IsP2PK`: `some key` = `(true, key)`, `none` = `(false, nil)`. -/
def isP2PK (K : KeyOps) (s : Bytes) : Option Bytes :=
  if s.length == 35 && at' s 0 == 33 && at' s 34 == 0xac && (at' s 1 == 0x02 || at' s 1 == 0x03) then
    some ((s.drop 1).take 33)
  else if s.length == 67 && at' s 0 == 65 && at' s 66 == 0xac && at' s 1 == 0x04 then
    if K.valid65 ((s.drop 1).take 65) then some ((s.drop 1).take 65) else none
  else none

/-- `CompressScript`: `none` = the nil slice (script is stored verbatim). -/
def compress (K : KeyOps) (s : Bytes) : Option Bytes :=
  if isP2KH s then some (0x00 :: (s.drop 3).take 20)
  else if isP2SH s then some (0x01 :: (s.drop 2).take 20)
  else match isP2PK K s with
    | some pk =>
      let t := at' pk 0
      let t' := if t == 0x04 then t ||| (at' pk 64 &&& 0x01) else t
      some (t' :: (pk.drop 1).take 32)
    | none => none

inductive DRes where
  | ok (s : Bytes)
  | nil
  | panic
  deriving DecidableEq, Repr

/-- `DecompressScript(data)`; `panic` = index/slice out of range (the slice passed by the record
    decoders has exactly `ComprScrLen[data[0]]` bytes, so this only matters for direct calls). -/
def decompress (K : KeyOps) (data : Bytes) : DRes :=
  match data with
  | [] => .panic
  | t :: rest =>
    if t == 0x00 then
      if data.length < 21 then .panic
      else .ok ([0x76, 0xa9, 20] ++ rest.take 20 ++ [0x88, 0xac])
    else if t == 0x01 then
      .ok ([0xa9, 20] ++ copyN 20 rest ++ [0x87])
    else if t == 0x02 || t == 0x03 then
      .ok (33 :: copyN 33 data ++ [0xac])
    else if t == 0x04 || t == 0x05 then
      .ok (65 :: K.expand33 ((t - 2) :: copyN 32 rest) ++ [0xac])
    else .nil

/-- `utxo.ComprScrLen` -/
def comprScrLen : List Nat := [21, 21, 33, 33, 33, 33]

/-! ### `mathKeys`: the two secp256k1 calls as arithmetic mod p -/

/-- the field prime 2^256 - 2^32 - 977 -/
def P : Nat := 0xFFFFFFFFFFFFFFFFFFFFFFFFFFFFFFFFFFFFFFFFFFFFFFFFFFFFFFFEFFFFFC2F

/-- square-and-multiply with a structural bit counter (kernel friendly) -/
def powModGo (m : Nat) : Nat → Nat → Nat → Nat → Nat
  | 0, _, _, acc => acc
  | f+1, b, e, acc =>
    if e = 0 then acc
    else powModGo m f (b * b % m) (e / 2) (if e % 2 = 1 then acc * b % m else acc)

def powMod (b e m : Nat) : Nat := powModGo m 256 (b % m) e (1 % m)

/-- `ParsePubkey(k) && IsValid()` for `k = 04 ‖ X ‖ Y` (lib/secp256k1/xy.go after commit 06ea4281):
    both raw coordinates below p (`set_b32_limit`) and `Y² ≡ X³ + 7 (mod p)`. -/
def mathValid65 (k : Bytes) : Bool :=
  let x := beVal ((k.drop 1).take 32)
  let y := beVal ((k.drop 33).take 32)
  x < P && y < P && (y * y) % P == (x * x * x + 7) % P

/-- the same test WITHOUT the range check — `ParsePubkey` as it was before commit 06ea4281
    (`SetB32` does not reduce, `IsValid` compares normalised values). Kept to state why the range
    check is needed for losslessness (Props.C10.script_roundtrip_needs_canonical). -/
def legacyValid65 (k : Bytes) : Bool :=
  let x := beVal ((k.drop 1).take 32)
  let y := beVal ((k.drop 33).take 32)
  (y * y) % P == (x * x * x + 7) % P

/-- `ParsePubkey(v)` (= `SetXO(X, v[0]==3)`; its result is ignored by `DecompressScript`) then
    `GetPublicKey(out[0:65])` -/
def mathExpand33 (v : Bytes) : Bytes :=
  let x := beVal ((v.drop 1).take 32)
  let c := (x * x * x + 7) % P
  let y0 := powMod c ((P + 1) / 4) P
  let y := if (y0 % 2 == 1) != (at' v 0 == 0x03) then (P - y0) % P else y0
  0x04 :: (beBytes 32 (x % P) ++ beBytes 32 y)

def mathKeys : KeyOps := { valid65 := mathValid65, expand33 := mathExpand33 }
def legacyKeys : KeyOps := { valid65 := legacyValid65, expand33 := mathExpand33 }

end GocoinV.ScriptCompress
