/-
  Model.AddrWif — the STRING level of private-key (WIF) addresses for C15:
  lib/btc/wallet.go `DecodePrivateAddr` / `(*PrivateAddr).String`.

  C14 owns the full model of these two functions (Model/HD.lean: `HD.decodePrivateAddr`,
  `HD.privAddrString`, with the public key derivation behind `NewPrivateAddr`). C15 is about the
  string ↔ (version, key, compressed) codec only, so this file isolates exactly that part —
  what `DecodePrivateAddr` hands to `NewPrivateAddr`, and what `String()` writes for such a
  triple — and Proofs/C15Wif.lean proves that C14's definitions factor through it
  (`decodePrivateAddr_factors`, `privAddrString_factors`), so the theorems of Props/C15 are
  about the same executable definitions that C14's oracle runs.
-/
import GocoinV.Model.HD
namespace GocoinV.AddrWif
open HD

/-- the bytes `String()` hashes: version, key, and the byte 01 for a compressed public key -/
def payload (ver : UInt8) (key : Bytes) (compr : Bool) : Bytes :=
  if compr then ver :: (key ++ [1]) else ver :: key

/-- `(*PrivateAddr).String()` for (Version, Key, IsCompressed()) -/
def encode (C : WalletCrypto) (ver : UInt8) (key : Bytes) (compr : Bool) : Bytes :=
  let buf := payload ver key compr
  Base58.encode (buf ++ (C.shaHash buf).take 4)

/-- `DecodePrivateAddr` up to the call of `NewPrivateAddr`: the (version, key, compressed) triple
    handed over, or the error returned. Statement by statement as in the Go code: 37 ≤ len ≤ 38,
    checksum over all but the last 4 bytes, a 38-byte payload must have byte 33 = 01 (the guard added by the
    `fix:` commit for finding `wif-flag-byte-unchecked`), key = pkb[1:33],
    compressed = (len == 38 && pkb[33] == 1). -/
def decode (C : WalletCrypto) (s : Bytes) : Except WifErr (UInt8 × Bytes × Bool) :=
  match Base58.decode s with
  | none => .error .b58
  | some pkb =>
    if pkb.length < 37 then .error .short
    else if pkb.length > 38 then .error .long
    else if (C.shaHash (pkb.take (pkb.length - 4))).take 4 ≠ pkb.drop (pkb.length - 4) then .error .checksum
    else if pkb.length = 38 ∧ pkb.getD 33 0 ≠ 1 then .error .flag
    else .ok (pkb.headD 0, (pkb.drop 1).take 32, decide (pkb.length = 38 ∧ pkb.getD 33 0 = 1))

/-- the rule of Bitcoin Core's `DecodeSecret` (and, since the fix, of gocoin): a 34-byte body ends in 01 -/
def canonicalFlag (pkb : Bytes) : Bool := pkb.length = 37 ∨ pkb.getD 33 0 = 1

end GocoinV.AddrWif
