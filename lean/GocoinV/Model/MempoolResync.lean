/-
  Model.MempoolResync — the two "resync" edits of the correspondence oracle (Oracle/C12.lean: `ringorder`, `setorder`)
  as total functions on the model state.

  The Go code walks maps in an unspecified order in two places (the batch of REPLACED records pushed to the reject
  ring, ties in the fee order of buildSortedList).  After such a step the harness tells the oracle the order gocoin
  chose; the oracle adopts it when it is one of the orders the model allows:

    `ringorder s ks` : `ks` must be a permutation of the occupied ring slots; the occupied slots get the observed order,
                       the zeroed (`none`) slots stay where they are;
    `setorder K s ks`: the list must not be dirty, `ks` must be a permutation of the pool keys in which every flagged
                       parent stands before its child; the sorted list becomes `ks` with the ranks buildSortedList /
                       reindexEverything would give (SORT_START, +step, …); the ghost flag `rankWrap` is raised when
                       these ranks do not fit (as `reindexAll` does).

  These edits are outside `Mempool.step`; Proofs/C12Resync.lean shows that both preserve every invariant the C12
  theorems carry (`Full`, `RejInv`, `SortInvP`).  Core Lean only.
-/
import GocoinV.Model.Mempool
namespace GocoinV.Mempool

/-- executable permutation test (core `List.isPerm`: `List.isPerm_iff : l₁.isPerm l₂ ↔ l₁.Perm l₂`) -/
def isPerm (a b : List Nat) : Bool := List.isPerm a b

/-- put the observed order into the occupied slots of the ring, keeping the zeroed slots where they are -/
def refill : List (Option Nat) → List Nat → List (Option Nat)
  | [], _ => []
  | none :: r, ks => none :: refill r ks
  | some _ :: r, k :: ks => some k :: refill r ks
  | some x :: r, [] => some x :: refill r []

/-- the loop of `parentsFirstKeys`: `seen` = the elements already passed, `l` = the whole list -/
def parentsFirstGo (K : Keys) (s : State) (l : List Nat) : List Nat → List Nat → Bool
  | _, [] => true
  | seen, b :: r =>
    (match s.pool.get? b with
     | none => false
     | some t => (memParents K t).all fun p => seen.contains p || !l.contains p) && parentsFirstGo K s l (b :: seen) r

/-- every element is pooled and every flagged parent that is in the list sits before its child -/
def parentsFirstKeys (K : Keys) (s : State) (l : List Nat) : Bool := parentsFirstGo K s l [] l

/-- adopt the observed order of the reject ring; `none` = refused (not a permutation of the occupied slots) -/
def ringorder (s : State) (ks : List Nat) : Option State :=
  if isPerm (s.ring.filterMap id) ks then some { s with ring := refill s.ring ks } else none

/-- adopt the observed sorted list; `none` = refused (list dirty / not a parents-first permutation of the pool keys) -/
def setorder (K : Keys) (s : State) (ks : List Nat) : Option State :=
  if !s.sortDirty && isPerm (s.pool.map (·.1)) ks && parentsFirstKeys K s ks then
    some { s with sorted := ks, ranks := rankFrom s.sortStep SORT_START ks,
                  rankWrap := s.rankWrap || !rankRoom s.sortStep ks.length }
  else none

end GocoinV.Mempool
