/-
  Model.Alloc — model of gocoin's UTXO memory allocator (lib/others/memory: memory.go, malloc.go,
  free.go, defrag.go, slots.go, mmap_unix.go).  Core-only, executable (oracle_c20 runs it).

  What is modelled, and how
  * Addresses: a shared slot is `(page#, slot#)`, its bytes are
    `[headerSize + slot#·slotSize, headerSize + (slot#+1)·slotSize)` of that 1 MiB page
    (`slotLo/slotHi`); a private mapping is its own id.  `mmap` is ASSUMED to return fresh,
    zero-filled, 1 MiB-aligned pages: ids come from the counter `nextPage` and are never reused.
  * Page header: `cls, evac, brk, used, free, freeList` (per-page free list, head first).  The page
    chain `prev/next/firstPage/lastPage` is the list `plist` (first … last) of the class.
  * The global free list `a.lists[class]` is the list `glist` (head first).  Next to these abstract lists
    the state carries the POINTER LAYER `heap` (section "pointer layer" below): every free slot's
    node.prev/next/prevInPage/nextInPage, every page header's prev/next/freeList, lists/firstPage/lastPage,
    updated by exactly the link writes of the code (hPush/hPop/hUnlinkG/hPurge/hLinkPage/hUnlinkPage read
    only pointers).  `Props.C20.rep_inv` proves that the pointer layer always spells the abstract lists, so the
    decisions the code takes by reading pointers are the ones the list model takes; the harness compares
    every link field with the real allocator's memory.  The node writes are additionally kept as `clobber`s of
    the slot memory of exactly the slots whose node fields are written (the slot itself, old list heads, list
    neighbours), so that "a live allocation keeps its bytes" is a real statement about these writes.
  * Slot memory: the three slice-header words `data,len,cap` and the payload as an abstract value
    `val : Option V` (`none` = unspecified bytes).  A free slot's node overlays all three words and
    payload bytes 0..7 (`nodeNextInPageOff = sliceHdrLen`), hence `junk`.
  * `uint16` header counters and `uint32` class counters are modelled as `Nat`; `Props.C20.counters_fit`
    shows that the uint16 HEADER fields stay below 2^16 under the invariant (cap ≤ 65535 from the generated
    table).  The uint32 CLASS counters (freeSlots, pageCount) are not bounded by any theorem: a wrap needs
    2^32 free slots of one class (≥ ~390 GB mapped) and is assumed away.
  * Ghost state: `live` (allocations handed out and not yet freed, with the value last written by the
    owner) and `relog` (the relocate callbacks of the last defrag pass).  The owner's `relocate` callback
    is modelled as "replace the old pointer by the new one".
  * Each Malloc/Free body runs under the per-class mutex (the private path touches only atomics and its
    own mapping), so one `Op` = one atomic step and `run` over an arbitrary op list covers every
    interleaving of such steps.  Memory-level races are outside the model.  Defrag runs exclusively
    (as the code requires); its classes are processed one after the other here, in the code by one
    goroutine per class on disjoint per-class state.
  * `sort.Slice` in defragClass is not stable: which pages are evacuated among equally used ones is
    not determined by the source.  `defragClass` therefore takes the evacuation order as an argument
    and checks it against the selection rule (`legalChoice`); the theorems hold for every legal choice.
-/
import Std.Data.HashMap
import GocoinV.Gen.MemClasses

namespace GocoinV.Alloc
open GocoinV.Gen.MemClasses

/-! ### finite maps (thin wrapper over Std.HashMap with exactly three laws) -/

structure KMap (κ : Type) (α : Type) [BEq κ] [Hashable κ] where
  m : Std.HashMap κ α

namespace KMap
variable {κ α : Type} [BEq κ] [Hashable κ]
def empty : KMap κ α := ⟨{}⟩
def get? (m : KMap κ α) (k : κ) : Option α := m.m[k]?
def set (m : KMap κ α) (k : κ) (v : α) : KMap κ α := ⟨m.m.insert k v⟩
def del (m : KMap κ α) (k : κ) : KMap κ α := ⟨m.m.erase k⟩
def size (m : KMap κ α) : Nat := m.m.size
def has (m : KMap κ α) (k : κ) : Bool := (m.get? k).isSome

@[simp] theorem get?_empty (k : κ) : (empty : KMap κ α).get? k = none := by
  simp [empty, get?]
@[simp] theorem size_empty : (empty : KMap κ α).size = 0 := by simp [empty, size]

variable [DecidableEq κ] [LawfulBEq κ] [LawfulHashable κ]
theorem get?_set (m : KMap κ α) (k a : κ) (v : α) :
    (m.set k v).get? a = if k = a then some v else m.get? a := by
  simp only [set, get?, Std.HashMap.getElem?_insert, beq_iff_eq]
theorem get?_del (m : KMap κ α) (k a : κ) :
    (m.del k).get? a = if k = a then none else m.get? a := by
  simp only [del, get?, Std.HashMap.getElem?_erase, beq_iff_eq]
omit [DecidableEq κ] in
theorem size_set (m : KMap κ α) (k : κ) (v : α) :
    (m.set k v).size = if (m.get? k).isSome then m.size else m.size + 1 := by
  simp only [set, size, get?, Std.HashMap.size_insert]
  by_cases h : k ∈ m.m
  · simp [h]
  · simp [h]
omit [DecidableEq κ] in
theorem size_del (m : KMap κ α) (k : κ) :
    (m.del k).size = if (m.get? k).isSome then m.size - 1 else m.size := by
  simp only [del, size, get?, Std.HashMap.size_erase]
  by_cases h : k ∈ m.m
  · simp [h]
  · simp [h]
end KMap

/-! ### geometry (from the generated constants) -/

def pageSize : Nat := 2 ^ pageSizeLog
def pageAvail : Nat := pageSize - headerSize
/-- `sizeClassSlotSize` after `init()` has added `sizeIncrease` to every entry -/
def slotSizes : List Nat := rawSlotSizes.map (· + sizeIncrease)
def nClasses : Nat := slotSizes.length
def slotSize (c : Nat) : Nat := slotSizes.getD c 0
/-- `a.cap[class] = uint32(pageAvail) / sizeClassSlotSize[class]` -/
def capOf (c : Nat) : Nat := pageAvail / slotSize c
/-- `a.MaxSharedSize = sizeClassSlotSize[len-1]` -/
def maxShared : Nat := slotSizes.getLast?.getD 0
/-- `a.classIdx[n]`: the first class whose slot size is ≥ n (defined for n ≤ maxShared) -/
def classOf (n : Nat) : Nat := slotSizes.findIdx (fun v => decide (n ≤ v))
/-- assumed `os.Getpagesize()` (the harness checks it) -/
def osPageSize : Nat := 4096
/-- `roundup(n, m)` for a power of two m -/
def roundup (n m : Nat) : Nat := (n + m - 1) / m * m
def minFreePagesFrom : Nat := (defragFromWasteMB * 2 ^ 20) / pageSize
def minFreePagesTo : Nat := (defragToWasteMB * 2 ^ 20) / pageSize

/-- first byte of slot i (relative to its page) and one past its last byte -/
def slotLo (c i : Nat) : Nat := headerSize + i * slotSize c
def slotHi (c i : Nat) : Nat := headerSize + (i + 1) * slotSize c

/-! ### pointer layer: the doubly linked lists as the code stores them

  Every free slot is reinterpreted as a `node {prev, next, prevInPage, nextInPage}`; every page header has
  `{prev, next, freeList}`; the allocator has `lists[class]`, `firstPage[class]`, `lastPage[class]`.
  Pointers are `Option` (0 = none); a slot pointer is `(page#, slot#)`.  The functions below perform
  exactly the link writes of the code and READ ONLY POINTERS (never the abstract lists of `ClassSt` /
  `Page`): `Proofs/C20Ptr.lean` proves that the pointer structure always spells the abstract lists
  (`Rep`), so that what the code reads through pointers is what the list model says.  Which back-link
  writes the source contains is regenerated from the source on every run (`Gen.MemClasses.lnk*`). -/

abbrev Slot := Nat × Nat

structure Node where
  prev : Option Slot := none
  next : Option Slot := none
  prevInPage : Option Slot := none
  nextInPage : Option Slot := none

structure PHdr where
  prev : Option Nat := none
  next : Option Nat := none
  freeList : Option Slot := none

structure PCls where
  lists : Option Slot := none   -- a.lists[class]
  first : Option Nat := none    -- a.firstPage[class]
  last : Option Nat := none     -- a.lastPage[class]

structure Heap where
  node : KMap Slot Node := KMap.empty
  hdr : KMap Nat PHdr := KMap.empty
  cls : KMap Nat PCls := KMap.empty

namespace Heap
def N (g : Heap) (x : Slot) : Node := (g.node.get? x).getD {}
def H (g : Heap) (p : Nat) : PHdr := (g.hdr.get? p).getD {}
def C (g : Heap) (c : Nat) : PCls := (g.cls.get? c).getD {}
def setN (g : Heap) (x : Slot) (f : Node → Node) : Heap := { g with node := g.node.set x (f (g.N x)) }
def setH (g : Heap) (p : Nat) (f : PHdr → PHdr) : Heap := { g with hdr := g.hdr.set p (f (g.H p)) }
def setC (g : Heap) (c : Nat) (f : PCls → PCls) : Heap := { g with cls := g.cls.set c (f (g.C c)) }
end Heap

/-- optional write (a statement under `if ptr != 0 { … }`) -/
def onSome {α : Type} (o : Option α) (g : Heap) (f : α → Heap → Heap) : Heap :=
  match o with | some x => f x g | none => g

/-- uintptrFreeShared, the two push-front blocks (global list, per-page list) for slot x of class c -/
def hPush (g : Heap) (c : Nat) (x : Slot) : Heap :=
  -- p.prev = 0 ; if next := a.lists[class]; next != 0 { p.next = next; next.prev = p } else { p.next = a.lists[class] }
  let old := (g.C c).lists
  let g := g.setN x (fun n => { n with prev := none, next := old })
  let g := onSome old g (fun nx g => if lnkPushGlobalBack then g.setN nx (fun n => { n with prev := some x }) else g)
  -- a.lists[class] = p
  let g := g.setC c (fun k => { k with lists := some x })
  -- p.prevInPage = 0 ; if nextInPage := header.freeList; … { p.nextInPage = nextInPage; nextInPage.prevInPage = p } else { p.nextInPage = 0 }
  let oldp := (g.H x.1).freeList
  let g := g.setN x (fun n => { n with prevInPage := none, nextInPage := oldp })
  let g := onSome oldp g (fun nx g => if lnkPushPageBack then g.setN nx (fun n => { n with prevInPage := some x }) else g)
  -- header.freeList = p
  g.setH x.1 (fun h => { h with freeList := some x })

/-- uintptrMallocShared / classMalloc, "Allocate from free list": pop `a.lists[class]`, unlink it from
    its page's list.  Returns the heap unchanged when the list is empty (the code would fault). -/
def hPop (g : Heap) (c : Nat) : Heap :=
  match (g.C c).lists with
  | none => g
  | some n =>
    let nn := g.N n
    -- a.lists[class] = n.next ; if next != 0 { next.prev = 0 }
    let g := g.setC c (fun k => { k with lists := nn.next })
    let g := onSome nn.next g (fun nx g => if lnkPopGlobalBack then g.setN nx (fun m => { m with prev := none }) else g)
    match nn.prevInPage with
    | none =>
      -- header.freeList = nextInPage ; if nextInPage != 0 { nextInPage.prevInPage = 0 }
      let g := g.setH n.1 (fun h => { h with freeList := nn.nextInPage })
      onSome nn.nextInPage g (fun q g => if lnkPopPageBack then g.setN q (fun m => { m with prevInPage := none }) else g)
    | some pp =>
      -- prevInPage.nextInPage = nextInPage ; if nextInPage != 0 { nextInPage.prevInPage = prevInPage }
      let g := g.setN pp (fun m => { m with nextInPage := nn.nextInPage })
      onSome nn.nextInPage g (fun q g => if lnkPopPageBack then g.setN q (fun m => { m with prevInPage := some pp }) else g)

/-- "Remove from global free list" (defragClass, and the page-release branch of uintptrFreeShared):
    unlink node n using its own prev/next. -/
def hUnlinkG (g : Heap) (c : Nat) (n : Slot) : Heap :=
  let nn := g.N n
  match nn.prev with
  | none =>
    let g := g.setC c (fun k => { k with lists := nn.next })
    onSome nn.next g (fun nx g => if lnkPurgeBack then g.setN nx (fun m => { m with prev := none }) else g)
  | some pv =>
    let g := g.setN pv (fun m => { m with next := nn.next })
    onSome nn.next g (fun nx g => if lnkPurgeBack then g.setN nx (fun m => { m with prev := some pv }) else g)

/-- follow a `next`-like field: the nodes visited, at most `fuel` of them -/
def walk {α : Type} (nx : α → Option α) : Nat → Option α → List α
  | 0, _ => []
  | _, none => []
  | f + 1, some x => x :: walk nx f (nx x)

/-- defragClass, first loop, one page: `for n := header.freeList; n != 0; { nextInPage := n.nextInPage;
    <unlink n from the global list>; n = nextInPage }` -/
def hPurgeWalk (c : Nat) : Nat → Option Slot → Heap → Heap
  | 0, _, g => g
  | _, none, g => g
  | f + 1, some n, g => hPurgeWalk c f (g.N n).nextInPage (hUnlinkG g c n)

/-- … followed by `header.freeList = 0` -/
def hPurge (g : Heap) (c pg fuel : Nat) : Heap :=
  (hPurgeWalk c fuel (g.H pg).freeList g).setH pg (fun h => { h with freeList := none })

/-- linkSharedPage / newSharedPageLocal: the fresh (zeroed) page p becomes the last page of class c -/
def hLinkPage (g : Heap) (c p : Nat) : Heap :=
  let k := g.C c
  -- header.prev = a.lastPage[class] ; header.next = 0
  let g := g.setH p (fun _ => { prev := if lnkLinkPagePrev then k.last else none, next := none, freeList := none })
  -- if a.lastPage[class] != 0 { lastPage.next = p } ; if a.firstPage[class] == 0 { firstPage = p } ; lastPage = p
  let g := onSome k.last g (fun l g => g.setH l (fun h => { h with next := some p }))
  g.setC c (fun k => { k with first := if k.first.isNone then some p else k.first, last := some p })

/-- defragClass, "Remove from page linked list" -/
def hUnlinkPage (g : Heap) (c pg : Nat) : Heap :=
  let h := g.H pg
  let g := match h.prev with
    | some q => g.setH q (fun m => { m with next := h.next })
    | none => g.setC c (fun k => { k with first := h.next })
  match h.next with
  | some q => if lnkUnlinkPageBack then g.setH q (fun m => { m with prev := h.prev }) else g
  | none => g.setC c (fun k => { k with last := h.prev })

/-! ### state -/

inductive Addr where
  | sh (pg : Nat) (i : Nat)   -- slot i of shared page pg
  | pv (id : Nat)             -- private mapping id
  deriving DecidableEq, Hashable, Repr

structure SlotMem (V : Type) where
  data : Option Addr   -- SliceHeader.Data: "payload of this slot" (none = not a valid pointer)
  len : Nat            -- SliceHeader.Len
  cap : Nat            -- SliceHeader.Cap
  val : Option V       -- the first `len` payload bytes (none = unspecified)

/-- what a slot holds after node fields were written into it -/
def junk {V : Type} : SlotMem V := ⟨none, 0, 0, none⟩

structure Page where
  cls : Nat
  evac : Bool := false
  brk : Nat := 0
  used : Nat := 0
  free : Nat
  freeList : List Nat := []
  /-- defragClass local `freeSlotsArr[idx]` (meaningful while `evac`) -/
  saved : List Nat := []
  /-- defragClass local: index of the next slot of the evacuation loop (meaningful while `evac`) -/
  scan : Nat := 0

structure ClassSt where
  cur : Option Nat := none            -- a.pages[class]
  glist : List (Nat × Nat) := []      -- a.lists[class], head first
  plist : List Nat := []              -- firstPage … lastPage
  pageCount : Nat := 0
  freeSlots : Nat := 0

structure LiveRec (V : Type) where
  size : Nat
  val : Option V

inductive Err where
  | notLive            -- caller error: Free / write of something that is not a live allocation
  | pageReleaseBranch  -- Free reached the `used == 0` branch (shown unreachable for live pointers)
  | dispatchMismatch   -- Free's Cap test sent a pointer down the wrong path (shown unreachable)
  | illegalChoice      -- the evacuation order offered to defragClass violates the selection rule
  | corrupt            -- the code would dereference nil / an unmapped page here (shown unreachable)
  deriving DecidableEq, Repr

structure State (V : Type) where
  cls : KMap Nat ClassSt := KMap.empty
  pages : KMap Nat Page := KMap.empty
  mem : KMap Addr (SlotMem V) := KMap.empty
  privs : KMap Nat Nat := KMap.empty      -- private mapping id ↦ mapped size
  nextPage : Nat := 1
  allocs : Int := 0                        -- a.Allocs
  bytes : Int := 0                         -- a.Bytes without the pages waiting in the page cache
  privMmaps : Int := 0
  sharedMmaps : Int := 0
  live : KMap Addr (LiveRec V) := KMap.empty   -- ghost
  relog : List (Addr × Addr) := []             -- ghost: (old,new) of every relocate call, latest first
  heap : Heap := {}                            -- the pointer representation of glist / freeList / plist

def init {V : Type} : State V := {}

variable {V : Type}

def State.K (s : State V) (c : Nat) : ClassSt := (s.cls.get? c).getD {}
def State.isLive (s : State V) (a : Addr) : Prop := (s.live.get? a).isSome = true

/-- node fields written into these slots -/
def clobber (m : KMap Addr (SlotMem V)) : List Addr → KMap Addr (SlotMem V)
  | [] => m
  | a :: as => clobber (m.set a junk) as

/-- the list neighbours of (the first occurrence of) x in l: the nodes whose link fields an unlink of
    x writes.  Free lists are duplicate-free, so the first occurrence is the only one. -/
def nbrs : List Nat → Nat → List Nat
  | a :: b :: rest, x =>
    if a = x then [b]
    else if b = x then a :: (match rest with | c :: _ => [c] | [] => [])
    else nbrs (b :: rest) x
  | _, _ => []

/-- the slot at the head of a global free list (its `prev` field is written when the head changes) -/
def headAddrs : List (Nat × Nat) → List Addr
  | [] => []
  | (q, j) :: _ => [Addr.sh q j]

/-- the slot at the head of the per-page free list of page p -/
def headSlots (p : Nat) : List Nat → List Addr
  | [] => []
  | j :: _ => [Addr.sh p j]

/-! ### Malloc -/

/-- mmapSharedPage + linkSharedPage (Malloc) / newSharedPageLocal (defrag): a fresh zeroed page
    becomes the current page of class c and is appended to the class's page list. -/
def newPage (s : State V) (c : Nat) : State V :=
  let p := s.nextPage
  let k := s.K c
  { s with
    nextPage := p + 1
    pages := s.pages.set p { cls := c, free := capOf c }
    cls := s.cls.set c { k with plist := k.plist ++ [p], pageCount := k.pageCount + 1,
                                freeSlots := k.freeSlots + capOf c, cur := some p }
    bytes := s.bytes + pageSize
    sharedMmaps := s.sharedMmaps + 1
    heap := hLinkPage s.heap c p }

/-- uintptrMallocShared / classMalloc after the "need a new page" test: take a slot of class c.
    Returns the new state and the slot (page, index). -/
def allocSlot (s : State V) (c : Nat) : Except Err (State V × Nat × Nat) :=
  let k := s.K c
  match k.cur with
  | some p =>
    match s.pages.get? p with
    | none => .error .corrupt
    | some h =>
      let h' := { h with used := h.used + 1, brk := h.brk + 1, free := h.free - 1 }
      let k' := { k with freeSlots := k.freeSlots - 1,
                         cur := if h.brk + 1 = capOf c then none else some p }
      .ok ({ s with pages := s.pages.set p h', cls := s.cls.set c k' }, p, h.brk)
  | none =>
    match k.glist with
    | [] => .error .corrupt
    | (p, i) :: rest =>
      match s.pages.get? p with
      | none => .error .corrupt
      | some h =>
        let h' := { h with freeList := h.freeList.erase i, used := h.used + 1, free := h.free - 1 }
        let k' := { k with glist := rest, freeSlots := k.freeSlots - 1 }
        -- node writes: next.prev := 0 ; per-page neighbours' prevInPage / nextInPage
        let wr := headAddrs rest ++ (nbrs h.freeList i).map (Addr.sh p)
        .ok ({ s with pages := s.pages.set p h', cls := s.cls.set c k', mem := clobber s.mem wr, heap := hPop s.heap c }, p, i)

/-- a slot of class c is handed out as a slice with the given Len/Cap and payload value:
    `if lists==0 && pages==0 {new page}; allocSlot; write header`, ghost: it becomes live. -/
def allocLive (s : State V) (c size cap : Nat) (val : Option V) : Except Err (State V × Addr) :=
  let k := s.K c
  let s1 := if k.glist.isEmpty && k.cur.isNone then newPage s c else s
  match allocSlot s1 c with
  | .error e => .error e
  | .ok (s2, p, i) =>
    let a := Addr.sh p i
    .ok ({ s2 with mem := s2.mem.set a ⟨some a, size, cap, val⟩,
                   live := s2.live.set a ⟨size, val⟩ }, a)

/-- Allocator.Malloc(size) -/
def malloc (s : State V) (size : Nat) : Except Err (State V × Addr) :=
  let s := { s with allocs := s.allocs + 1 }
  let n := size + sliceHdrLen
  if n > maxShared then
    -- getSizeClass = -1: uintptrMallocPrivate
    let m := roundup n osPageSize
    let id := s.nextPage
    let a := Addr.pv id
    .ok ({ s with nextPage := id + 1, bytes := s.bytes + m, privMmaps := s.privMmaps + 1,
                  privs := s.privs.set id m,
                  mem := s.mem.set a ⟨some a, size, m - sliceHdrLen, none⟩,
                  live := s.live.set a ⟨size, none⟩ }, a)
  else
    let c := classOf n
    allocLive s c size (slotSize c - sliceHdrLen) none

/-! ### Free -/

/-- uintptrFreeShared (`used ≥ 1` branch) / classFree on slot (p,i) whose page header is h. -/
def freeSlot (s : State V) (p i : Nat) (h : Page) : State V :=
  let c := h.cls
  let k := s.K c
  if h.evac then
    { s with pages := s.pages.set p { h with used := h.used - 1, free := h.free + 1 },
             cls := s.cls.set c { k with freeSlots := k.freeSlots + 1 } }
  else
    -- node writes: p.{prev,next,prevInPage,nextInPage}; old global head .prev; old page head .prevInPage
    let wr := [Addr.sh p i] ++ headAddrs k.glist ++ headSlots p h.freeList
    { s with pages := s.pages.set p { h with used := h.used - 1, free := h.free + 1, freeList := i :: h.freeList },
             cls := s.cls.set c { k with freeSlots := k.freeSlots + 1, glist := (p, i) :: k.glist },
             mem := clobber s.mem wr, heap := hPush s.heap c (p, i) }

/-- Allocator.Free(b) -/
def free (s : State V) (a : Addr) : Except Err (State V) :=
  if (s.live.get? a).isNone then .error .notLive else
  let s := { s with allocs := s.allocs - 1, live := s.live.del a }
  match s.mem.get? a with
  | none => .error .corrupt
  | some m =>
    if m.cap + sliceHdrLen > maxShared then
      -- uintptrFreePrivate
      match a with
      | .sh _ _ => .error .dispatchMismatch
      | .pv id =>
        .ok { s with bytes := s.bytes - (m.cap + sliceHdrLen), privMmaps := s.privMmaps - 1,
                     privs := s.privs.del id, mem := s.mem.del a }
    else
      match a with
      | .pv _ => .error .dispatchMismatch
      | .sh p i =>
        match s.pages.get? p with
        | none => .error .corrupt
        | some h =>
          if h.used ≥ 1 then .ok (freeSlot s p i h) else .error .pageReleaseBranch

/-- the owner writes value v into its live allocation a (not allocator code) -/
def write (s : State V) (a : Addr) (v : V) : Except Err (State V) :=
  match s.live.get? a, s.mem.get? a with
  | some l, some m => .ok { s with mem := s.mem.set a { m with val := some v },
                                   live := s.live.set a { l with val := some v } }
  | _, _ => .error .notLive

/-! ### Defragmentation -/

def usedOf (s : State V) (p : Nat) : Nat := match s.pages.get? p with | some h => h.used | none => 0

def insertSorted (x : Nat) : List Nat → List Nat
  | [] => [x]
  | y :: r => if x ≤ y then x :: y :: r else y :: insertSorted x r
def sortNat (l : List Nat) : List Nat := l.foldr insertSorted []

/-- how many pages the selection loop of defragClass takes, given the `used` values in ascending
    order and the records freed so far: pages are appended until `recordsToFree ≥ target`. -/
def selCount (cap target : Nat) : List Nat → Nat → Nat
  | [], _ => 0
  | u :: r, acc => if acc + (cap - u) ≥ target then 1 else 1 + selCount cap target r (acc + (cap - u))

/-- the `used` values of the pages the selection loop takes (independent of how `sort.Slice` orders
    equally used pages) -/
def selUsed (s : State V) (cap target : Nat) (nonFull : List Nat) : List Nat :=
  let su := sortNat (nonFull.map (usedOf s))
  su.take (selCount cap target su 0)

/-- does the offered evacuation order agree with "sort by used ascending, take pages until
    recordsToFree ≥ target (or all non-full pages)"?  Distinct non-full pages whose `used` values are
    exactly those of the sorted prefix. -/
def legalChoice (s : State V) (cap target : Nat) (nonFull ev : List Nat) : Bool :=
  ev.Nodup && ev.all (nonFull.contains ·) && (ev.map (usedOf s) == selUsed s cap target nonFull)

/-- first loop over pagesToEvacuate, one page: mark evacuating, drop it as current page, remember its
    free slots, unlink them from the global free list, clear the per-page list. -/
def beginEvac (s : State V) (c pg : Nat) : Except Err (State V) :=
  match s.pages.get? pg with
  | none => .error .corrupt
  | some h =>
    if h.cls ≠ c ∨ h.evac then .error .illegalChoice else
    let k := s.K c
    -- unlinking node n from the global list writes its neighbours' prev/next: over-approximated by
    -- "every node of the global list of this class may be written"
    let wr := k.glist.map (fun (q, j) => Addr.sh q j)
    .ok { s with pages := s.pages.set pg { h with evac := true, saved := h.freeList, freeList := [], scan := 0 },
                 cls := s.cls.set c { k with cur := if k.cur = some pg then none else k.cur,
                                             glist := k.glist.filter (fun (q, _) => q ≠ pg) },
                 mem := clobber s.mem wr, heap := hPurge s.heap c pg h.brk }

/-- one iteration of the slot loop of page pg (`slotAddr` = slot `scan`): a slot not in the saved
    free set is relocated: classMalloc, copy header + Len bytes, relocate callback, classFree. -/
def moveNext (s : State V) (c pg : Nat) : Except Err (State V) :=
  match s.pages.get? pg with
  | none => .error .corrupt
  | some h =>
    if !h.evac || h.scan ≥ h.brk then .error .corrupt else
    let i := h.scan
    if h.saved.contains i then
      .ok { s with pages := s.pages.set pg { h with scan := i + 1 } }
    else
      let old := Addr.sh pg i
      match s.mem.get? old, s.live.get? old with
      | some m, some l =>
        -- newSlice.Len/Cap := oldSlice.Len/Cap ; copy(*ns,*os) ; Data := newAddr+24
        match allocLive s c m.len m.cap m.val with
        | .error e => .error e
        | .ok (s1, new) =>
          -- relocate(os, ns): the owner replaces its pointer; then classFree(old)
          let s2 := { s1 with live := (s1.live.del old).set new ⟨l.size, l.val⟩,
                              relog := (old, new) :: s1.relog }
          match s2.pages.get? pg with
          | none => .error .corrupt
          | some h2 => .ok (freeSlot s2 pg i { h2 with scan := i + 1 })
      | _, _ => .error .corrupt

def iter {σ : Type} (f : σ → Except Err σ) : Nat → σ → Except Err σ
  | 0, s => .ok s
  | n + 1, s => match f s with
    | .error e => .error e
    | .ok s' => iter f n s'

/-- after the slot loop: unlink the page from the class's page list, fix the counters, unmap. -/
def endEvac (s : State V) (c pg : Nat) : Except Err (State V) :=
  match s.pages.get? pg with
  | none => .error .corrupt
  | some h =>
    if h.scan ≠ h.brk || !h.evac || h.cls ≠ c then .error .corrupt else
    let k := s.K c
    .ok { s with pages := s.pages.del pg,
                 cls := s.cls.set c { k with plist := k.plist.erase pg, pageCount := k.pageCount - 1,
                                             freeSlots := k.freeSlots - h.free,
                                             cur := if k.cur = some pg then none else k.cur },
                 bytes := s.bytes - pageSize, sharedMmaps := s.sharedMmaps - 1,
                 heap := hUnlinkPage s.heap c pg }

def evacPage (s : State V) (c pg : Nat) : Except Err (State V) :=
  match s.pages.get? pg with
  | none => .error .corrupt
  | some h =>
    match iter (fun s => moveNext s c pg) h.brk s with
    | .error e => .error e
    | .ok s' => endEvac s' c pg

def foldE {σ α : Type} (f : σ → α → Except Err σ) : σ → List α → Except Err σ
  | s, [] => .ok s
  | s, a :: as => match f s a with
    | .error e => .error e
    | .ok s' => foldE f s' as

/-- defragClass(class) with the evacuation order `ev` -/
def defragClass (s : State V) (c : Nat) (ev : List Nat) : Except Err (State V) :=
  let k := s.K c
  let cap := capOf c
  let potential := k.freeSlots / cap
  let nonFull := k.plist.filter (fun p => usedOf s p < cap)
  if nonFull.isEmpty then (if ev.isEmpty then .ok s else .error .illegalChoice) else
  let target := cap * (potential - minFreePagesTo)
  -- `recordsToMove` does not depend on the order among equally used pages
  let recordsToMove := (selUsed s cap target nonFull).sum
  if recordsToMove = 0 then (if ev.isEmpty then .ok s else .error .illegalChoice) else
  if !legalChoice s cap target nonFull ev then .error .illegalChoice else
  match foldE (fun s pg => beginEvac s c pg) s ev with
  | .error e => .error e
  | .ok s1 => foldE (fun s pg => evacPage s c pg) s1 ev

/-- does DefragAllImproved start defragClass for class c? -/
def wantsDefrag (s : State V) (c : Nat) : Bool :=
  decide ((s.K c).freeSlots / capOf c > minFreePagesFrom)

/-- DefragAllImproved: every class whose free slots exceed the threshold; `choice` gives the
    evacuation order per class. -/
def defragAll (s : State V) (choice : List (Nat × List Nat)) : Except Err (State V) :=
  foldE (fun s c =>
      if wantsDefrag s c then defragClass s c ((choice.lookup c).getD [])
      else if ((choice.lookup c).getD []).isEmpty then .ok s else .error .illegalChoice)
    { s with relog := [] } (List.range nClasses)

/-! ### traces -/

inductive Op (V : Type) where
  | malloc (size : Nat)
  | free (a : Addr)
  | write (a : Addr) (v : V)
  | defrag (choice : List (Nat × List Nat))

def step (s : State V) : Op V → Except Err (State V)
  | .malloc size => match malloc s size with
    | .ok (s', _) => .ok s'
    | .error e => .error e
  | .free a => free s a
  | .write a v => write s a v
  | .defrag ch => defragAll s ch

def run (s : State V) (ops : List (Op V)) : Except Err (State V) := foldE step s ops

end GocoinV.Alloc
