/-
  Model.GroupNum (C08) — `Number.rsh_x` of lib/secp256k1/num.go as a definition of its own, so that the oracle can
  run it directly against the real function (`rshx` op). `wnafAux` (Model/Group.lean) uses the same two expressions
  inline (`word := x % 2^w`, `x := x >>> w`), `ecmultGen` uses the non-negative special case `(a / 16^j) % 16`.
  `Number.split` and `XYZ.precomp` are `split` / `XYZ.precomp` of Model/Group.lean (what `ecmult` itself calls).
  Core-only.
-/
import GocoinV.Model.Group

namespace GocoinV.C08

/-- `Number.rsh_x(bits)`: returns the low `bits` bits of the number in two's complement (for a negative number the
    bits of the infinite two's-complement expansion, i.e. the Euclidean remainder mod 2^bits) and shifts the number
    right arithmetically (big.Int.Rsh rounds toward −∞). Result: (returned word, new value of the receiver). -/
def rshX (x : Int) (bits : Nat) : Int × Int := (x % (2 ^ bits : Int), x >>> bits)

end GocoinV.C08
