/-
  Model.Retarget — lib/chain/chain_diff.go `Chain.GetNextWorkRequired` (mainnet, testnet3, testnet4
  branches) and lib/chain/chain_tree.go `BlockTreeNode.GetMedianTimePast`.
  A `*BlockTreeNode` together with its `Parent` links is modelled as the list of nodes from the node
  itself back to the root (the last element is the one with `Parent == nil`); `[]` is the nil pointer.
  Go panics (nil dereference / index out of range) are `none`.  `MorePOW` (float) is not modelled.
  Constants come from Gen/ConsensusConsts.lean (regenerated from the source on every run). Core-only.
-/
import GocoinV.Model.Target
import GocoinV.Gen.ConsensusConsts
namespace GocoinV.Retarget
open GocoinV.Target GocoinV.Gen.ConsensusConsts

/-- the three header fields of a `BlockTreeNode` that the rules read, plus its `Height` field -/
structure Node where
  height : Nat   -- uint32
  ts : Nat       -- Timestamp(): header[68:72]
  bits : Nat     -- Bits(): header[72:76]
  deriving Repr, DecidableEq, Inhabited

/-- the parts of `Chain` consulted by `GetNextWorkRequired` -/
structure Params where
  maxPowBits : Nat        -- Consensus.MaxPOWBits
  maxPowValue : Int       -- Consensus.MaxPOWValue
  testnet : Bool          -- ch.testnet():  Genesis.Hash[0] == 0x43
  testnet4 : Bool         -- ch.testnet4(): Genesis.Hash[1] == 0xf0 (tested independently of testnet())
  deriving Repr

/-- `for prv.Parent != nil && prv.Height%targetInterval != 0 && prv.Bits() == MaxPOWBits { prv = prv.Parent }; prv.Bits()`
    — "the last non-special-min-difficulty-rules block". -/
def walkBack (maxPowBits : Nat) : List Node → Nat
  | [] => 0
  | [n] => n.bits
  | n :: m :: rest =>
    if n.height % targetInterval ≠ 0 ∧ n.bits = maxPowBits then walkBack maxPowBits (m :: rest) else n.bits

/-- the clamp of `actualTimespan` (an int64; no wrap is possible for uint32 timestamps) -/
def clampTimespan (span : Int) : Int :=
  let s := if span < (retargetMinTimespan : Int) then (retargetMinTimespan : Int) else span
  if s > (retargetMaxTimespan : Int) then (retargetMaxTimespan : Int) else s

/-- `bnewbn = SetCompact(base) * timespan / POWRetargetSpam` (big.Int.Div = Euclidean division),
    capped by `MaxPOWValue`, through `GetCompact`. -/
def retarget (maxPowValue : Int) (base : Nat) (span : Int) : Nat :=
  let bn := setCompact base * clampTimespan span / (POWRetargetSpam : Int)
  let bn := if bn > maxPowValue then maxPowValue else bn
  getCompact bn

/-- `Chain.GetNextWorkRequired(lst, ts)`; `chain` = lst and its ancestors, `none` = the Go code panics. -/
def getNextWorkRequired (p : Params) (chain : List Node) (ts : Nat) : Option Nat :=
  match chain with
  | [] => none
  | [_] => some p.maxPowBits                       -- lst.Parent == nil
  | lst :: anc =>
    if ((lst.height + 1) % 2^32) % targetInterval ≠ 0 then
      if p.testnet then
        if ts > (lst.ts + testnetMinDiffGap) % 2^32 then some p.maxPowBits   -- uint32 sum wraps
        else some (walkBack p.maxPowBits (lst :: anc))
      else some lst.bits
    else
      match (lst :: anc)[targetInterval - 1]? with  -- 2015 × `prv = prv.Parent`, then prv.Timestamp()
      | none => none
      | some first =>
        let span : Int := (lst.ts : Int) - (first.ts : Int)
        let base := if p.testnet4 then walkBack p.maxPowBits (lst :: anc) else lst.bits
        some (retarget p.maxPowValue base span)

/-! ### GetMedianTimePast -/

def insertSorted (x : Nat) : List Nat → List Nat
  | [] => [x]
  | y :: ys => if x ≤ y then x :: y :: ys else y :: insertSorted x ys

/-- `sort.Ints` on the collected slice (any correct sort gives the same list) -/
def isort : List Nat → List Nat
  | [] => []
  | x :: xs => insertSorted x (isort xs)

/-- the timestamps collected by the loop: at most `MedianTimeSpan` nodes walking `Parent` -/
def lastTimes (chain : List Node) : List Nat := (chain.take MedianTimeSpan).map (·.ts)

/-- `pindex.GetMedianTimePast()`: sorted[len/2]; a nil receiver indexes `pmedian[11]` and panics. -/
def getMedianTimePast (chain : List Node) : Option Nat :=
  let l := lastTimes chain
  (isort l)[l.length / 2]?

end GocoinV.Retarget
