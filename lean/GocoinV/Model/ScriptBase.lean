/-
  Model.ScriptBase — shared definitions of the C01 model (lib/script + lib/btc helpers), core-only.

  * `Res`      : outcome of a piece of Go code: `ok a` (ran to the end), `fail` (the Go function returned
                 false), `panic` (a Go run-time panic: pop on an empty stack, index out of range, explicit
                 `panic(...)`), `need q` (driver only: the crypto table handed over by the harness has no
                 answer for query `q`; unreachable for total oracles, see `TotalOracles`).
  * `Oracles`  : ALL cryptography used by script verification.  Hashes are total functions; signature
                 hashes / signature checks / the taproot tweak check are `Option`-valued so that the oracle
                 driver can run the very same definitions against a partial table (`none` ⇒ `need`).
                 Theorems quantify over `TotalOracles` (plain total functions) through `.toOracles`.
  * scrStack helpers of lib/script/stack.go (`bts2int`, `bts2int_ext`, `bts2bool`, `is_minimal`, `pushInt`)
  * lib/btc/funcs.go: `GetOpcode`, `IsPushOnly`, `IsWitnessProgram`, `IsPayToScript`, `WritePutLen`, `PutVlen`,
    `VLenSize`
  * lib/script/misc.go: `IsValidSignatureEncoding`, `IsDefinedHashtypeSignature`, `IsLowS`
    (+ secp256k1 `Signature.ParseBytes`), `CheckSignatureEncoding`, `CheckPubKeyEncoding`,
    `checkMinimalPush`, `CheckSequence`
  Go `int`/`int64` values are modelled as `Int`/`Nat` without wrap-around: every number that reaches the
  arithmetic comes from ≤ 5 stack bytes, so |v| < 2^40 and no int64 operation of the code can overflow.
-/
import GocoinV.Base.Bytes
namespace GocoinV.Script

/-! ## outcomes -/

/-- a crypto query the oracle table could not answer (driver only) -/
inductive Query where
  | sigL (scriptCode : Bytes) (hashType : Nat)
  | sigW (scriptCode : Bytes) (hashType : Nat)
  | sigT (annexHash : Option Bytes) (tapleaf : Bytes) (codesepPos : Nat) (hashType : Nat) (script : Bool)
  | ecdsa (pk sig hash : Bytes)
  | schnorr (pk sig msg : Bytes)
  | tweak (q p k : Bytes) (parity : Bool)
  deriving DecidableEq, Repr

inductive Res (α : Type) where
  | ok (a : α)
  | fail
  | panic
  | need (q : Query)
  deriving Repr

namespace Res
@[inline] def bind {α β : Type} (x : Res α) (f : α → Res β) : Res β :=
  match x with
  | ok a => f a
  | fail => fail
  | panic => panic
  | need q => need q
instance : Monad Res where
  pure := ok
  bind := Res.bind
@[simp] theorem pure_eq {α} (a : α) : (pure a : Res α) = ok a := rfl
@[simp] theorem ok_bind {α β} (a : α) (f : α → Res β) : (ok a >>= f) = f a := rfl
@[simp] theorem fail_bind {α β} (f : α → Res β) : ((fail : Res α) >>= f) = fail := rfl
@[simp] theorem panic_bind {α β} (f : α → Res β) : ((panic : Res α) >>= f) = panic := rfl
@[simp] theorem need_bind {α β} (q) (f : α → Res β) : ((need q : Res α) >>= f) = need q := rfl
/-- lift an oracle answer -/
@[inline] def ask {α : Type} (q : Query) : Option α → Res α
  | some a => ok a
  | none => need q
@[simp] theorem ask_some {α} (q) (a : α) : ask q (some a) = ok a := rfl
instance {α} [DecidableEq α] : DecidableEq (Res α) := by
  intro a b; cases a <;> cases b <;> simp <;> exact inferInstance
end Res

/-! ## oracles -/

structure Oracles where
  sha256 : Bytes → Bytes
  ripemd160 : Bytes → Bytes
  sha1 : Bytes → Bytes
  /-- `btc.Rimp160AfterSha256` -/
  hash160 : Bytes → Bytes
  /-- `btc.Sha2Sum` -/
  hash256 : Bytes → Bytes
  /-- `Tx.SignatureHash(scriptCode, idx, hashType)` for the (tx, idx) under verification -/
  sigHashLegacy : Bytes → Nat → Option Bytes
  /-- `Tx.WitnessSigHash(scriptCode, amount, idx, hashType)` -/
  sigHashWitV0 : Bytes → Nat → Option Bytes
  /-- `Tx.TaprootSigHash(execdata{annex hash, tapleaf hash, codeseparator pos}, idx, hashType, script)` -/
  sigHashTap : Option Bytes → Bytes → Nat → Nat → Bool → Option Bytes
  /-- `secp256k1.Verify(pubkey, sig(with hash-type byte), hash)` -/
  ecdsaVerify : Bytes → Bytes → Bytes → Option Bool
  /-- `btc.SchnorrVerify(pkey, sig, msg)` -/
  schnorrVerify : Bytes → Bytes → Bytes → Option Bool
  /-- `btc.CheckPayToContract(q, p, k, parity)` -/
  tweakCheck : Bytes → Bytes → Bytes → Bool → Option Bool

/-- a total instance: what the theorems quantify over -/
structure TotalOracles where
  sha256 : Bytes → Bytes
  ripemd160 : Bytes → Bytes
  sha1 : Bytes → Bytes
  hash160 : Bytes → Bytes
  hash256 : Bytes → Bytes
  sigHashLegacy : Bytes → Nat → Bytes
  sigHashWitV0 : Bytes → Nat → Bytes
  sigHashTap : Option Bytes → Bytes → Nat → Nat → Bool → Bytes
  ecdsaVerify : Bytes → Bytes → Bytes → Bool
  schnorrVerify : Bytes → Bytes → Bytes → Bool
  tweakCheck : Bytes → Bytes → Bytes → Bool → Bool

def TotalOracles.toOracles (T : TotalOracles) : Oracles where
  sha256 := T.sha256
  ripemd160 := T.ripemd160
  sha1 := T.sha1
  hash160 := T.hash160
  hash256 := T.hash256
  sigHashLegacy := fun a b => some (T.sigHashLegacy a b)
  sigHashWitV0 := fun a b => some (T.sigHashWitV0 a b)
  sigHashTap := fun a b c d e => some (T.sigHashTap a b c d e)
  ecdsaVerify := fun a b c => some (T.ecdsaVerify a b c)
  schnorrVerify := fun a b c => some (T.schnorrVerify a b c)
  tweakCheck := fun a b c d => some (T.tweakCheck a b c d)

/-! ## flags and constants (lib/script/script.go) -/

def VER_P2SH : Nat := 1 <<< 0
def VER_STRICTENC : Nat := 1 <<< 1
def VER_DERSIG : Nat := 1 <<< 2
def VER_LOW_S : Nat := 1 <<< 3
def VER_NULLDUMMY : Nat := 1 <<< 4
def VER_SIGPUSHONLY : Nat := 1 <<< 5
def VER_MINDATA : Nat := 1 <<< 6
def VER_BLOCK_OPS : Nat := 1 <<< 7
def VER_CLEANSTACK : Nat := 1 <<< 8
def VER_CLTV : Nat := 1 <<< 9
def VER_CSV : Nat := 1 <<< 10
def VER_WITNESS : Nat := 1 <<< 11
def VER_WITNESS_PROG : Nat := 1 <<< 12
def VER_MINIMALIF : Nat := 1 <<< 13
def VER_NULLFAIL : Nat := 1 <<< 14
def VER_WITNESS_PUBKEY : Nat := 1 <<< 15
def VER_CONST_SCRIPTCODE : Nat := 1 <<< 16
def VER_TAPROOT : Nat := 1 <<< 17
def VER_DIS_TAPVER : Nat := 1 <<< 18
def VER_DIS_SUCCESS : Nat := 1 <<< 19
def VER_DIS_PUBKEYTYPE : Nat := 1 <<< 20

/-- `(ver_flags & bit) != 0` -/
@[inline] def has (flags bit : Nat) : Bool := (flags &&& bit) != 0

def MAX_SCRIPT_SIZE : Nat := 10000
def MAX_SCRIPT_ELEMENT_SIZE : Nat := 520
def MAX_STACK_SIZE : Nat := 1000
def MAX_OPS : Nat := 201
def MAX_PUBKEYS : Nat := 20
def LOCKTIME_THRESHOLD : Nat := 500000000
def SEQUENCE_LOCKTIME_DISABLE_FLAG : Nat := 1 <<< 31
def SEQUENCE_LOCKTIME_TYPE_FLAG : Nat := 1 <<< 22
def SEQUENCE_LOCKTIME_MASK : Nat := 0x0000ffff
def ANNEX_TAG : UInt8 := 0x50
def VALIDATION_WEIGHT_OFFSET : Nat := 50
def VALIDATION_WEIGHT_PER_SIGOP_PASSED : Int := 50
def TAPROOT_LEAF_MASK : UInt8 := 0xfe
def TAPROOT_LEAF_TAPSCRIPT : UInt8 := 0xc0
def TAPROOT_CONTROL_BASE_SIZE : Nat := 33
def TAPROOT_CONTROL_NODE_SIZE : Nat := 32
def TAPROOT_CONTROL_MAX_NODE_COUNT : Nat := 128
def TAPROOT_CONTROL_MAX_SIZE : Nat :=
  TAPROOT_CONTROL_BASE_SIZE + TAPROOT_CONTROL_NODE_SIZE * TAPROOT_CONTROL_MAX_NODE_COUNT

inductive SigVersion where
  | base | witnessV0 | taproot | tapscript
  deriving DecidableEq, Repr

/-- what script verification reads from the spending transaction and the checker -/
structure TxCtx where
  version : Nat          -- tx.Version (uint32)
  lockTime : Nat         -- tx.Lock_time (uint32)
  sequence : Nat         -- tx.TxIn[idx].Sequence (uint32)
  idx : Nat              -- checker.Idx      } read only by the reference semantics (BIP341: SIGHASH_SINGLE
  nOuts : Nat            -- len(tx.TxOut)    } without a matching output has no digest)
  sigScript : Bytes      -- tx.TxIn[idx].ScriptSig
  witness : List Bytes   -- tx.SegWit[idx] (in push order), [] when tx.SegWit == nil
  deriving Repr

/-- the data stack; HEAD = TOP (Go keeps the top at the end of the slice) -/
abbrev Stack := List Bytes

/-! ## lib/script/stack.go -/

/-- `scrStack.pop`: panics on the empty stack -/
def pop : Stack → Res (Bytes × Stack)
  | [] => .panic
  | x :: r => .ok (x, r)

/-- `scrStack.top(-k)` (k ≥ 1): Go indexes `data[len-k]`, index out of range panics -/
def top (s : Stack) (k : Nat) : Res Bytes :=
  if k = 0 then .panic else
  match s[k - 1]? with
  | some x => .ok x
  | none => .panic

/-- the integer a byte string denotes, without length check (common tail of `bts2int`/`bts2int_ext`):
    little-endian magnitude, the top bit of the last byte is the sign; `-0` is `0`. -/
def numOfBytes (d : Bytes) : Int :=
  match d.getLast? with
  | none => 0
  | some l =>
    let m : Nat := leVal (d.dropLast ++ [l &&& 0x7f])
    if (l &&& 0x80) != 0 then -(m : Int) else (m : Int)

def nMaxNumSize : Nat := 4

/-- `bts2int`: panics when longer than 4 bytes -/
def bts2int (d : Bytes) : Res Int :=
  if d.length > nMaxNumSize then .panic else .ok (numOfBytes d)

/-- `is_minimal` -/
def isMinimal (d : Bytes) : Bool :=
  match d.reverse with
  | [] => true
  | l :: rest =>
    if (l &&& 0x7f) == 0 then
      match rest with
      | [] => false
      | l2 :: _ => (l2 &&& 0x80) != 0
    else true

/-- `bts2int_ext(d, max_bytes, forcemin)` -/
def bts2intExt (d : Bytes) (maxBytes : Nat) (forcemin : Bool) : Res Int :=
  if d.length > maxBytes then .panic
  else if d.length = 0 then .ok 0
  else if forcemin && !isMinimal d then .panic
  else .ok (numOfBytes d)

/-- `bts2bool` -/
def bts2bool (d : Bytes) : Bool :=
  match d.reverse with
  | [] => false
  | l :: rest => rest.any (· != 0) || (l &&& 0x7f) != 0

/-- minimal little-endian bytes of a natural number (`for val != 0 { d = append(d, byte(val)); val >>= 8 }`);
    the loop runs until the value is 0, so the fuel is the value itself (n < 256^n: never exhausted) -/
def natLEAux : Nat → Nat → Bytes
  | 0, _ => []
  | f+1, n => if n = 0 then [] else UInt8.ofNat (n % 256) :: natLEAux f (n / 256)
def natLE (n : Nat) : Bytes := natLEAux n n

/-- the byte string `scrStack.pushInt(val)` pushes -/
def intBytes (v : Int) : Bytes :=
  if v = 0 then [] else
  let d := natLE v.natAbs
  match d.getLast? with
  | none => []
  | some l =>
    if v < 0 then
      if (l &&& 0x80) != 0 then d ++ [0x80] else d.dropLast ++ [l ||| 0x80]
    else if (l &&& 0x80) != 0 then d ++ [0x00] else d

/-- the byte string `pushBool` pushes -/
def boolBytes (b : Bool) : Bytes := if b then [1] else []

/-- `popInt(check_for_min)` -/
def popInt (chk : Bool) (s : Stack) : Res (Int × Stack) := do
  let (d, s') ← pop s
  if chk && !isMinimal d then .panic
  else
    let v ← bts2int d
    pure (v, s')

/-- `topInt(-k, check_for_min)` -/
def topInt (s : Stack) (k : Nat) (chk : Bool) : Res Int := do
  let d ← top s k
  if chk && !isMinimal d then .panic else bts2int d

/-- `btc.VLenSize` -/
def vlenSize (n : Nat) : Nat :=
  if n < 0xfd then 1 else if n < 0x10000 then 3 else if n < 0x100000000 then 5 else 9

/-- `scrStack.GetSerializeSize` -/
def serializeSize (s : List Bytes) : Nat :=
  vlenSize s.length + (s.map fun d => vlenSize d.length + d.length).sum

/-! ## lib/btc/funcs.go -/

/-- one decoded instruction: opcode, push value (`none` = Go nil: not a push opcode), bytes consumed -/
structure Op where
  opcode : Nat
  push : Option Bytes
  n : Nat
  deriving Repr, DecidableEq

/-- `btc.GetOpcode`; `none` = the error return -/
def getOpcode (b : Bytes) : Option Op :=
  match b with
  | [] => none
  | c :: t =>
    let opcode := c.toNat
    if opcode ≤ 0x4e then
      let hdr : Option (Nat × Nat) :=
        if opcode < 0x4c then some (opcode, 1)
        else if opcode = 0x4c then (if 1 ≤ t.length then some (leVal (t.take 1), 2) else none)
        else if opcode = 0x4d then (if 2 ≤ t.length then some (leVal (t.take 2), 3) else none)
        else (if 4 ≤ t.length then some (leVal (t.take 4), 5) else none)
      match hdr with
      | none => none
      | some (size, pc) =>
        if pc + size > t.length + 1 then none
        else some ⟨opcode, some ((t.drop (pc - 1)).take size), pc + size⟩
    else some ⟨opcode, none, 1⟩

/-- `btc.IsPushOnly` (fuel = script length; every instruction consumes ≥ 1 byte) -/
def isPushOnlyAux : Nat → Bytes → Bool
  | 0, scr => scr.isEmpty
  | f+1, scr =>
    if scr.isEmpty then true else
    match getOpcode scr with
    | none => false
    | some op => if op.opcode > 0x60 then false else isPushOnlyAux f (scr.drop op.n)
def isPushOnly (scr : Bytes) : Bool := isPushOnlyAux scr.length scr

/-- `btc.DecodeOP_N` -/
def decodeOpN (opcode : Nat) : Nat := if opcode = 0 then 0 else opcode - 0x50

/-- `btc.IsWitnessProgram`: `none` = program nil -/
def isWitnessProgram (scr : Bytes) : Option (Nat × Bytes) :=
  if scr.length < 4 || scr.length > 42 then none else
  let b0 := (scr.getD 0 0).toNat
  if b0 != 0 && (b0 < 0x51 || b0 > 0x60) then none else
  if (scr.getD 1 0).toNat + 2 = scr.length then some (decodeOpN b0, scr.drop 2) else none

/-- `btc.IsPayToScript` -/
def isPayToScript (scr : Bytes) : Bool :=
  scr.length == 23 && scr.getD 0 0 == 0xa9 && scr.getD 1 0 == 0x14 && scr.getD 22 0 == 0x87

/-- bytes `btc.WritePutLen(w, data_len)` writes (`< OP_PUSHDATA1`, as in the source since the fix of the 76-byte slip) -/
def writePutLen (n : Nat) : Bytes :=
  if n < 0x4c then [UInt8.ofNat n]
  else if n < 0x100 then [0x4c, UInt8.ofNat n]
  else if n < 0x10000 then 0x4d :: leBytes 2 n
  else 0x4e :: leBytes 4 n

/-- bytes `btc.PutVlen(buf, vl)` writes (no 9-byte form; value truncated to uint32) -/
def putVlen (vl : Nat) : Bytes :=
  let uvl := vl % 2^32
  if uvl < 0xfd then [UInt8.ofNat uvl]
  else if uvl < 0x10000 then 0xfd :: leBytes 2 uvl
  else 0xfe :: leBytes 4 uvl

/-- bytes `btc.WriteVlen(w, n)` writes -/
def writeVlen (n : Nat) : Bytes := CompactSize.putULe n

/-! ## lib/script/misc.go -/

@[inline] def at' (b : Bytes) (i : Nat) : UInt8 := b.getD i 0

/-- `IsValidSignatureEncoding` (every index is guarded by the length checks before it) -/
def isValidSignatureEncoding (sig : Bytes) : Bool :=
  let len := sig.length
  if len < 9 then false
  else if len > 73 then false
  else if at' sig 0 != 0x30 then false
  else if (at' sig 1).toNat != len - 3 then false
  else
    let lenR := (at' sig 3).toNat
    if 5 + lenR ≥ len then false
    else
      let lenS := (at' sig (5 + lenR)).toNat
      if lenR + lenS + 7 != len then false
      else if at' sig 2 != 0x02 then false
      else if lenR == 0 then false
      else if (at' sig 4 &&& 0x80) != 0 then false
      else if lenR > 1 && at' sig 4 == 0x00 && (at' sig 5 &&& 0x80) == 0 then false
      else if at' sig (lenR + 4) != 0x02 then false
      else if lenS == 0 then false
      else if (at' sig (lenR + 6) &&& 0x80) != 0 then false
      else if lenS > 1 && at' sig (lenR + 6) == 0x00 && (at' sig (lenR + 7) &&& 0x80) == 0 then false
      else true

/-- `IsDefinedHashtypeSignature` -/
def isDefinedHashtypeSignature (sig : Bytes) : Bool :=
  match sig.getLast? with
  | none => false
  | some l =>
    let htype := l &&& (0x80 ^^^ 0xff)
    !(htype < 1 || htype > 3)

/-- `secp256k1.Signature.ParseBytes`: `some (R bytes, S bytes)`; `none` = return -1 -/
def sigParseBytes (sig : Bytes) : Option (Bytes × Bytes) :=
  if sig.length < 5 || at' sig 0 != 0x30 then none else
  let lenr := (at' sig 3).toNat
  if lenr == 0 || 5 + lenr ≥ sig.length || at' sig (lenr + 4) != 0x02 then none else
  let lens := (at' sig (lenr + 5)).toNat
  if lens == 0 || (at' sig 1).toNat != lenr + lens + 4 || lenr + lens + 6 > sig.length || at' sig 2 != 0x02 then none
  else some ((sig.drop 4).take lenr, (sig.drop (6 + lenr)).take lens)

def halfOrder : Nat := 0x7FFFFFFFFFFFFFFFFFFFFFFFFFFFFFFF5D576E7357A4501DDFE92F46681B20A0

/-- `IsLowS` -/
def isLowS (sig : Bytes) : Bool :=
  if !isValidSignatureEncoding sig then false else
  match sigParseBytes sig with
  | none => false
  | some (_, s) => beVal s ≤ halfOrder

/-- `CheckSignatureEncoding` -/
def checkSignatureEncoding (sig : Bytes) (flags : Nat) : Bool :=
  if sig.length == 0 then true
  else if (has flags VER_DERSIG || has flags VER_STRICTENC) && !isValidSignatureEncoding sig then false
  else if has flags VER_LOW_S && !isLowS sig then false
  else if has flags VER_STRICTENC && !isDefinedHashtypeSignature sig then false
  else true

/-- `IsCompressedOrUncompressedPubKey` -/
def isCompressedOrUncompressedPubKey (pk : Bytes) : Bool :=
  if pk.length < 33 then false
  else if at' pk 0 == 0x04 then pk.length == 65
  else if at' pk 0 == 0x02 || at' pk 0 == 0x03 then pk.length == 33
  else false

/-- `IsCompressedPubKey` -/
def isCompressedPubKey (pk : Bytes) : Bool :=
  if pk.length != 33 then false else at' pk 0 == 0x02 || at' pk 0 == 0x03

/-- `CheckPubKeyEncoding` -/
def checkPubKeyEncoding (pk : Bytes) (flags : Nat) (sv : SigVersion) : Bool :=
  if has flags VER_STRICTENC && !isCompressedOrUncompressedPubKey pk then false
  else if has flags VER_WITNESS_PUBKEY && sv == .witnessV0 && !isCompressedPubKey pk then false
  else true

/-- `checkMinimalPush(d, opcode)` -/
def checkMinimalPush (d : Bytes) (opcode : Nat) : Bool :=
  if d.length == 0 then opcode == 0x00
  else if d.length == 1 && at' d 0 ≥ 1 && at' d 0 ≤ 16 then opcode == 0x51 + (at' d 0).toNat - 1
  else if d.length == 1 && at' d 0 == 0x81 then opcode == 0x4f
  else if d.length ≤ 75 then opcode == d.length
  else if d.length ≤ 255 then opcode == 0x4c
  else if d.length ≤ 65535 then opcode == 0x4d
  else true

/-- `CheckSequence(tx, inp, seq)` (seq ≥ 0 at the only call site) -/
def checkSequence (tx : TxCtx) (seq : Nat) : Bool :=
  if tx.version < 2 then false else
  let toseq := tx.sequence
  if (toseq &&& SEQUENCE_LOCKTIME_DISABLE_FLAG) != 0 then false else
  let mask := SEQUENCE_LOCKTIME_TYPE_FLAG ||| SEQUENCE_LOCKTIME_MASK
  let txToSequenceMasked := toseq &&& mask
  let nSequenceMasked := seq &&& mask
  if !((txToSequenceMasked < SEQUENCE_LOCKTIME_TYPE_FLAG && nSequenceMasked < SEQUENCE_LOCKTIME_TYPE_FLAG) ||
       (txToSequenceMasked ≥ SEQUENCE_LOCKTIME_TYPE_FLAG && nSequenceMasked ≥ SEQUENCE_LOCKTIME_TYPE_FLAG)) then false
  else if nSequenceMasked > txToSequenceMasked then false
  else true

/-- `IsOpSuccess` -/
def isOpSuccess (opcode : Nat) : Bool :=
  opcode == 80 || opcode == 98 || (opcode ≥ 126 && opcode ≤ 129) ||
  (opcode ≥ 131 && opcode ≤ 134) || (opcode ≥ 137 && opcode ≤ 138) ||
  (opcode ≥ 141 && opcode ≤ 142) || (opcode ≥ 149 && opcode ≤ 153) ||
  (opcode ≥ 187 && opcode ≤ 254)

/-- `delSig(where, sig)`: (script without the pushes of `sig`, number removed). On a decode error the
    Go function returns what it has copied so far (named results) — the tail is DROPPED. -/
def delSigAux (pat : Bytes) : Nat → Bytes → Bytes → Nat → Bytes × Nat
  | 0, _, res, cnt => (res, cnt)
  | f+1, wh, res, cnt =>
    if wh.isEmpty then (res, cnt) else
    match getOpcode wh with
    | none => (res, cnt)
    | some op =>
      let chunk := wh.take op.n
      if chunk != pat then delSigAux pat f (wh.drop op.n) (res ++ chunk) cnt
      else delSigAux pat f (wh.drop op.n) res (cnt + 1)
/-- the push opcode `delSig` places in front of the signature (`switch { case len(sig) < OP_PUSHDATA1 … }`) -/
def sigPushPrefix (n : Nat) : Bytes :=
  if n < 0x4c then [UInt8.ofNat n]
  else if n ≤ 0xff then [0x4c, UInt8.ofNat n]
  else if n ≤ 0xffff then [0x4d, UInt8.ofNat n, UInt8.ofNat (n >>> 8)]
  else [0x4e, UInt8.ofNat n, UInt8.ofNat (n >>> 8), UInt8.ofNat (n >>> 16), UInt8.ofNat (n >>> 24)]
def delSig (wh sig : Bytes) : Bytes × Nat :=
  delSigAux (sigPushPrefix sig.length ++ sig) wh.length wh [] 0

/-- `lexicographical_compare(d1, d2)` -/
def lexLt : Bytes → Bytes → Bool
  | [], d2 => !d2.isEmpty
  | _ :: _, [] => false
  | a :: r1, b :: r2 => if b < a then false else if a < b then true else lexLt r1 r2

/-- `btc.Hasher(tag)` … `Write(msg)` … `Sum(nil)`: BIP340 tagged hash -/
def taggedHash (O : Oracles) (tag : String) (msg : Bytes) : Bytes :=
  let th := O.sha256 (strBytes tag)
  O.sha256 (th ++ th ++ msg)

end GocoinV.Script
