/-
  Model.Conc — C11: the synchronisation PROTOCOLS of gocoin's concurrent block processing as labelled
  transition systems with an arbitrary scheduler (a label picks which goroutine moves; theorems in
  Props/C11 quantify over ALL label sequences), plus the lock-discipline checker that runs over the
  synchronisation sequences go/cmd/gen_c11 extracts from the source (Gen/ConcFacts.lean).
  Core only; everything here is executable (the oracle runs it).

  (c) Snap  — UnspentDB.Save / save / abortWriting / AbortWriting / HurryUp / Close / CommitBlockTxs
              (lib/utxo/unspent_db.go) with WritingInProgress, the 1-slot channels, writingDone,
              lastFileClosed, the file goroutine and the per-save data/exit channels.
  (a) Fan   — commitTxs script-check fan-out (lib/chain/chain_accept.go).
  (d) Pub   — BlockDB.writeOne publishing ipos last under db.mutex vs BlockGetInternal (lib/chain/blockdb.go).
  (b,e,f)   — order-independence lemmas' subjects: disjoint-key map updates, atomic sums, compute-once caches.
-/
import GocoinV.Gen.ConcFacts
namespace GocoinV.Conc
open GocoinV.ConcEv

/-! ## Lock-discipline checker over the generated sequences -/

inductive Guard where
  /-- guarded by mutex `m` (writes need Lock, reads Lock or RLock); up to `slackR` reads / `slackW` writes
      outside it are tolerated because another theorem orders them (named in the policy table) -/
  | mutex (m : Nat) (slackR slackW : Nat)
  /-- only the spawning goroutine touches it (never inside a `go` body / worker closure) -/
  | mainOnly
  /-- workers use atomic operations only; the spawner reads/writes it plainly only before the first spawn
      or after `wg.Wait()`; `slackW` plain writes by the spawner while workers may run are tolerated -/
  | workers (wg : Nat) (slackW : Nat)
  /-- written only by the spawning goroutine (outside `go` bodies); workers only read -/
  | ownerWrites
  /-- written only by the spawning goroutine and only BEFORE its first spawn (source order); read by anyone -/
  | frozen
  deriving Repr, DecidableEq

structure Chk where
  held : List (Nat × Bool) := []                       -- (mutex, exclusive) held by the current goroutine
  blocks : List (List (Nat × Bool) × Bool) := []      -- saved at `open`: held set, terminated flag
  ctx : List (List (Nat × Bool)) := []                 -- saved at goBegin/fnBegin
  term : Bool := false
  spawned : Bool := false
  waited : List Nat := []
  bad : List (Nat × Bool) := []                        -- unguarded accesses (variable, isWrite)
  deriving Repr

def eraseFirst (p : Nat × Bool) : List (Nat × Bool) → List (Nat × Bool)
  | [] => []
  | q :: r => if q = p then r else q :: eraseFirst p r

/-- what is held on BOTH ways into a join (the block was skipped / the block was executed and fell through): a lock taken
    inside a conditional block is not held after it, an unlock inside it is not undone (pessimistic join; a block that ends in
    `ret` does not reach the join) -/
def meet (before after : List (Nat × Bool)) : List (Nat × Bool) := after.filter (before.contains ·)

def holds (c : Chk) (m : Nat) (excl : Bool) : Bool :=
  c.held.any (fun q => q.1 == m && (q.2 || !excl))

def access (pol : List (Nat × Guard)) (c : Chk) (x : Nat) (w : Bool) : Chk :=
  match pol.lookup x with
  | none => c
  | some (.mutex m _ _) => if holds c m w then c else { c with bad := c.bad ++ [(x, w)] }
  | some .mainOnly => if c.ctx.isEmpty then c else { c with bad := c.bad ++ [(x, w)] }
  | some (.workers wg _) =>
      if !c.ctx.isEmpty then { c with bad := c.bad ++ [(x, w)] }
      else if !c.spawned || c.waited.contains wg then c else { c with bad := c.bad ++ [(x, w)] }
  | some .ownerWrites => if w && !c.ctx.isEmpty then { c with bad := c.bad ++ [(x, w)] } else c
  | some .frozen => if w && (!c.ctx.isEmpty || c.spawned) then { c with bad := c.bad ++ [(x, w)] } else c

def chkStep (pol : List (Nat × Guard)) (c : Chk) : Ev → Chk
  | .lock m => { c with held := (m, true) :: c.held }
  | .rlock m => { c with held := (m, false) :: c.held }
  | .unlock m => { c with held := eraseFirst (m, true) c.held }
  | .runlock m => { c with held := eraseFirst (m, false) c.held }
  | .open => { c with blocks := (c.held, c.term) :: c.blocks, term := false }
  | .close => match c.blocks with
      | [] => c
      | (h, t) :: r => { c with blocks := r, held := if c.term then h else meet h c.held, term := t }
  | .ret => { c with term := true }
  | .goBegin | .fnBegin => { c with ctx := c.held :: c.ctx, held := [] }
  | .goEnd => match c.ctx with
      | [] => c
      | h :: r => { c with ctx := r, held := h, spawned := true, waited := [] }
  | .fnEnd => match c.ctx with
      | [] => c
      | h :: r => { c with ctx := r, held := h }
  | .goCall _ => { c with spawned := true, waited := [] }
  | .wgWait w => { c with waited := w :: c.waited }
  | .rd x => access pol c x false
  | .wr x => access pol c x true
  | _ => c

def unguarded (pol : List (Nat × Guard)) (l : List Ev) : List (Nat × Bool) :=
  (l.foldl (chkStep pol) {}).bad

def countOf (b : List (Nat × Bool)) (x : Nat) (w : Bool) : Nat := (b.filter (· == (x, w))).length

/-- the accesses that exceed what the policy tolerates (empty = disciplined) -/
def excess (pol : List (Nat × Guard)) (l : List Ev) : List (Nat × Bool × Nat) :=
  let b := unguarded pol l
  pol.foldl (fun acc (x, g) =>
    let (sr, sw) := match g with
      | .mutex _ r w => (r, w)
      | .workers _ w => (0, w)
      | _ => (0, 0)
    let acc := if countOf b x false > sr then acc ++ [(x, false, countOf b x false)] else acc
    if countOf b x true > sw then acc ++ [(x, true, countOf b x true)] else acc) []

def disciplined (pol : List (Nat × Guard)) (l : List Ev) : Bool := (excess pol l).isEmpty

/-- every `call f` in `l` happens while mutex `m` is held exclusively -/
def callsHeld (f m : Nat) (l : List Ev) : Bool :=
  (l.foldl (fun (acc : Chk × Bool) e =>
    let ok := match e with
      | .call g => if g = f then acc.2 && holds acc.1 m true else acc.2
      | _ => acc.2
    (chkStep [] acc.1 e, ok)) ({}, true)).2

def indexOf? (p : Ev → Bool) : List Ev → Option Nat
  | [] => none
  | e :: r => if p e then some 0 else (indexOf? p r).map (· + 1)

/-- event `a` occurs, and before the first occurrence of any event satisfying `p` -/
def precedesAll (a : Ev) (p : Ev → Bool) (l : List Ev) : Bool :=
  match indexOf? (· == a) l, indexOf? p l with
  | some i, some j => i < j
  | some _, none => true
  | none, _ => false

/-- nesting depth (number of enclosing `open` … `close` blocks: if / for / switch / select bodies) of the first event equal
    to `a`; `none` if there is none -/
def depthOfFirst (a : Ev) (l : List Ev) : Option Nat :=
  (l.foldl (fun (acc : Nat × Option Nat) e =>
    match acc.2 with
    | some _ => acc
    | none => if e == a then (acc.1, some acc.1)
              else match e with
                | .open => (acc.1 + 1, none)
                | .close => (acc.1 - 1, none)
                | _ => acc) (0, none)).2

/-- `a` occurs, its first occurrence is not inside any conditional block / loop, and no `ret` (return, goto, break, panic)
    precedes it: the straight-line prefix of the function executes it on every path -/
def unconditional (a : Ev) (l : List Ev) : Bool :=
  depthOfFirst a l == some 0 && !((l.takeWhile (· != a)).contains .ret)

open GocoinV.Gen.ConcFacts in
/-- the policy table: function ↦ (shared variable ↦ guard). Names are the CANONICAL names of go/cmd/gen_c11: a field path
    is rooted at the type of the variable it starts from (`UnspentDB.HashMap` whatever the receiver is called), a plain
    local is named by its type (`L:uint32` = the captured, mutated `uint32` local of that function, `L:sync.WaitGroup` = its
    wait group), unexported functions by their role. Locals that a function literal captures and that are written after
    their declaration are recorded automatically and MUST have an entry here (`capturedCovered`).
    Slack entries are justified by:
    * save/UnspentDB.HashMap (3 reads outside the RLocks: two `range db.HashMap` over the fixed array and
      `len(db.HashMap[i])`) and the header reads — `snapshot_atomic` (no mutation can start while the saver is
      between begin and finito); defragMap: `len(db.HashMap)` of the fixed array;
    * writeOne oneBl.ipos (1 read after unlock) — only writeOne writes ipos and there is one writer at a time;
      oneBl.trusted (1 read under disk_access only) — BlockAdd sets it on the same thread that flushes;
    * BlockGetInternal oneBl.* reads after unlock — `pub_read_after_publish` (model (d));
      oneBl.olen (1 read, 1 write outside any lock) — benign same-value cache, see the evidence explanation;
    * BuildTxListExt Block.Txs: only the parsing goroutine writes it (workers read their own pack); the checker walks
      loop bodies once in source order, so stores after a spawn of an earlier iteration are not ordered by it —
      those are left to the race detector runs of the harness; the captured `*btc.Tx` (the coinbase) is stored before
      the first spawn only; Block.BlockWeight / Block.TotalInputs are touched by the parsing goroutine only (the workers
      add to the captured `uint64` atomically) — also when the accumulation is moved into a helper, which is followed. -/
def policy : List (String × List (Nat × Guard)) := [
  ("commitTxs", [(N_L_uint32, .workers N_L_sync_WaitGroup 0),
                 (N_Tx_Spent_outputs, .ownerWrites), (N_Tx_TxOut, .ownerWrites),
                 (N_BlockChanges_DeledTxs, .mainOnly), (N_BlockChanges_UndoData, .mainOnly), (N_BlockChanges_AddList, .mainOnly)]),
  ("save", [(N_UnspentDB_HashMap, .mutex N_UnspentDB_MapMutex_idx 3 0), (N_UnspentDB_LastBlockHeight, .ownerWrites), (N_UnspentDB_LastBlockHash, .ownerWrites)]),
  ("commitBlockTxs", [(N_UnspentDB_LastBlockHeight, .mutex N_UnspentDB_Mutex 0 0), (N_UnspentDB_LastBlockHash, .mutex N_UnspentDB_Mutex 0 0)]),
  ("undoBlockTxs", [(N_UnspentDB_HashMap, .mutex N_UnspentDB_MapMutex_idx 0 0), (N_UnspentDB_DeletedRecords, .mutex N_UnspentDB_MapMutex_idx 0 0),
                    (N_UnspentDB_LastBlockHeight, .mutex N_UnspentDB_Mutex 0 0), (N_UnspentDB_LastBlockHash, .mutex N_UnspentDB_Mutex 0 0)]),
  ("commit", [(N_UnspentDB_HashMap, .mutex N_UnspentDB_MapMutex_idx 0 0)]),
  ("del", [(N_UnspentDB_HashMap, .mutex N_UnspentDB_MapMutex_idx 0 0), (N_UnspentDB_DeletedRecords, .mutex N_UnspentDB_MapMutex_idx 0 0)]),
  ("idle", [(N_UnspentDB_LastBlockHeight, .mutex N_UnspentDB_Mutex 0 0)]),
  ("unspentGet", [(N_UnspentDB_HashMap, .mutex N_UnspentDB_MapMutex_idx 0 0)]),
  ("txPresent", [(N_UnspentDB_HashMap, .mutex N_UnspentDB_MapMutex_idx 0 0)]),
  ("relocate", [(N_UnspentDB_HashMap, .mutex N_UnspentDB_MapMutex_idx 0 0)]),
  ("defragMap", [(N_UnspentDB_HashMap, .mutex N_UnspentDB_MapMutex_idx 1 0), (N_UnspentDB_DeletedRecords, .mutex N_UnspentDB_MapMutex_idx 0 0)]),
  ("writeOne", [(N_oneBl_ipos, .mutex N_BlockDB_mutex 1 0), (N_oneBl_blen, .mutex N_BlockDB_mutex 0 0), (N_oneBl_fpos, .mutex N_BlockDB_mutex 0 0),
                (N_oneBl_datfileidx, .mutex N_BlockDB_mutex 0 0), (N_oneBl_compressed, .mutex N_BlockDB_mutex 0 0), (N_oneBl_snappied, .mutex N_BlockDB_mutex 0 0),
                (N_oneBl_trusted, .mutex N_BlockDB_mutex 1 0), (N_BlockDB_blockIndex, .mutex N_BlockDB_mutex 0 0), (N_BlockDB_datToWrite, .mutex N_BlockDB_mutex 0 0),
                (N_BlockDB_maxidxfilepos, .mutex N_BlockDB_disk_access 0 0), (N_BlockDB_maxdatfilepos, .mutex N_BlockDB_disk_access 0 0),
                (N_BlockDB_maxdatfileidx, .mutex N_BlockDB_disk_access 0 0), (N_BlockDB_blockdata, .mutex N_BlockDB_disk_access 0 0)]),
  ("blockGetInternal", [(N_BlockDB_blockIndex, .mutex N_BlockDB_mutex 0 0), (N_BlockDB_cache, .mutex N_BlockDB_mutex 0 0), (N_oneBl_trusted, .mutex N_BlockDB_mutex 0 0),
                (N_oneBl_ipos, .mutex N_BlockDB_mutex 1 0), (N_oneBl_blen, .mutex N_BlockDB_mutex 2 0), (N_oneBl_fpos, .mutex N_BlockDB_mutex 1 0),
                (N_oneBl_datfileidx, .mutex N_BlockDB_mutex 2 0), (N_oneBl_compressed, .mutex N_BlockDB_mutex 1 0), (N_oneBl_snappied, .mutex N_BlockDB_mutex 1 0),
                (N_oneBl_olen, .mutex N_BlockDB_mutex 1 1)]),
  ("blockAdd", [(N_oneBl_ipos, .mutex N_BlockDB_mutex 0 0), (N_oneBl_trusted, .mutex N_BlockDB_mutex 0 0), (N_BlockDB_blockIndex, .mutex N_BlockDB_mutex 0 0),
                (N_BlockDB_cache, .mutex N_BlockDB_mutex 0 0), (N_BlockDB_datToWrite, .mutex N_BlockDB_mutex 0 0)]),
  ("blockInvalid", [(N_oneBl_ipos, .mutex N_BlockDB_mutex 0 0), (N_oneBl_trusted, .mutex N_BlockDB_mutex 0 0), (N_BlockDB_blockIndex, .mutex N_BlockDB_mutex 0 0),
                (N_BlockDB_cache, .mutex N_BlockDB_mutex 0 0), (N_BlockDB_blockindx, .mutex N_BlockDB_disk_access 0 0)]),
  ("blockTrusted", [(N_oneBl_ipos, .mutex N_BlockDB_mutex 0 0), (N_oneBl_trusted, .mutex N_BlockDB_mutex 0 0), (N_BlockDB_blockIndex, .mutex N_BlockDB_mutex 0 0),
                (N_BlockDB_blockindx, .mutex N_BlockDB_disk_access 0 0)]),
  ("buildTxListExt", [(N_L_uint64, .workers N_L_sync_WaitGroup 0), (N_L_P_btc_Tx, .frozen), (N_Block_Txs, .ownerWrites),
                      (N_Block_BlockWeight, .mainOnly), (N_Block_TotalInputs, .mainOnly)]),
  ("witnessSigHash", [(N_Tx_hashPrevouts, .mutex N_Tx_hashLock 0 0), (N_Tx_hashSequence, .mutex N_Tx_hashLock 0 0), (N_Tx_hashOutputs, .mutex N_Tx_hashLock 0 0)]),
  ("taprootSigHash", [(N_Tx_tapSingleHashes, .mutex N_Tx_hashLock 0 0), (N_Tx_tapOutSingleHash, .mutex N_Tx_hashLock 0 0)]),
  ("serializeC", [(N_comp_val, .mutex N_comp_pool_mutex 0 0), (N_comp_scr, .mutex N_comp_pool_mutex 0 0)])
]

def factsOf (fn : String) : List Ev := (GocoinV.Gen.ConcFacts.all.lookup fn).getD []

/-- every local that some function literal of an extracted function captures and that is written after its declaration
    (gen_c11 lists them per function) has a guard in the policy table: a NEW shared local cannot go unnoticed -/
def capturedCovered : Bool :=
  GocoinV.Gen.ConcFacts.captured.all (fun (fn, xs) => xs.all (fun x => (((policy.lookup fn).getD []).lookup x).isSome))

/-- all functions of the policy table pass the discipline check on the CURRENT source's sequences -/
def allDisciplined : Bool :=
  policy.all (fun (fn, pol) => !(factsOf fn).isEmpty && disciplined pol (factsOf fn)) && capturedCovered

open GocoinV.Gen.ConcFacts in
/-- structural protocol facts the transition systems below were written for, evaluated on the generated
    sequences (each must be `true`; `Props.C11.source_protocol_facts` checks them by kernel evaluation) -/
structure ProtoFacts where
  commitAbortFirst : Bool   -- CommitBlockTxs: abortWriting before commit() and before any header write, UNCONDITIONALLY (nesting depth 0, no `ret` before it)
  undoAbortFirst : Bool     -- UndoBlockTxs: abortWriting before any map / header write
  commitLocked : Bool       -- abortWriting / commit are called with db.Mutex held in CommitBlockTxs
  undoLocked : Bool
  purgeAbortFirst : Bool    -- PurgeUnspendable: abortWriting before any map write
  purgeLocked : Bool        -- … called with db.Mutex held
  abortPubLocked : Bool     -- AbortWriting holds db.Mutex around abortWriting
  idleLocked : Bool         -- Idle holds db.Mutex around Save
  abortShape : Bool         -- abortWriting = if WIP { send token; Wait writingDone; non-blocking drain } - whole event list with block structure and test polarity
  saveShape : Bool          -- Save = if WIP { return }; set WIP; Add writingDone; go save - whole event list with block structure and test polarity
  saveWaitsFile : Bool      -- save: lastFileClosed.Wait before lastFileClosed.Add and before the file goroutine
  saveClrBeforeDone : Bool  -- save: WritingInProgress.Clr then writingDone.Done, both after the last map read
  closeShape : Bool         -- Close: writingDone.Wait then lastFileClosed.Wait
  cloned : Bool             -- commitTxs: EVERY store into the local map blUnsp is a clone of tx.TxOut (and there is one)
  deferWait : Bool          -- commitTxs: a deferred wg.Wait is installed before the first `go`
  publishLast : Bool        -- writeOne: rec.ipos is the last field written, inside db.mutex
  dataChanBuffered : Bool   -- save: data_channel has capacity ≥ 1 (hypothesis `0 < cap` of Props.C11.no_deadlock)
  serializeLocked : Bool    -- SerializeC: comp_pool_mutex is taken before, and held over, EVERY access to the shared
                            -- scratch pool comp_val/comp_scr (also through local aliases of the slices) — the lock span
                            -- covers both passes (fill, then copy out), not only the (re)allocation
  deriving DecidableEq, Repr

open GocoinV.Gen.ConcFacts in
def protoFacts : ProtoFacts where
  commitAbortFirst := precedesAll (.call N_abortWriting) (fun e => e == .call N_commit || e == .wr N_UnspentDB_LastBlockHash || e == .wr N_UnspentDB_LastBlockHeight || e == .wr N_UnspentDB_HashMap) commitBlockTxs
                        && unconditional (.call N_abortWriting) commitBlockTxs
  undoAbortFirst := precedesAll (.call N_abortWriting) (fun e => e == .wr N_UnspentDB_HashMap || e == .wr N_UnspentDB_LastBlockHash || e == .wr N_UnspentDB_LastBlockHeight || e == .call N_del) undoBlockTxs
                      && unconditional (.call N_abortWriting) undoBlockTxs
  commitLocked := callsHeld N_abortWriting N_UnspentDB_Mutex commitBlockTxs && callsHeld N_commit N_UnspentDB_Mutex commitBlockTxs
  undoLocked := callsHeld N_abortWriting N_UnspentDB_Mutex undoBlockTxs
  purgeAbortFirst := precedesAll (.call N_abortWriting) (fun e => e == .wr N_UnspentDB_HashMap || e == .wr N_UnspentDB_LastBlockHash || e == .wr N_UnspentDB_LastBlockHeight) purgeUnspendable
                       && purgeUnspendable.contains (.wr N_UnspentDB_HashMap)
                       && unconditional (.call N_abortWriting) purgeUnspendable
  purgeLocked := callsHeld N_abortWriting N_UnspentDB_Mutex purgeUnspendable
  abortPubLocked := callsHeld N_abortWriting N_UnspentDB_Mutex abortWritingPub && (skeleton abortWritingPub).contains (.call N_abortWriting)
  idleLocked := callsHeld N_Save N_UnspentDB_Mutex idle && (skeleton idle).contains (.call N_Save)
  abortShape :=
    -- the WHOLE event list incl. block structure and the polarity of the test (`.neg` = `if !c`), not only the skeleton:
    -- `if WIP { send; Wait; select { case <-ch: default: } }`, or the early-return spelling `if !WIP { return }; send; …`
    let drain : List Ev := [.selBegin, .open, .selRecv N_UnspentDB_abortwritingnow, .close, .open, .selDefault, .close, .selEnd]
    abortWriting == [.atomic N_UnspentDB_WritingInProgress, .open, .send N_UnspentDB_abortwritingnow, .wgWait N_UnspentDB_writingDone] ++ drain ++ [.close]
    || abortWriting == [.atomic N_UnspentDB_WritingInProgress, .neg, .open, .ret, .close, .send N_UnspentDB_abortwritingnow, .wgWait N_UnspentDB_writingDone] ++ drain
  saveShape :=
    -- whole event list: `if WIP { return }; Set; Add; go save; return` (the branch taken when a save is running RETURNS), or
    -- `if !WIP { Set; Add; go save; return }; return`
    savePub == [.atomic N_UnspentDB_WritingInProgress, .open, .ret, .close, .atomic N_UnspentDB_WritingInProgress, .wgAdd N_UnspentDB_writingDone, .goCall N_save, .ret]
    || savePub == [.atomic N_UnspentDB_WritingInProgress, .neg, .open, .atomic N_UnspentDB_WritingInProgress, .wgAdd N_UnspentDB_writingDone, .goCall N_save, .ret, .close, .ret]
  saveWaitsFile := precedesAll (.wgWait N_UnspentDB_lastFileClosed) (fun e => e == .wgAdd N_UnspentDB_lastFileClosed || e == .goBegin) save
  saveClrBeforeDone :=
    let sk := save.filter (fun e => e == .atomic N_UnspentDB_WritingInProgress || e == .wgDone N_UnspentDB_writingDone || e == .rd N_UnspentDB_HashMap)
    sk.getLast? == some (.wgDone N_UnspentDB_writingDone) && sk.dropLast.getLast? == some (.atomic N_UnspentDB_WritingInProgress)
      -- save touches WritingInProgress exactly once (the final Clr), at nesting depth 0, and its only writingDone.Done likewise
      && (save.filter (· == .atomic N_UnspentDB_WritingInProgress)).length == 1
      && depthOfFirst (.atomic N_UnspentDB_WritingInProgress) save == some 0
      && (save.filter (· == .wgDone N_UnspentDB_writingDone)).length == 1
      && depthOfFirst (.wgDone N_UnspentDB_writingDone) save == some 0
  closeShape := (skeleton close).filter (fun e => e == .wgWait N_UnspentDB_writingDone || e == .wgWait N_UnspentDB_lastFileClosed)
                  == [.wgWait N_UnspentDB_writingDone, .wgWait N_UnspentDB_lastFileClosed]
  cloned := blUnspIsClone
  deferWait := precedesAll .deferBegin (fun e => e == .goBegin) commitTxs
                && ((commitTxs.dropWhile (· != .deferBegin)).takeWhile (· != .deferEnd)).contains (.wgWait N_L_sync_WaitGroup)
  publishLast :=
    let ws := writeOne.filter (fun e => match e with | .wr x => x == N_oneBl_ipos || x == N_oneBl_blen || x == N_oneBl_fpos || x == N_oneBl_datfileidx || x == N_oneBl_compressed || x == N_oneBl_snappied | _ => false)
    ws.getLast? == some (.wr N_oneBl_ipos) && ws.length == 6
  dataChanBuffered := decide (0 < dataChanCap)
  serializeLocked :=
    let isPool : Ev → Bool := fun e => e == .rd N_comp_val || e == .wr N_comp_val || e == .rd N_comp_scr || e == .wr N_comp_scr
    (unguarded [(N_comp_val, .mutex N_comp_pool_mutex 0 0), (N_comp_scr, .mutex N_comp_pool_mutex 0 0)] serializeC).isEmpty
      && precedesAll (.lock N_comp_pool_mutex) isPool serializeC
      && serializeC.contains (.wr N_comp_val) && serializeC.contains (.wr N_comp_scr)
      && (serializeC.filter (fun e => e == .rd N_comp_val)).length ≥ 2   -- filled AND copied out under the lock

def protoFactsOK : ProtoFacts :=
  ⟨true, true, true, true, true, true, true, true, true, true, true, true, true, true, true, true, true, true⟩

/-! ## (c) the snapshot protocol -/
namespace Snap

/-- micro-steps of `abortWriting` -/
inductive APc | check | send | wait | drain | done
  deriving DecidableEq, Repr

inductive SaveRet | idle | direct | close
  deriving DecidableEq, Repr

/-- operations of the main goroutine.  `undo` (UnspentDB.UndoBlockTxs) and `purge` (UnspentDB.PurgeUnspendable) have the SAME
    synchronisation shape as `commit` — db.Mutex, abortWriting, elementary map/header mutations, unlock (shape facts
    undoAbortFirst/undoLocked/purgeAbortFirst/purgeLocked) — and run the same micro-steps. -/
inductive MOp | commit | idle | abort | hurry | save | close | undo | purge
  deriving DecidableEq, Repr

inductive MPc
  | next
  | cLock | cAbort (a : APc) | cMut1 | cMut2 | cUnlock
  | iLock | iCheck | sChk (r : SaveRet) | sSet (r : SaveRet) | sAdd (r : SaveRet) | sGo (r : SaveRet) | iUnlock
  | aLock | aAbort (a : APc) | aUnlock
  | clCheck | clWait1 | clWait2 | closed
  deriving DecidableEq, Repr

inductive XOp | hurry | abort
  deriving DecidableEq, Repr

inductive XPc | next | aLock | aAbort (a : APc) | aUnlock
  deriving DecidableEq, Repr

inductive SPc | waitFile | hdr | loop | fin (abort : Bool) | clr | done
  deriving DecidableEq, Repr

structure Saver where
  pc : SPc
  hv : Nat := 0        -- version of (map, header) when the header was read
  hst : Bool := false  -- was that a block-consistent state
  k : Nat := 0         -- chunks still to read
  deriving DecidableEq, Repr

inductive FPc | run | rename | remove | done
  deriving DecidableEq, Repr

structure Filer where
  pc : FPc
  hv : Nat
  hst : Bool
  tot : Nat
  content : List Nat := []
  deriving DecidableEq, Repr

/-- a file that reached the name UTXO.db -/
structure Visible where
  hv : Nat
  hst : Bool
  tot : Nat
  content : List Nat
  deriving DecidableEq, Repr

structure St where
  mprog : List MOp
  mpc : MPc := .next
  xprog : List XOp
  xpc : XPc := .next
  mtx : Option Bool := none     -- db.Mutex: some true = main thread, some false = auxiliary thread
  wip : Bool := false           -- WritingInProgress
  dirty : Bool := false         -- DirtyDB
  abortCh : Bool := false       -- abortwritingnow (capacity 1)
  hurryCh : Bool := false       -- hurryup (capacity 1)
  wdone : Nat := 0              -- writingDone counter
  fclosed : Nat := 0            -- lastFileClosed counter
  ver : Nat := 0                -- ghost: bumped by every elementary mutation of the maps or the header
  stable : Bool := true         -- ghost: (maps, header) describe exactly one block
  s : Option Saver := none
  f : Option Filer := none
  dataCh : List Nat := []       -- data_channel of the current save (each chunk records the version it was read at)
  exitCh : Option Bool := none  -- exit_channel
  cap : Nat := 2                -- capacity of data_channel
  visible : List Visible := []
  deriving DecidableEq, Repr

inductive Lab
  | m | x
  | sStep            -- saver: next deterministic step / read one chunk
  | sBegin (k : Nat) -- saver at `hdr`: reads the header, learns the number of chunks, starts the file goroutine
  | sAbort | sHurry  -- saver in its loop: takes the abort / hurry token
  | fStep            -- file goroutine: next step (data first, then exit)
  | fExit            -- file goroutine: takes the exit token although data is still queued (select is unordered)
  deriving DecidableEq, Repr

/-- one micro-step of abortWriting by whoever holds db.Mutex; `none` = blocked -/
def abortStep (st : St) : APc → Option (St × APc)
  | .check => some (st, if st.wip then .send else .done)
  | .send => if st.abortCh then none else some ({ st with abortCh := true }, .wait)
  | .wait => if st.wdone = 0 then some (st, .drain) else none
  | .drain => some ({ st with abortCh := false }, .done)
  | .done => none

def saveRetPc : SaveRet → MPc
  | .idle => .iUnlock | .direct => .next | .close => .clWait1

def stepM (st : St) : Option St :=
  match st.mpc with
  | .next => match st.mprog with
    | [] => none
    | op :: r =>
      let st := { st with mprog := r }
      some (match op with
        | .commit => { st with mpc := .cLock }
        | .undo => { st with mpc := .cLock }
        | .purge => { st with mpc := .cLock }
        | .idle => { st with mpc := .iLock }
        | .abort => { st with mpc := .aLock }
        | .hurry => { st with hurryCh := true }
        | .save => { st with mpc := .sChk .direct }
        | .close => { st with mpc := .clCheck })
  | .cLock => if st.mtx.isNone then some { st with mtx := some true, mpc := .cAbort .check } else none
  | .cAbort .done => some { st with mpc := .cMut1 }
  | .cAbort a => (abortStep st a).map fun (st, a) => { st with mpc := .cAbort a }
  | .cMut1 => some { st with ver := st.ver + 1, stable := false, mpc := .cMut2 }
  | .cMut2 => some { st with ver := st.ver + 1, stable := true, dirty := true, mpc := .cUnlock }
  | .cUnlock => some { st with mtx := none, mpc := .next }
  | .iLock => if st.mtx.isNone then some { st with mtx := some true, mpc := .iCheck } else none
  | .iCheck => some { st with mpc := if st.dirty then .sChk .idle else .iUnlock }
  | .sChk r => some { st with mpc := if st.wip then saveRetPc r else .sSet r }
  | .sSet r => some { st with wip := true, mpc := .sAdd r }
  | .sAdd r => some { st with wdone := st.wdone + 1, mpc := .sGo r }
  | .sGo r => if st.s.isNone then some { st with s := some { pc := .waitFile }, mpc := saveRetPc r } else none
  | .iUnlock => some { st with mtx := none, mpc := .next }
  | .aLock => if st.mtx.isNone then some { st with mtx := some true, mpc := .aAbort .check } else none
  | .aAbort .done => some { st with mpc := .aUnlock }
  | .aAbort a => (abortStep st a).map fun (st, a) => { st with mpc := .aAbort a }
  | .aUnlock => some { st with mtx := none, mpc := .next }
  | .clCheck => some (if st.dirty then { st with hurryCh := true, mpc := .sChk .close } else { st with mpc := .clWait1 })
  | .clWait1 => if st.wdone = 0 then some { st with mpc := .clWait2 } else none
  | .clWait2 => if st.fclosed = 0 then some { st with mpc := .closed } else none
  | .closed => none

def stepX (st : St) : Option St :=
  match st.xpc with
  | .next => match st.xprog with
    | [] => none
    | .hurry :: r => some { st with xprog := r, hurryCh := true }
    | .abort :: r => some { st with xprog := r, xpc := .aLock }
  | .aLock => if st.mtx.isNone then some { st with mtx := some false, xpc := .aAbort .check } else none
  | .aAbort .done => some { st with xpc := .aUnlock }
  | .aAbort a => (abortStep st a).map fun (st, a) => { st with xpc := .aAbort a }
  | .aUnlock => some { st with mtx := none, xpc := .next }

def stepS (st : St) (l : Lab) : Option St :=
  match st.s with
  | none => none
  | some sv =>
    match sv.pc, l with
    | .waitFile, .sStep => if st.fclosed = 0 then some { st with s := some { sv with pc := .hdr } } else none
    | .hdr, .sBegin k =>
        if st.f.isNone then
          some { st with s := some { sv with pc := .loop, hv := st.ver, hst := st.stable, k := k },
                         fclosed := st.fclosed + 1, dataCh := [], exitCh := none,
                         f := some { pc := .run, hv := st.ver, hst := st.stable, tot := k } }
        else none
    | .loop, .sAbort => if st.abortCh then some { st with abortCh := false, s := some { sv with pc := .fin true } } else none
    | .loop, .sHurry => if st.hurryCh then some { st with hurryCh := false } else none
    | .loop, .sStep =>
        if sv.k = 0 then some { st with s := some { sv with pc := .fin false } }
        else if st.dataCh.length < st.cap then
          some { st with dataCh := st.dataCh ++ [st.ver], s := some { sv with k := sv.k - 1 } }
        else none
    | .fin a, .sStep => some { st with exitCh := some a, dirty := if a then st.dirty else false, s := some { sv with pc := .clr } }
    | .clr, .sStep => some { st with wip := false, s := some { sv with pc := .done } }
    | .done, .sStep => some { st with wdone := st.wdone - 1, s := none }
    | _, _ => none

def stepF (st : St) (l : Lab) : Option St :=
  match st.f with
  | none => none
  | some fl =>
    match fl.pc, l with
    | .run, .fStep =>
        match st.dataCh with
        | c :: r => some { st with dataCh := r, f := some { fl with content := fl.content ++ [c] } }
        | [] => match st.exitCh with
          | some true => some { st with exitCh := none, f := some { fl with pc := .remove } }
          | some false => some { st with exitCh := none, f := some { fl with pc := .rename } }
          | none => none
    | .run, .fExit =>
        -- `select` may pick exit_channel while data is queued: abort leaves at once; a normal exit only sets
        -- `exit` and the loop keeps draining (`for !exit || len(data_channel) > 0`) — modelled by not consuming it
        match st.exitCh with
        | some true => some { st with exitCh := none, f := some { fl with pc := .remove } }
        | _ => none
    | .rename, .fStep =>
        some { st with visible := st.visible ++ [{ hv := fl.hv, hst := fl.hst, tot := fl.tot, content := fl.content }],
                       f := some { fl with pc := .done } }
    | .remove, .fStep => some { st with f := some { fl with pc := .done } }
    | .done, .fStep => some { st with fclosed := st.fclosed - 1, f := none }
    | _, _ => none

def step (st : St) : Lab → Option St
  | .m => stepM st
  | .x => stepX st
  | .fStep => stepF st .fStep
  | .fExit => stepF st .fExit
  | l => stepS st l

def init (mp : List MOp) (xp : List XOp) (cap : Nat) : St := { mprog := mp, xprog := xp, cap := cap }

/-- run a schedule; a label that is not enabled is skipped (so every list of labels is a schedule) -/
def run (st : St) : List Lab → St
  | [] => st
  | l :: r => run ((step st l).getD st) r

/-- reachable = reached from an initial state by some finite schedule -/
def Reachable (st : St) : Prop := ∃ mp xp cap ls, st = run (init mp xp cap) ls

def Visible.good (v : Visible) : Bool := v.hst && v.content.length == v.tot && v.content.all (· == v.hv)

def final (st : St) : Bool :=
  (st.mpc == .closed || (st.mpc == .next && st.mprog.isEmpty)) && st.xpc == .next && st.xprog.isEmpty && st.s.isNone && st.f.isNone

def allLabs (st : St) : List Lab := [.m, .x, .sStep, .sBegin 1, .sAbort, .sHurry, .fStep, .fExit] ++
  (match st.s with | some _ => [] | none => [])

def hasStep (st : St) : Bool := (allLabs st).any (fun l => (step st l).isSome)

/-- the executable form of the invariants (used by the oracle on explored schedules) -/
def check (st : St) : Bool :=
  st.visible.all Visible.good &&
  (match st.s with
   | some sv => !(sv.pc == .loop || sv.pc == .hdr) || !(st.mpc == .cMut1 || st.mpc == .cMut2)
   | none => true)

end Snap

/-! ## (a) commitTxs fan-out -/
namespace Fan

/-- one transaction of the block, as the fan-out sees it -/
structure Tx where
  nin : Nat                         -- inputs
  spends : List (Nat × Nat)         -- in-block spends (earlier tx index, vout) the main loop nils in blUnsp
  nout : Nat
  early : Bool                      -- the main loop returns an error while collecting this tx's inputs
  deriving DecidableEq, Repr

/-- shared memory: the output arrays workers read for sighashes (`tx.TxOut`, `true` = still intact) -/
abbrev Mem := List (List Bool)

structure St where
  txs : List Tx
  cloned : Bool
  next : Nat := 0                          -- main loop index
  mem : Mem                                -- tx.TxOut arrays
  pending : List (Nat × Nat) := []         -- spawned, not yet finished workers (tx, input)
  errCnt : Nat := 0                        -- ver_err_cnt
  mainErr : Option Nat := none             -- early return taken at this tx (deferred wg.Wait pending)
  waited : Bool := false                   -- wg.Wait returned
  verdict : Option (Option Nat × Nat) := none   -- (early error, script failures) once commitTxs returned
  deriving DecidableEq, Repr

def nilAt (m : Mem) (a v : Nat) : Mem :=
  m.mapIdx fun i row => if i = a then row.mapIdx (fun j b => if j = v then false else b) else row

/-- what a script worker computes: `f tx input (view of tx.TxOut)` — any function of what it reads -/
abbrev Verify := Nat → Nat → List Bool → Bool

inductive Lab | main | worker (i : Nat)
  deriving DecidableEq, Repr

def step (f : Verify) (st : St) : Lab → Option St
  | .main =>
    if st.verdict.isSome then none
    else match st.mainErr with
    | some e => -- deferred wg.Wait on the early-return path
        if st.pending.isEmpty then some { st with verdict := some (some e, st.errCnt) } else none
    | none =>
      match st.txs[st.next]? with
      | some tx =>
        -- collect inputs: marks in-block outputs spent (t[inp.Vout] = nil); with a clone this is private memory
        let mem := if st.cloned then st.mem else tx.spends.foldl (fun m (a, v) => nilAt m a v) st.mem
        if tx.early then some { st with mem := mem, mainErr := some st.next }
        else some { st with mem := mem, next := st.next + 1,
                            pending := st.pending ++ (List.range tx.nin).map (fun i => (st.next, i)) }
      | none => -- after the loop: wg.Wait, then ver_err_cnt decides
        if st.pending.isEmpty then some { st with waited := true, verdict := some (none, st.errCnt) } else none
  | .worker i =>
    match st.pending[i]? with
    | none => none
    | some (t, j) =>
      let ok := f t j (st.mem[t]?.getD [])
      some { st with pending := st.pending.eraseIdx i, errCnt := if ok then st.errCnt else st.errCnt + 1 }

def init (txs : List Tx) (cloned : Bool) : St :=
  { txs := txs, cloned := cloned, mem := txs.map (fun t => List.replicate t.nout true) }

def run (f : Verify) (st : St) : List Lab → St
  | [] => st
  | l :: r => run f ((step f st l).getD st) r

/-- the sequential reference: failures counted over the ORIGINAL outputs, up to the first early error -/
def failsOf (f : Verify) (mem0 : Mem) (txs : List Tx) (upto : Nat) : Nat :=
  ((List.range upto).map fun t =>
    ((List.range ((txs[t]?.map (·.nin)).getD 0)).filter (fun j => !f t j (mem0[t]?.getD []))).length).sum

def firstEarly (txs : List Tx) : Option Nat := (txs.findIdx? (·.early))

def reference (f : Verify) (txs : List Tx) : Option Nat × Nat :=
  let mem0 : Mem := txs.map (fun t => List.replicate t.nout true)
  match firstEarly txs with
  | some e => (some e, failsOf f mem0 txs e)
  | none => (none, failsOf f mem0 txs txs.length)

end Fan

/-! ## (d) BlockDB: publish `ipos` last under db.mutex; readers go to disk only for evicted blocks -/
namespace Pub

structure Rec where
  inIndex : Bool := false
  inCache : Bool := false
  published : Bool := false   -- ipos ≠ -1 (set inside the critical section of writeOne, last)
  fields : Bool := false      -- blen/fpos/datfileidx/compressed/snappied hold their final values
  queued : Bool := false      -- in blocksToWrite
  deriving DecidableEq, Repr

inductive WPc | idle | writing | pub1 | pub2   -- pub1: fields stored, pub2 would be after ipos (back to idle)
  deriving DecidableEq, Repr

inductive RPc | idle | gotRec (sawCache : Bool) | readIpos | readFields
  deriving DecidableEq, Repr

structure St where
  r : Rec := {}
  w : WPc := .idle
  rd : RPc := .idle
  mtx : Option Bool := none            -- db.mutex: some true = writer side (BlockAdd/writeOne/evict), some false = reader
  badRead : Bool := false              -- the reader read a field before it was final
  readerLockedAfterPublish : Bool := true
  deriving DecidableEq, Repr

inductive Lab
  | add          -- BlockAdd (whole critical section)
  | evict        -- addToCache evicting this record (inside somebody's critical section; only if ipos ≠ -1)
  | wTake | wStore | wPublish
  | rLock | rUnlock | rIpos | rFields
  deriving DecidableEq, Repr

def step (st : St) : Lab → Option St
  | .add => if st.mtx.isNone && !st.r.inIndex then some { st with r := { inIndex := true, inCache := true, queued := true } } else none
  | .evict => if st.mtx.isNone && st.r.inCache && st.r.published then some { st with r := { st.r with inCache := false } } else none
  | .wTake => if st.w == .idle && st.r.queued && st.mtx.isNone then some { st with w := .writing, r := { st.r with queued := false } } else none
  | .wStore => if st.w == .writing && st.mtx.isNone then some { st with w := .pub1, mtx := some true, r := { st.r with fields := true } } else none
  | .wPublish => if st.w == .pub1 then some { st with w := .idle, mtx := none, r := { st.r with published := true } } else none
  | .rLock => if st.rd == .idle && st.mtx.isNone && st.r.inIndex then some { st with rd := .gotRec st.r.inCache, mtx := some false } else none
  | .rUnlock => match st.rd with
      | .gotRec true => if st.mtx == some false then some { st with rd := .idle, mtx := none } else none      -- cache hit: returns
      | .gotRec false => if st.mtx == some false then some { st with rd := .readIpos, mtx := none } else none
      | _ => none
  | .rIpos => if st.rd == .readIpos then some { st with rd := .readFields, badRead := st.badRead || !st.r.published } else none
  | .rFields => if st.rd == .readFields then some { st with rd := .idle, badRead := st.badRead || !st.r.fields } else none

def run (st : St) : List Lab → St
  | [] => st
  | l :: r => run ((step st l).getD st) r

end Pub

/-! ## (b) disjoint-key map updates, (e) atomic sums, (f) compute-once caches -/

/-- the bucket maps as a function; an update sets or deletes one key -/
def applyUpd (m : Nat → Option Nat) (u : Nat × Option Nat) : Nat → Option Nat :=
  fun k => if k = u.1 then u.2 else m k

def applyAll (m : Nat → Option Nat) (us : List (Nat × Option Nat)) : Nat → Option Nat := us.foldl applyUpd m

/-- a sighash cache cell under Tx.hashLock: filled by whoever comes first, with a value that depends on the tx only -/
def cacheStep (v : Nat) (c : Option Nat) : Option Nat × Nat :=
  match c with
  | some x => (some x, x)
  | none => (some v, v)

/-! ## runtime monitor for real event traces (vhook points), same predicates as the Snap invariants -/
namespace Mon

inductive MEv | saveBegin | saveFinito | mutBegin | mutEnd | fileCreated | fileDone | other
  deriving DecidableEq, Repr

structure M where
  saving : Bool := false
  mutating : Bool := false
  files : Nat := 0
  bad : List (Nat × String) := []
  n : Nat := 0
  deriving Repr

def stepM (m : M) (e : MEv) : M :=
  let m := { m with n := m.n + 1 }
  match e with
  | .saveBegin => { m with saving := true, bad := if m.mutating then m.bad ++ [(m.n, "save began during a mutation")] else m.bad }
  | .saveFinito => { m with saving := false }
  | .mutBegin => { m with mutating := true, bad := if m.saving then m.bad ++ [(m.n, "mutation began while the saver was reading")] else m.bad }
  | .mutEnd => { m with mutating := false }
  | .fileCreated => { m with files := m.files + 1, bad := if m.files > 0 then m.bad ++ [(m.n, "two snapshot file goroutines alive")] else m.bad }
  | .fileDone => { m with files := m.files - 1 }
  | .other => m

def runM (es : List MEv) : M := es.foldl stepM {}

end Mon

end GocoinV.Conc
