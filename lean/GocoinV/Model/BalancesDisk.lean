/-
  Model.BalancesDisk — the on-disk cache of the balance index (client/wallet/disk.go), one file per address type:
    save_map   : WriteVlen(len(map)) then, per record (Go map order), OneAllAddrBal.Save:
                 key as uint64 little-endian ‖ VARINT(CompressAmount(Value)) ‖ VARINT(count) ‖ count × 12-byte entries
                 (8 key bytes ‖ uint32-LE vout); the list layout (`unsp`) and the map layout (`unspMap`) write the same
                 bytes; a record with neither (cannot happen while the index invariant holds) writes no count ("ERROR").
    load_map   : ReadVLen, then per record binary.Read of the key and newAddrBal: ReadVarInt / DecompressAmount,
                 ReadVarInt count, count = 0 → nil; `int(count) >= useMapCnt` → map layout else list layout.
                 A read error in load_map's own reads, or a nil from newAddrBal (short file, count 0), returns WITHOUT assigning
                 allBalances[idx] and without setting the file's `ok` flag (before the fix a nil record was stored as a nil
                 pointer and the loop went on; a file cut inside its LAST record was accepted with that nil record).
    LoadBalances: all IDX_CNT files must have set their `ok` flag; otherwise InitMaps(true) (every map empty), an error is
                 returned and the wallet stays OFF (before the fix the test was `allBalances[i] == nil`, which is false after a
                 Disable() and for the nil-record case above: the index was switched ON with a wrong map).
  `btc.WriteVarInt/ReadVarInt` are the base-128 VARINT of Bitcoin Core's chainstate (uint64 wrap explicit),
  `btc.WriteVlen/ReadVLen` the CompactSize of C10's model (`putULe` / `UtxoRec.readVLen`), amounts C10's AmountCompress.
  Core-only.
-/
import GocoinV.Model.Balances
import GocoinV.Model.UtxoRec
namespace GocoinV.Model.BalancesDisk
open GocoinV GocoinV.CompactSize GocoinV.Model.Balances

abbrev U64 : Nat := 18446744073709551616

def mkByte (n : Nat) (first : Bool) : UInt8 := UInt8.ofNat (n % 128 + (if first then 0 else 128))

/-- the first loop of `btc.WriteVarInt` (`tmp[le]`, prepended = already in output order); fuel 10 = len(tmp) -/
def wvi : Nat → Nat → Bool → Bytes → Bytes
  | 0, n, first, acc => mkByte n first :: acc
  | f + 1, n, first, acc =>
    if n ≤ 127 then mkByte n first :: acc else wvi f (n / 128 - 1) false (mkByte n first :: acc)

def writeVarInt (n : Nat) : Bytes := wvi 10 n true []

/-- `btc.ReadVarInt` from accumulator `n`; `none` = read error -/
def rvi : Nat → Bytes → Option (Nat × Bytes)
  | _, [] => none
  | n, c :: t =>
    let n' := (n * 128) % U64 + c.toNat % 128
    if c.toNat ≥ 128 then rvi ((n' + 1) % U64) t else some (n', t)

def readVarInt (b : Bytes) : Option (Nat × Bytes) := rvi 0 b

def encInp (i : Inp) : Bytes := i.1 ++ leBytes 4 i.2

/-- `OneAllAddrBal.Save(key, of)` -/
def saveRec (key : Nat) (b : Bal) : Bytes :=
  leBytes 8 key ++ (writeVarInt (AmountCompress.compress b.value) ++
    (if b.unsp.isEmpty then [] else writeVarInt b.unsp.length ++ (b.unsp.map encInp).flatten))

/-- `save_map`: one address type's map `uidx ↦ record` -/
def saveMap (m : List (Nat × Bal)) : Bytes :=
  putULe m.length ++ (m.map (fun p => saveRec p.1 p.2)).flatten

/-- `count` entries of 12 bytes (`io.ReadFull`); `none` = short read -/
def readInps : Nat → Bytes → Option (List Inp × Bytes)
  | 0, b => some ([], b)
  | n + 1, b =>
    if shorter b 12 then none
    else match readInps n (b.drop 12) with
      | none => none
      | some (l, r) => some (((b.take 8), leVal ((b.drop 8).take 4)) :: l, r)

/-- `newAddrBal(rd)`: `(record or nil, rest)`; after a short read the reader is at the end of the file -/
def newAddrBal (um : Nat) (b : Bytes) : Option Bal × Bytes :=
  match readVarInt b with
  | none => (none, [])
  | some (cv, r1) =>
    match readVarInt r1 with
    | none => (none, [])
    | some (cnt, r2) =>
      if cnt = 0 then (none, r2)
      else match readInps cnt r2 with
        | none => (none, [])
        | some (l, r3) =>
          if um ≤ cnt then (some { value := AmountCompress.decompress cv, unsp := mapOfList l, isMap := true }, r3)
          else (some { value := AmountCompress.decompress cv, unsp := l, isMap := false }, r3)

/-- the record loop of `load_map`: pairs in file order (`themap[ke] = …`: a later pair with the same key wins);
    outer `none` = return without assigning -/
def loadRecs (um : Nat) : Nat → Bytes → Option (List (Nat × Option Bal))
  | 0, _ => some []
  | n + 1, b =>
    if shorter b 8 then none
    else
      let (ob, r) := newAddrBal um (b.drop 8)
      match ob with
      | none => none          -- since fix: a record that cannot be read (short file, count 0) refuses the whole file
      | some _ =>
        match loadRecs um n r with
        | none => none
        | some l => some ((leVal (b.take 8), ob) :: l)

/-- `load_map` on the file content: `none` = allBalances[idx] keeps its previous value -/
def loadPairs (um : Nat) (file : Bytes) : Option (List (Nat × Option Bal)) :=
  match UtxoRec.readVLen file with
  | none => none
  | some (le, r) => loadRecs um le r

/-- allBalances[idx] after `load_map` (a missing file is `file = none`) -/
def loadMap (um : Nat) (file : Option Bytes) (prev : List (Nat × Option Bal)) : List (Nat × Option Bal) :=
  match file with
  | none => prev
  | some f => match loadPairs um f with
    | none => prev
    | some l => l.reverse      -- lookup by `aget`: the LAST pair of the file with a key wins

/-- `LoadBalances` over the files of all address types (`none` = file missing): `some maps` = every file loaded, the index is
    switched on with exactly these maps; `none` = refused: InitMaps(true), error returned, the wallet stays off -/
def loadAll (um : Nat) : List (Option Bytes) → Option (List (List (Nat × Option Bal)))
  | [] => some []
  | none :: _ => none
  | some f :: rest =>
    match loadPairs um f with
    | none => none
    | some l =>
      match loadAll um rest with
      | none => none
      | some ls => some (l.reverse :: ls)

end GocoinV.Model.BalancesDisk
