/-
  Model.ConnectOwn — who owns the bytes of a UTXO record (lib/utxo/unspent_db.go), as far as the property's clause
  "the unspent set is what the chain created" depends on it through UndoBlockTxs:

      v := db.HashMap[ind[0]][ind]                      // the record the set still holds for this txid (some outputs left)
      if v != nil { oldrec := NewUtxoRec(*v)            // a VIEW: amounts are decoded, PKScr are SLICES of *v
                    for a := range rec.Outs { if rec.Outs[a] == nil { rec.Outs[a] = oldrec.Outs[a] } } }
      db.HashMap[ind[0]][ind] = Serialize(rec, nil)     // Memory_Malloc + copy of every script: READS *v through the view
      if v != nil { Memory_Free(v) }                    // only now the old record goes back to the allocator

  With the Go heap (library default) Memory_Free does nothing. The client installs lib/others/memory: a released slot is
  handed out again by the next Malloc of its size class — here the very Malloc inside Serialize — and its head is
  overwritten by free-list links at once.  Whether every read of a view precedes the release of its record is a
  structural fact of the source, regenerated on every run (`Gen.C04Facts.recordReleasedAfterLastRead`, go/cmd/gen_c04:
  all functions of lib/utxo that make a view and release its record — del, UndoBlockTxs, PurgeUnspendable).
  The allocator is adversarial in the model: after the release the bytes read as ANYTHING (`Junk`).  Core-only.
-/
import GocoinV.Model.ConnectUndo
import GocoinV.Gen.C04Facts
namespace GocoinV.Connect

/-- what the bytes of a released record read as afterwards -/
abbrev Junk := Bytes → Bytes

structure OwnCfg where
  /-- every read of a view happens before `Memory_Free` of the record it points into -/
  releaseAfterLastRead : Bool
  deriving DecidableEq, Repr

/-- what /repo contains now -/
def OwnCfg.current : OwnCfg := ⟨Gen.C04Facts.recordReleasedAfterLastRead⟩

/-- a view made BEFORE the release and read AFTER it: the amounts were decoded when the view was made, the scripts are
    slices of the released bytes -/
def readReleased (junk : Junk) (outs : List (Option TxOut)) : List (Option TxOut) :=
  outs.map (Option.map fun o => { o with script := junk o.script })

/-- one record of the undo file goes back into the set, with the moment of the release explicit -/
def addBackOwn (cfg : OwnCfg) (junk : Junk) (db : DB) (r : Rec) : DB :=
  match aGet db (key8 r.txid) with
  | some old =>
    let oldRead := if cfg.releaseAfterLastRead then old.outs else readReleased junk old.outs
    aSet db (key8 r.txid) { r with outs := mergeOuts r.outs oldRead }
  | none => aSet db (key8 r.txid) r

/-- `UndoBlockTxs` on an allocator that reuses released memory; `none` = panic -/
def undoBlockTxsOwn (cfg : UndoCfg) (own : OwnCfg) (junk : Junk) (db : DB) (dir : UndoDir) (height : Nat) (txids : List Bytes) : Option DB :=
  match readUndo cfg dir height with
  | none => none
  | some recs => some (recs.foldl (addBackOwn own junk) (txids.foldl (fun d h => aDel d (key8 h)) db))

end GocoinV.Connect
