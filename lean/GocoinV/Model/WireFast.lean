/-
  Model.WireFast — compiled-code shortcuts for `Wire.txSize` (imported by the oracle only; Core-only).

  `Wire.txSize` mirrors btc.TxSize statement by statement: every element size is `len(b) - len(rest)` and every
  bounds test is `k > len(b)`. On a linked list each of those walks the whole remaining input, so a transaction with
  n elements costs n·|input| steps — 18 s for 65536 witness items, minutes for 65536 outputs: the counts of the 5-byte
  CompactSize range could not be put through the model at all. Here the same functions are given in a form that touches
  only the cells they need (`(vule b).2` instead of `len(b) - len(rest)`, `leLen` instead of `≤ length`), each PROVED
  equal to the definition it replaces and registered with `@[csimp]`: the compiler uses the fast form, every theorem
  stays about the definitions in Model/Wire.lean. Nothing is assumed: a wrong shortcut does not type-check.
-/
import GocoinV.Model.Wire
namespace GocoinV.Wire
open GocoinV.CompactSize

theorem vule_size_le (b : Bytes) : (vule b).2 ≤ b.length := by
  unfold vule
  cases b with
  | nil => simp
  | cons h t =>
    simp only [List.length_cons]
    repeat' split
    all_goals simp only [] <;> omega

/-- the bytes a successful `vlenWire` consumed are the size `vule` reports -/
theorem vlenWire_consumed (b r : Bytes) (le : Nat) (h : vlenWire b = some (le, r)) :
    b.length - r.length = (vule b).2 := by
  unfold vlenWire at h
  simp only [] at h
  split at h
  · exact absurd h (by simp)
  · have hr : r = b.drop (vule b).2 := by
      have := Option.some.inj h
      exact (congrArg Prod.snd this).symm
    have hl := vule_size_le b
    rw [hr, List.length_drop]
    omega

def itemSizeFast (b : Bytes) : Option Nat :=
  match vlenWire b with
  | none => none
  | some (le, _) => some ((vule b).2 + le)

@[csimp] theorem itemSize_eq_fast : @itemSize = @itemSizeFast := by
  funext b
  unfold itemSize itemSizeFast
  cases h : vlenWire b with
  | none => rfl
  | some p =>
    obtain ⟨le, r⟩ := p
    simp only [vlenWire_consumed b r le h]

def txInSizeFast (b : Bytes) : Option Nat :=
  match readN 36 b with
  | none => none
  | some (_, b') =>
    match vlenWire b' with
    | none => some 0
    | some (le, _) => some (36 + (vule b').2 + le + 4)

@[csimp] theorem txInSize_eq_fast : @txInSize = @txInSizeFast := by
  funext b
  unfold txInSize txInSizeFast
  cases readN 36 b with
  | none => rfl
  | some q =>
    obtain ⟨x, b'⟩ := q
    simp only []
    cases h : vlenWire b' with
    | none => rfl
    | some p =>
      obtain ⟨le, r⟩ := p
      simp only [vlenWire_consumed b' r le h]

def txOutSizeFast (b : Bytes) : Option Nat :=
  match readN 8 b with
  | none => none
  | some (_, b') =>
    match vlenWire b' with
    | none => some 0
    | some (le, _) => some (8 + (vule b').2 + le)

@[csimp] theorem txOutSize_eq_fast : @txOutSize = @txOutSizeFast := by
  funext b
  unfold txOutSize txOutSizeFast
  cases readN 8 b with
  | none => rfl
  | some q =>
    obtain ⟨x, b'⟩ := q
    simp only []
    cases h : vlenWire b' with
    | none => rfl
    | some p =>
      obtain ⟨le, r⟩ := p
      simp only [vlenWire_consumed b' r le h]

def skipNFast (f : Bytes → Option Nat) : Nat → Bytes → Option Bytes
  | 0, b => some b
  | n+1, b =>
    match f b with
    | none => none
    | some k => if k = 0 ∨ leLen k b = false then none else skipNFast f n (b.drop k)

theorem gt_length_iff (k : Nat) (b : Bytes) : k > b.length ↔ leLen k b = false := by
  constructor
  · intro h
    cases hh : leLen k b with
    | false => rfl
    | true => have := (leLen_iff k b).1 hh; omega
  · intro h
    by_cases hk : k ≤ b.length
    · rw [(leLen_iff k b).2 hk] at h; exact absurd h (by simp)
    · omega

@[csimp] theorem skipN_eq_fast : @skipN = @skipNFast := by
  funext f n b
  induction n generalizing b with
  | zero => rfl
  | succ n ih =>
    simp only [skipN, skipNFast]
    cases f b with
    | none => rfl
    | some k =>
      simp only [gt_length_iff k b, ih]

/-! copies of the callers (identical bodies, so equal by unfolding) compiled HERE, i.e. against the shortcuts above -/

def skipStackFast (b : Bytes) : Option Bytes :=
  match vlenWire b with
  | none => none
  | some (n, r) => skipN itemSize n r

@[csimp] theorem skipStack_eq_fast : @skipStack = @skipStackFast := by
  funext b; rfl

def skipStacksFast : Nat → Bytes → Option Bytes
  | 0, b => some b
  | n+1, b => match skipStack b with
    | none => none
    | some r => skipStacksFast n r

@[csimp] theorem skipStacks_eq_fast : @skipStacks = @skipStacksFast := by
  funext n b
  induction n generalizing b with
  | zero => rfl
  | succ n ih =>
    simp only [skipStacks, skipStacksFast]
    cases skipStack b with
    | none => rfl
    | some r => exact ih r

def txSizeFast (b : Bytes) : Nat :=
  let r : Option Nat :=
    match readN 4 b with
    | none => none
    | some (_, b1) =>
    match readMarker b1 with
    | none => none
    | some (segwit, b2) =>
    match vlenWire b2 with
    | none => none
    | some (nin, b3) =>
    match skipN txInSize nin b3 with
    | none => none
    | some b4 =>
    match vlenWire b4 with
    | none => none
    | some (nout, b5) =>
    match skipN txOutSize nout b5 with
    | none => none
    | some b6 =>
    let b7? := if segwit then skipStacks nin b6 else some b6
    match b7? with
    | none => none
    | some b7 => if 4 ≤ b7.length then some (b.length - b7.length + 4) else none
  r.getD 0

@[csimp] theorem txSize_eq_fast : @txSize = @txSizeFast := by
  funext b; rfl

end GocoinV.Wire
