/-
  Model.Sig — statement-level model of gocoin's signature code (property C03):
    lib/secp256k1/sig.go     Signature.ParseBytes / Verify / recompute / recover / Sign / Bytes
    lib/secp256k1/ec.go      ecdsa_verify, Verify, RecoverPublicKey
    lib/secp256k1/xy.go      XY.ParsePubkey, ParseXOnlyPubkey, SetXO, IsValid, Field.set_b32_limit
    lib/secp256k1/schnorr.go SchnorrVerify, SchnorrSign, CheckPayToContract, XOnlyPubkeyTweakAddCheck,
                             ECPublicTweakAdd
    lib/btc/ecdsa.go         EcdsaVerify, EcdsaSign (RFC 6979 mode; random mode = `sign` with the nonce
                             the code drew), SchnorrVerify, CheckPayToContract
    lib/btc/hash.go          HMAC_Init/Write/Finalize, RFC6979_HMAC_Init/Generate, RFC6979_Nonce
    lib/btc/key.go           Signature.RecoverPublicKey, IsLowS, Bytes

  LEVEL OF ABSTRACTION (trusted base of C03): the model works on integers and affine points of
  Base/Secp, not on limbs / Jacobian coordinates (that is property C08). Where the Go code calls
    XYZ.ECmult(r, na, ng)        the model uses  (na mod n)·A + (ng mod n)·G     (`ecmult`)
    ECmultGen(r, k)              the model uses  k·G
    Field.Sqrt                   the model uses  a^((p+1)/4) mod p               (`sqrtCand`)
    Number.mod_inv(a, n)         the model uses  a^(n-2) mod n  (0 for a ≡ 0, like big.Int.ModInverse
                                 leaving the zero receiver untouched)
    Field values                 the model uses the value mod p, and the raw 256-bit value where the
                                 code compares un-normalised limbs (SetB32 + Equals)
  This identification is valid for points ON the curve (order n). Every public entry point of the
  current code validates its points before multiplying, so the abstraction covers every input; for
  the code at the pinned snapshot (flag `fixed := false`) it does not cover off-curve points — the
  legacy definitions are kept only to state the counterexample theorems on inputs where it is valid.

  `fixed = true` mirrors the current source (after the seven `fix:` commits of this property; the two
  latest - SchnorrSign key length, recovery at infinity - have their pinned-snapshot models in
  `schnorrSignLegacyPanics` / `recoverLegacy`),
  `fixed = false` mirrors the source at the pinned snapshot 8e65205a.
  Go panics are `none` in functions returning `Option` where a panic is reachable.
-/
import GocoinV.Base.Secp
import GocoinV.Base.C03_Hmac
namespace GocoinV.Model.Sig
open GocoinV.Secp GocoinV.C03

/-! ### big.Int helpers -/

/-- `TheCurve.HalfOrder` -/
def halfOrder : Nat := 0x7FFFFFFFFFFFFFFFFFFFFFFFFFFFFFFF5D576E7357A4501DDFE92F46681B20A0

/-- `big.Int.Bytes()`: minimal big-endian bytes, empty for 0 (values below 2^320) -/
def natBytes (v : Nat) : Bytes := (beBytes 40 v).dropWhile (· == 0)

/-- `Number.get_bin(32)`; `none` = "buffer too small" panic -/
def getBin32 (v : Nat) : Option Bytes := if v < 2 ^ 256 then some (beBytes 32 v) else none

/-- `Number.mod_inv(a, Order)` -/
def modInvN (a : Nat) : Nat := invMod a n

/-! ### lib/secp256k1/sig.go — ParseBytes, Bytes -/

/-- `Signature.ParseBytes`: (R, S, bytes consumed); `none` = return value -1. -/
def parseBytes (sig : Bytes) : Option (Nat × Nat × Nat) :=
  if sig.length < 5 ∨ sig.getD 0 0 ≠ 0x30 then none
  else
    let lenr := (sig.getD 3 0).toNat
    if lenr = 0 ∨ 5 + lenr ≥ sig.length ∨ sig.getD (lenr + 4) 0 ≠ 0x02 then none
    else
      let lens := (sig.getD (lenr + 5) 0).toNat
      if lens = 0 ∨ (sig.getD 1 0).toNat ≠ lenr + lens + 4 ∨ lenr + lens + 6 > sig.length
          ∨ sig.getD 2 0 ≠ 0x02 then none
      else
        some (beVal ((sig.drop 4).take lenr), beVal ((sig.drop (6 + lenr)).take lens), 6 + lenr + lens)

/-- one DER integer as `Signature.Bytes` writes it; `none` = index panic on `r[0]` for the value 0 -/
def derInt (v : Nat) : Option Bytes :=
  match natBytes v with
  | [] => none
  | b :: bs => some (if b ≥ 0x80 then 0 :: b :: bs else b :: bs)

/-- `Signature.Bytes` -/
def sigBytes (r s : Nat) : Option Bytes :=
  match derInt r, derInt s with
  | some rb, some sb =>
    some ([0x30, UInt8.ofNat (4 + rb.length + sb.length), 0x02, UInt8.ofNat rb.length] ++ rb
          ++ [0x02, UInt8.ofNat sb.length] ++ sb)
  | _, _ => none

/-! ### lib/secp256k1/xy.go — public-key parsing -/

/-- `Field.Sqrt`: the candidate a^((p+1)/4); not checked -/
def sqrtCand (a : Nat) : Nat := powMod a ((p + 1) / 4) p

/-- `XY.SetXO(X, odd)`: Y := sqrt(X³+7), negated when its parity differs; value of Y mod p -/
def setXO (x : Nat) (odd : Bool) : Nat :=
  let xr := x % p
  let y := sqrtCand ((xr * xr % p * xr + 7) % p)
  if (y % 2 == 1) != odd then (p - y) % p else y

/-- `XY.IsValid` (for a finite point): Y² = X³ + 7 in the field -/
def isValid (x y : Nat) : Bool :=
  let xr := x % p
  (y % p) * (y % p) % p == (xr * xr % p * xr + 7) % p

/-- `XY.ParsePubkey`. Result: field values (x mod p, y mod p) of the parsed element. -/
def parsePubkey (fixed : Bool) (pub : Bytes) : Option (Nat × Nat) :=
  match pub with
  | [] => none
  | h :: t =>
    if pub.length = 33 ∧ (h = 0x02 ∨ h = 0x03) then
      let x := beVal t
      let y := setXO x (h == 0x03)
      if fixed then
        if x ≥ p then none                       -- !x_ok
        else if isValid x y then some (x, y) else none
      else some (x % p, y)
    else if pub.length = 65 ∧ (h = 0x04 ∨ h = 0x06 ∨ h = 0x07) then
      let x := beVal (t.take 32)
      let y := beVal (t.drop 32)
      if fixed then
        if x ≥ p ∨ y ≥ p then none
        else if (h = 0x06 ∨ h = 0x07) ∧ (y % 2 == 1) != (h == 0x07) then none
        else if isValid x y then some (x, y) else none
      else
        -- legacy: parity of the RAW (un-normalised) Y, no range / curve check
        if (h = 0x06 ∨ h = 0x07) ∧ (y % 2 == 1) != (h == 0x07) then none
        else some (x % p, y % p)
    else none

/-- `XY.ParseXOnlyPubkey`; the legacy code panics (`none` here too) on fewer than 32 bytes and ignores
    bytes after the 32nd. -/
def parseXOnly (fixed : Bool) (pub : Bytes) : Option (Nat × Nat) :=
  if fixed then
    if pub.length ≠ 32 then none
    else
      let x := beVal pub
      let y := setXO x false
      if x < p ∧ isValid x y then some (x, y) else none
  else
    if pub.length < 32 then none
    else
      let x := beVal (pub.take 32)
      some (x % p, setXO x false)

/-! ### scalar multiplication as the code uses it -/

/-- `XYZ.ECmult(r, na, ng)`: na·A + ng·G with the scalars taken modulo the group order -/
def ecmult (A : Point) (na : Int) (ng : Nat) : Point :=
  add (mul (na % (n : Int)).toNat A) (mul (ng % n) G)

/-! ### lib/secp256k1/sig.go — Verify / recompute, lib/secp256k1/ec.go, lib/btc/ecdsa.go -/

/-- `Signature.recompute`: `none` = returns false (result at infinity) -/
def recompute (r s : Nat) (Q : Point) (m : Nat) : Option Nat :=
  let sn := modInvN s
  let u1 := sn * m % n
  let u2 := sn * r % n
  match ecmult Q u2 u1 with
  | none => none
  | some (x, _) => some (x % n)

/-- `Signature.Verify` -/
def sigVerify (fixed : Bool) (r s : Nat) (Q : Point) (m : Nat) : Bool :=
  if fixed ∧ (r = 0 ∨ r ≥ n ∨ s = 0 ∨ s ≥ n) then false
  else match recompute r s Q m with
    | none => false
    | some r2 => r == r2

/-- `secp256k1.ecdsa_verify`: 1, 0, -1 (key), -2 (signature) -/
def ecdsaVerifyCode (fixed : Bool) (pk sig msg : Bytes) : Int :=
  match parsePubkey fixed pk with
  | none => -1
  | some Q =>
    match parseBytes sig with
    | none => -2
    | some (r, s, _) => if sigVerify fixed r s (some Q) (beVal msg) then 1 else 0

/-- `btc.EcdsaVerify` (with `EC_Verify == nil`) -/
def ecdsaVerify (fixed : Bool) (pk sig msg : Bytes) : Bool :=
  if pk.length = 0 ∨ sig.length = 0 then false
  else ecdsaVerifyCode fixed pk sig msg == 1

/-! ### Sign -/

/-- `Signature.Sign(seckey, message, nonce, &recid)` for a nonce in [1, n-1] (what `EcdsaSign`
    guarantees). Result (R, S, recid); `none` = return value 0 (or nonce outside the modelled range). -/
def sign (sec msg nonce : Nat) : Option (Nat × Nat × Nat) :=
  if nonce = 0 ∨ nonce ≥ n then none
  else match mul nonce G with
    | none => none
    | some (x, y) =>
      let recid := (if x ≥ n then 2 else 0) ||| (if y % 2 = 1 then 1 else 0)
      let r := x % n
      let nn := (r * sec % n + msg) % n
      let s := modInvN nonce * nn % n
      if s = 0 then none
      else
        let (s, recid) := if s % 2 = 1 then (n - s, recid ^^^ 1) else (s, recid)
        let (s, recid) := if s > halfOrder then (n - s, recid ^^^ 1) else (s, recid)   -- FORCE_LOW_S
        some (r, s, recid)

/-! ### lib/btc/hash.go — HMAC and RFC 6979 -/

/-- `HMAC_Init(key)` + `Write(data)` + `Finalize`: note `len(key) < 64` (a 64-byte key IS hashed) -/
def hmacGo (H : Hash) (key data : Bytes) : Bytes :=
  let rkey := padTo 64 (if key.length < 64 then key else H key)
  H (xorByte 0x5c rkey ++ H (xorByte 0x36 rkey ++ data))

structure Rng where
  k : Bytes
  v : Bytes
  retry : Bool

/-- `RFC6979_HMAC_Init(key)` -/
def rngInit (H : Hash) (key : Bytes) : Rng :=
  let v := fill 32 1
  let k := fill 32 0
  let k := hmacGo H k (v ++ [0] ++ key)
  let v := hmacGo H k v
  let k := hmacGo H k (v ++ [1] ++ key)
  let v := hmacGo H k v
  ⟨k, v, false⟩

/-- `Generate(out)` for `len(out) = 32` (one pass of the output loop) -/
def rngGenerate (H : Hash) (g : Rng) : Rng × Bytes :=
  let g := if g.retry then
      let k := hmacGo H g.k (g.v ++ [0])
      let v := hmacGo H k g.v
      { g with k := k, v := v }
    else g
  let v := hmacGo H g.k g.v
  (⟨g.k, v, true⟩, v)

def rngLoop (H : Hash) : Nat → Rng → Bytes → Bytes
  | 0, _, out => out
  | i+1, g, _ => let (g', out') := rngGenerate H g; rngLoop H i g' out'

/-- `RFC6979_Nonce(prv32, msg32, nil, nil, counter, out[:32])`: keydata = 64 bytes, prv and msg
    copied left-aligned into 32-byte halves (truncated / zero-padded) -/
def rfc6979Nonce (H : Hash) (prv msg : Bytes) (counter : Nat) : Bytes :=
  let keydata := padTo 32 (prv.take 32) ++ padTo 32 (msg.take 32)
  rngLoop H (counter + 1) (rngInit H keydata) (fill 32 0)

/-- `btc.EcdsaSign` with `EcdsaSignWithRFC6979 = true`: the loop never increments `counter`, so an
    unacceptable first candidate makes it spin forever (`none`). Result (R, S). -/
def ecdsaSignRfc (H : Hash) (priv hash : Bytes) : Option (Nat × Nat) :=
  let k := beVal (rfc6979Nonce H priv hash 0)
  if 0 < k ∧ k < n then
    match sign (beVal priv) (beVal hash) k with
    | some (r, s, _) => some (r, s)
    | none => none
  else none

/-! ### recover -/

/-- `Signature.recover(pubkey, m, recid)` AT THE PINNED SNAPSHOT (before `fix: Signature.recover refuses a
    result at infinity`); `none` = false. The point may be infinite (`some none`): that code stored it
    with `SetXYZ` and returned true, so the caller got a key object with `Infinity` set and left-over
    coordinates. Kept for the counterexample theorem and as the stepping stone of the proofs. -/
def recoverLegacy (r s m recid : Nat) : Option Point :=
  let rx := if recid &&& 2 ≠ 0 then r + n else r
  if recid &&& 2 ≠ 0 ∧ rx ≥ p then none
  else
    let y := setXO rx (recid &&& 1 ≠ 0)
    if !isValid rx y then none
    else
      let rn := modInvN r
      let u1 := n - rn * m % n
      let u2 := rn * s % n
      some (ecmult (some (rx % p, y)) u2 u1)

/-- `Signature.recover(pubkey, m, recid)` (current code); `none` = false. After the `ECmult` the code
    tests `qj.IsInfinity()` and returns false, so the result is never `some none`
    (`Props.C03.recover_never_infinity`). -/
def recover (r s m recid : Nat) : Option Point :=
  let rx := if recid &&& 2 ≠ 0 then r + n else r
  if recid &&& 2 ≠ 0 ∧ rx ≥ p then none
  else
    let y := setXO rx (recid &&& 1 ≠ 0)
    if !isValid rx y then none
    else
      let rn := modInvN r
      let u1 := n - rn * m % n
      let u2 := rn * s % n
      match ecmult (some (rx % p, y)) u2 u1 with
      | none => none                       -- qj.IsInfinity(): return false
      | some q => some (some q)

/-- `secp256k1.RecoverPublicKey(r, s, h, recid, &pubkey)` at the pinned snapshot -/
def recoverPublicKeyLegacy (r s : Nat) (h : Bytes) (recid : Nat) : Option Point :=
  if r = 0 ∨ r ≥ n ∨ s = 0 ∨ s ≥ n then none
  else recoverLegacy r s (beVal h) recid

/-- `secp256k1.RecoverPublicKey(r, s, h, recid, &pubkey)` (as called by `btc.Signature.RecoverPublicKey`) -/
def recoverPublicKey (r s : Nat) (h : Bytes) (recid : Nat) : Option Point :=
  if r = 0 ∨ r ≥ n ∨ s = 0 ∨ s ≥ n then none
  else recover r s (beVal h) recid

/-! ### lib/secp256k1/schnorr.go -/

/-- `SchnorrsigChallenge`: the midstate is SHA256 after the 64 bytes H(tag)‖H(tag) -/
def challengeRaw (H : Hash) (r32 msg pk : Bytes) : Nat :=
  beVal (taggedHash H "BIP0340/challenge" (r32 ++ pk ++ msg))

/-- `SchnorrVerify(pkey, sig, msg)`; `none` = panic (legacy code only) -/
def schnorrVerify? (fixed : Bool) (H : Hash) (pkey sig msg : Bytes) : Option Bool :=
  if fixed ∧ sig.length ≠ 64 then some false
  else if sig.length < 32 then none                     -- sig[:32] panics
  else
    -- raw limbs, never normalised: the source fact `Gen.C03Facts.schnorrSigRxRaw` (go/cmd/gen_c03,
    -- re-checked in Props/C03.lean `schnorr_sig_r_compared_raw`) pins exactly this about the Go code
    let rx := beVal (sig.take 32)
    match parseXOnly fixed pkey with
    | none => if fixed then some false else none        -- legacy: SetB32 panics on a short key
    | some P =>
      let e := challengeRaw H (sig.take 32) msg pkey
      let s := beVal (sig.drop 32)
      if fixed ∧ s ≥ n then some false
      else match ecmult (some P) ((n : Int) - e) s with
        | none => some false
        | some (x, y) => if y % 2 = 1 then some false else some (rx == x)

/-- `btc.SchnorrVerify` on the current code (never panics) -/
def schnorrVerify (H : Hash) (pkey sig msg : Bytes) : Bool :=
  (schnorrVerify? true H pkey sig msg).getD false

/-- `SchnorrSign(m, sk, a)`; `none` = returns nil. The current code starts with
    `if len(sk) != 32 { return nil }` (fix 5acc1e66), so `none` for every other key length is what the
    code does, for ALL (message, key, aux) byte strings. -/
def schnorrSign (H : Hash) (m sk a : Bytes) : Option Bytes :=
  if sk.length ≠ 32 then none
  else
    let d0 := beVal sk
    if d0 = 0 ∨ d0 ≥ n then none
    else match mul d0 G with
      | none => none
      | some (px, py) =>
        let d := if py % 2 = 1 then beBytes 32 (n - d0) else sk
        let t := xorBytes (taggedHash H "BIP0340/aux" a) d
        let k0 := taggedHash H "BIP0340/nonce" (t ++ beBytes 32 px ++ m)
        let kr := beVal k0 % n
        if kr = 0 then none
        else match mul kr G with
          | none => none
          | some (rx, ry) =>
            -- get_n_minus(k0) = |n - int(k0)| in 32 bytes; otherwise the raw hash bytes
            let k := if ry % 2 = 1 then ((n : Int) - beVal k0).natAbs else beVal k0
            let e := beVal (taggedHash H "BIP0340/challenge" (beBytes 32 rx ++ beBytes 32 px ++ m))
            let e := if e < n then e else e - n
            let s := (e * beVal d + k) % n
            let res := beBytes 32 rx ++ beBytes 32 s
            if schnorrVerify H (beBytes 32 px) res m then some res else none

/-- `SchnorrSign` AT THE PINNED SNAPSHOT had no length test on `sk`. This is the condition under which
    that code PANICKED (index out of range): key value in [1, n−1], public point with even Y (so
    `d = sk`, the slice as it came) and a slice shorter than the 32 bytes of the aux hash that the loop
    `for i := range t { t[i] ^= d[i] }` runs over. (With odd Y, `d = get_n_minus(sk)` has 32 bytes and
    the code went on; a longer slice with leading zeros signed with a nonce derived from `sk[:32]`.) -/
def schnorrSignLegacyPanics (sk : Bytes) : Bool :=
  let d0 := beVal sk
  if d0 = 0 ∨ d0 ≥ n then false
  else match mul d0 G with
    | none => false
    | some (_, py) => py % 2 == 0 && decide (sk.length < 32)

/-- `ECPublicTweakAdd` + `XOnlyPubkeyTweakAddCheck` + `CheckPayToContract`; `none` = panic (legacy) -/
def checkPayToContract? (fixed : Bool) (mKeydata base hash : Bytes) (parity : Bool) : Option Bool :=
  match parseXOnly fixed base with
  | none => if fixed then some false else none
  | some P =>
    let tweak := beVal hash
    if fixed ∧ tweak ≥ n then some false
    else match ecmult (some P) 1 tweak with
      | none => some false
      | some (x, y) => some (beBytes 32 x == mKeydata && (y % 2 == 1) == parity)

/-- `btc.CheckPayToContract` on the current code -/
def checkPayToContract (mKeydata base hash : Bytes) (parity : Bool) : Bool :=
  (checkPayToContract? true mKeydata base hash parity).getD false

/-- `btc.Signature.IsLowS` -/
def isLowS (s : Nat) : Bool := s ≤ halfOrder

end GocoinV.Model.Sig
