/-
  Model.Persist — what gocoin keeps on disk for the chain state, the exact ORDER of the file-system
  effects of every operation that touches it, and what a fresh process recovers from any prefix of
  that effect list.  Core-only, executable (oracle_c07), all recursion structural / fuelled so that
  the kernel can evaluate it.

  Mirrors (as written, /repo @ HEAD):
    lib/utxo/unspent_db.go   NewUnspentDb, save, CommitBlockTxs, UndoBlockTxs, Idle, Save, Close, abortWriting
    lib/chain/blockdb.go     BlockAdd, writeOne, writeAll, setBlockFlag, BlockTrusted, LoadBlockIndex
    lib/chain/chain.go       NewChainExt, Idle, Close
    lib/chain/chain_load.go  loadBlockIndex  (tip := snapshot's block, panic if unknown)
    lib/chain/chain_accept.go CommitBlock     lib/chain/chain_tree.go MoveToBlock, UndoLastBlock, ParseTillBlock
    client/main.go           do_the_blocks, LocalAcceptBlock (the client's recovery loop)

  Abstraction level: files hold their DECODED meaning (byte formats are C10's and C16's subject):
    UTXO.db / UTXO.old  : Option Snap            (block id, height, coin set)
    <hash>.db.tmp       : list of (tip, content being written, chunks on disk, flushed?)
    undo/tmp, undo/<h>  : (block id, coins to restore) — keyed by HEIGHT only, as in the code
    blockchain.dat      : list of blocks (data)        blockchain.new : list of index records
  A block is (id, parent, height, coins spent, coins created); all blocks have the same work.
  Crash semantics: process kill — the disk after a crash is `applyAll d (effects.take k)`.
  Every effect carries the vhook point that FOLLOWS it in the real code (`Pt`), pure points are `nop`;
  the harness compares the emitted point sequence with the real code's.
-/
namespace GocoinV.Persist

abbrev Coin := Nat
abbrev BlockId := Nat

structure Block where
  id : BlockId
  parent : BlockId
  height : Nat
  spends : List Coin
  creates : List Coin
deriving Repr, DecidableEq, Inhabited

structure Snap where
  tip : BlockId
  height : Nat
  coins : List Coin
deriving Repr, DecidableEq, Inhabited

structure Tmp where
  tip : BlockId
  snap : Snap
  chunks : Nat
  flushed : Bool
deriving Repr, DecidableEq

structure IdxRec where
  id : BlockId
  parent : BlockId
  height : Nat
  trusted : Bool
  invalid : Bool
deriving Repr, DecidableEq

structure UndoFile where
  blk : BlockId
  coins : List Coin
deriving Repr, DecidableEq

structure Disk where
  db : Option Snap := none
  old : Option Snap := none
  tmps : List Tmp := []
  undoTmp : Option UndoFile := none
  undo : List (Nat × UndoFile) := []
  dat : List Block := []
  idx : List IdxRec := []
deriving Repr, DecidableEq

/-- the vhook points of /repo (commit 6570cb3d) -/
inductive Pt
  | saveBegin | saveRenamedOld | fileCreated | saveChunk | fileChunk | saveFinito
  | fileAbortClosed | fileAbortRemoved | fileClosed | fileRenamed
  | undoBeforeWrite | undoTmpWritten | undoRenamed | beforeCommit | afterCommit | oldUndoRemoved
  | wrBeforeDat | wrDatWritten | wrIdxWritten | wrBeforePublish | flagBefore | flagAfter
  | cBeforeBlockAdd | cAfterBlockAdd | cAfterUtxo | cSideStored
  | moveUndone | moveDone | undoBeforeUtxo | undoAfterUtxo | parseBeforeUtxo | parseAfterUtxo
  | recovery   -- effects performed by the re-opening process itself (no vhook point)
deriving Repr, DecidableEq

def Pt.name : Pt → String
  | .saveBegin => "utxo.save:begin" | .saveRenamedOld => "utxo.save:renamed-old"
  | .fileCreated => "utxo.save.file:created" | .saveChunk => "utxo.save:chunk"
  | .fileChunk => "utxo.save.file:chunk" | .saveFinito => "utxo.save:finito"
  | .fileAbortClosed => "utxo.save.file:abort-closed" | .fileAbortRemoved => "utxo.save.file:abort-removed"
  | .fileClosed => "utxo.save.file:closed" | .fileRenamed => "utxo.save.file:renamed"
  | .undoBeforeWrite => "utxo.commit:undo-before-write" | .undoTmpWritten => "utxo.commit:undo-tmp-written"
  | .undoRenamed => "utxo.commit:undo-renamed" | .beforeCommit => "utxo.commit:before-commit"
  | .afterCommit => "utxo.commit:after-commit" | .oldUndoRemoved => "utxo.commit:old-undo-removed"
  | .wrBeforeDat => "blockdb.write:before-dat" | .wrDatWritten => "blockdb.write:dat-written"
  | .wrIdxWritten => "blockdb.write:idx-written" | .wrBeforePublish => "blockdb.write:before-publish"
  | .flagBefore => "blockdb.flag:before" | .flagAfter => "blockdb.flag:after"
  | .cBeforeBlockAdd => "chain.commit:before-blockadd" | .cAfterBlockAdd => "chain.commit:after-blockadd"
  | .cAfterUtxo => "chain.commit:after-utxo" | .cSideStored => "chain.commit:side-stored"
  | .moveUndone => "chain.move:undone" | .moveDone => "chain.move:done"
  | .undoBeforeUtxo => "chain.undo:before-utxo" | .undoAfterUtxo => "chain.undo:after-utxo"
  | .parseBeforeUtxo => "chain.parse:before-utxo" | .parseAfterUtxo => "chain.parse:after-utxo"
  | .recovery => "(recovery)"

inductive Effect
  | nop
  | renameDbOld                       -- os.Rename(UTXO.db, UTXO.old); fails (no change) when UTXO.db is absent
  | createTmp (s : Snap)              -- os.Create(<hash>.db.tmp)
  | chunkTmp (tip : BlockId)          -- of.Write(chunk)
  | flushTmp (tip : BlockId)          -- of.Flush(); of_.Close()
  | removeTmp (tip : BlockId)         -- os.Remove(<hash>.db.tmp)
  | renameTmpDb (tip : BlockId)       -- os.Rename(<hash>.db.tmp, UTXO.db)
  | writeUndoTmp (u : UndoFile)       -- os.WriteFile(undo/tmp)
  | renameUndoTmp (h : Nat)           -- os.Rename(undo/tmp, undo/<h>)
  | removeUndoTmp
  | appendDat (b : Block)
  | appendIdx (r : IdxRec)
  | setTrusted (id : BlockId)         -- 1-byte pwrite of the flag byte
deriving Repr, DecidableEq

abbrev LEffect := Effect × Pt

def setUndo (l : List (Nat × UndoFile)) (h : Nat) (u : UndoFile) : List (Nat × UndoFile) :=
  (h, u) :: l.filter (fun p => p.1 != h)

def getUndo (l : List (Nat × UndoFile)) (h : Nat) : Option UndoFile :=
  (l.find? (fun p => p.1 == h)).map (·.2)

def apply (d : Disk) : Effect → Disk
  | .nop => d
  | .renameDbOld => match d.db with
    | none => d
    | some s => { d with db := none, old := some s }
  | .createTmp s => { d with tmps := { tip := s.tip, snap := s, chunks := 0, flushed := false } :: d.tmps.filter (·.tip != s.tip) }
  | .chunkTmp t => { d with tmps := d.tmps.map (fun x => if x.tip == t then { x with chunks := x.chunks + 1 } else x) }
  | .flushTmp t => { d with tmps := d.tmps.map (fun x => if x.tip == t then { x with flushed := true } else x) }
  | .removeTmp t => { d with tmps := d.tmps.filter (·.tip != t) }
  | .renameTmpDb t => match d.tmps.find? (·.tip == t) with
    | none => d
    | some x => { d with db := some x.snap, tmps := d.tmps.filter (·.tip != t) }
  | .writeUndoTmp u => { d with undoTmp := some u }
  | .renameUndoTmp h => match d.undoTmp with
    | none => d
    | some u => { d with undoTmp := none, undo := setUndo d.undo h u }
  | .removeUndoTmp => { d with undoTmp := none }
  | .appendDat b => { d with dat := d.dat ++ [b] }
  | .appendIdx r => { d with idx := d.idx ++ [r] }
  | .setTrusted id => { d with idx := d.idx.map (fun r => if r.id == id then { r with trusted := true } else r) }

def applyAll (d : Disk) (es : List LEffect) : Disk := es.foldl (fun d e => apply d e.1) d

/-! ### the unspent set -/

def commitU (u : List Coin) (b : Block) : List Coin :=
  u.filter (fun c => !b.spends.contains c) ++ b.creates

def validOn (u : List Coin) (b : Block) : Bool :=
  b.spends.all (fun c => u.contains c)

/-- UndoBlockTxs: delete every record the block created, then put back the coins of the undo FILE -/
def undoU (u : List Coin) (b : Block) (back : List Coin) : List Coin :=
  let u1 := u.filter (fun c => !b.creates.contains c)
  u1 ++ back.filter (fun c => !u1.contains c)

/-! ### the node (in-memory state of Chain + UnspentDB + BlockDB) -/

structure TNode where
  id : BlockId
  parent : BlockId
  height : Nat
deriving Repr, DecidableEq

structure BRec where
  id : BlockId
  trusted : Bool
  onDisk : Bool
deriving Repr, DecidableEq

structure Node where
  tree : List TNode := []          -- BlockIndex / block tree in insertion order (genesis = 0 implicit)
  mem : List Block := []           -- block data held in memory (cache of blocks received by this process)
  tip : BlockId := 0
  tipHeight : Nat := 0
  utxo : List Coin := []
  lastHeight : Nat := 0            -- UnspentDB.LastBlockHeight
  queue : List Block := []         -- BlockDB.blocksToWrite
  recs : List BRec := []           -- BlockDB.blockIndex
  dirty : Bool := false
  heightOnDisk : Nat := 0
  skip : Nat := 0
  pause : Bool := false
  saving : Option (Snap × Nat) := none   -- a save paused after its first chunk: (content, chunks still to write)
  bigs : List Coin := []
deriving Repr

structure St where
  n : Node
  d : Disk
  es : List LEffect := []          -- every effect so far, in order
  err : Option String := none      -- a panic of the running process
  /-- GHOST (never read by the model): UndoBlockTxs has read an undo/<height> file whose first 32 bytes name ANOTHER
      block than the one being undone (the code skips these bytes instead of comparing them — known finding F8) -/
  foreign : Bool := false

def St.emit (s : St) (e : Effect) (p : Pt) : St :=
  { s with d := apply s.d e, es := s.es ++ [(e, p)] }

def St.fail (s : St) (m : String) : St := if s.err.isSome then s else { s with err := some m }

def heightOf (n : Node) (id : BlockId) : Option Nat :=
  if id == 0 then some 0 else (n.tree.find? (·.id == id)).map (·.height)

def parentOf (n : Node) (id : BlockId) : BlockId :=
  match n.tree.find? (·.id == id) with
  | some t => t.parent
  | none => 0

def inTree (n : Node) (id : BlockId) : Bool := id == 0 || n.tree.any (·.id == id)

/-- path from `a` (exclusive) down to `b` (inclusive), top-down; `a` must be an ancestor of `b` -/
def pathUp (n : Node) : Nat → BlockId → BlockId → List BlockId → Option (List BlockId)
  | 0, _, _, _ => none
  | fuel + 1, a, b, acc =>
    if b == a then some acc
    else if b == 0 then none
    else pathUp n fuel a (parentOf n b) (b :: acc)

def ancestorAt (n : Node) : Nat → BlockId → Nat → BlockId
  | 0, b, _ => b
  | fuel + 1, b, h =>
    match heightOf n b with
    | some hb => if hb ≤ h then b else ancestorAt n fuel (parentOf n b) h
    | none => b

/-- FindFirstFather -/
def firstFather (n : Node) : Nat → BlockId → BlockId → BlockId
  | 0, a, _ => a
  | fuel + 1, a, b =>
    if a == b then a
    else
      let ha := (heightOf n a).getD 0
      let hb := (heightOf n b).getD 0
      if ha > hb then firstFather n fuel (parentOf n a) b
      else if hb > ha then firstFather n fuel a (parentOf n b)
      else firstFather n fuel (parentOf n a) (parentOf n b)

/-- FindFarthestNode with equal work: the deepest node; the first (in tree order) wins ties.
    Returns (node, height, tie?) where tie? says that another node has the same height. -/
def farthest (n : Node) : BlockId × Nat × Bool :=
  n.tree.foldl (fun (acc : BlockId × Nat × Bool) t =>
    if t.height > acc.2.1 then (t.id, t.height, false)
    else if t.height == acc.2.1 && acc.2.1 != 0 then (acc.1, acc.2.1, true)
    else acc) (0, 0, false)

def blockData (s : St) (id : BlockId) : Option Block :=
  match s.n.mem.find? (·.id == id) with
  | some b => some b
  | none => s.d.dat.find? (·.id == id)

def fuelOf (n : Node) : Nat := n.tree.length + 2

/-! ### UnspentDB.save and its abort -/

def nBig (n : Node) : Nat := (n.bigs.filter (fun c => n.utxo.contains c)).length

def fullChunks (s : St) (t : BlockId) : Nat → St
  | 0 => s
  | k + 1 => fullChunks ((s.emit .nop .saveChunk).emit (.chunkTmp t) .fileChunk) t k

/-- the tail of a save after its last full chunk: finito, final partial chunk, flush+close, rename -/
def finishSave (s : St) (sn : Snap) : St :=
  let s := s.emit .nop .saveFinito
  let s := s.emit (.chunkTmp sn.tip) .fileChunk
  let s := s.emit (.flushTmp sn.tip) .fileClosed
  let s := s.emit (.renameTmpDb sn.tip) .fileRenamed
  { s with n := { s.n with dirty := false, heightOnDisk := sn.height, saving := none } }

/-- UnspentDB.Save → go save() -/
def startSave (s : St) (hurry : Bool) : St :=
  if s.n.saving.isSome then s else
  let sn : Snap := { tip := s.n.tip, height := s.n.lastHeight, coins := s.n.utxo }
  let s := s.emit .nop .saveBegin
  let s := s.emit .renameDbOld .saveRenamedOld
  let s := s.emit (.createTmp sn) .fileCreated
  let nb := nBig s.n
  if s.n.pause && !hurry && nb ≥ 1 then
    -- writing-time target not reached: after the first chunk the save goroutine waits for abort / hurry-up
    let s := (s.emit .nop .saveChunk).emit (.chunkTmp sn.tip) .fileChunk
    { s with n := { s.n with saving := some (sn, nb - 1) } }
  else
    finishSave (fullChunks s sn.tip nb) sn

/-- abortWriting (CommitBlockTxs / UndoBlockTxs / LocalAcceptBlock) -/
def abortSave (s : St) : St :=
  match s.n.saving with
  | none => s
  | some (sn, _) =>
    let s := s.emit .nop .saveFinito
    let s := s.emit .nop .fileAbortClosed
    let s := s.emit (.removeTmp sn.tip) .fileAbortRemoved
    { s with n := { s.n with saving := none } }

/-- HurryUp on a paused save -/
def hurrySave (s : St) : St :=
  match s.n.saving with
  | none => s
  | some (sn, rest) => finishSave (fullChunks s sn.tip rest) sn

/-! ### CommitBlockTxs / UndoBlockTxs -/

def commitBlockTxs (s : St) (b : Block) : St :=
  let s := abortSave s
  let s := s.emit .nop .undoBeforeWrite
  let s := s.emit (.writeUndoTmp { blk := b.id, coins := b.spends }) .undoTmpWritten
  let s := s.emit (.renameUndoTmp b.height) .undoRenamed
  let s := s.emit .nop .beforeCommit
  let s := { s with n := { s.n with utxo := commitU s.n.utxo b } }
  let s := s.emit .nop .afterCommit
  { s with n := { s.n with lastHeight := b.height, dirty := true } }

def undoLastBlock (s : St) : St :=
  if s.err.isSome then s else
  match blockData s s.n.tip with
  | none => s.fail "UndoLastBlock: block data unavailable"
  | some b =>
    let s := s.emit .nop .undoBeforeUtxo
    let s := abortSave s
    match getUndo s.d.undo s.n.lastHeight with
    | none => s.fail "UndoBlockTxs: undo file missing"
    | some uf =>
      let s := { s with foreign := s.foreign || uf.blk != s.n.tip }   -- ghost observation only
      let s := { s with n := { s.n with utxo := undoU s.n.utxo b uf.coins, lastHeight := s.n.lastHeight - 1, dirty := true } }
      let s := s.emit .nop .undoAfterUtxo
      { s with n := { s.n with tip := b.parent, tipHeight := b.height - 1 } }

def undoN (s : St) : Nat → St
  | 0 => s
  | k + 1 => undoN (undoLastBlock s) k

def recTrusted (n : Node) (id : BlockId) : Bool :=
  match n.recs.find? (·.id == id) with
  | some r => r.trusted
  | none => false

def setRecTrusted (n : Node) (id : BlockId) : Node :=
  { n with recs := n.recs.map (fun r => if r.id == id then { r with trusted := true } else r) }

/-- BlockDB.BlockTrusted → setBlockFlag (the pwrite lands only when the record is on disk) -/
def blockTrusted (s : St) (id : BlockId) : St :=
  if recTrusted s.n id then s else
  let onDisk := match s.n.recs.find? (·.id == id) with
    | some r => r.onDisk
    | none => false
  let s := s.emit .nop .flagBefore
  let s := s.emit (if onDisk then .setTrusted id else .nop) .flagAfter
  { s with n := setRecTrusted s.n id }

/-- ParseTillBlock over a pre-computed path (all blocks valid; an invalid block stops with an error
    the oracle reports as unsupported — DeleteBranch is not modelled) -/
def parsePath (s : St) : List BlockId → St
  | [] => s
  | id :: rest =>
    if s.err.isSome then s else
    match blockData s id with
    | none => s.fail "Db.BlockGet(): block data unavailable"
    | some b =>
      if !validOn s.n.utxo b then s.fail "unsupported: invalid block on the new branch"
      else
        let s := blockTrusted s id
        let s := s.emit .nop .parseBeforeUtxo
        let s := commitBlockTxs s b
        let s := s.emit .nop .parseAfterUtxo
        parsePath { s with n := { s.n with tip := id, tipHeight := b.height } } rest

def moveToBlock (s : St) (dst : BlockId) : St :=
  let f := fuelOf s.n
  let anc := firstFather s.n (2 * f) s.n.tip dst
  let down := s.n.tipHeight - (heightOf s.n anc).getD 0
  let s := undoN s down
  if s.err.isSome then s else
  let s := s.emit .nop .moveUndone
  match pathUp s.n f anc dst [] with
  | none => s.fail "unknown path to block"
  | some p =>
    let s := parsePath s p
    if s.err.isSome then s else s.emit .nop .moveDone

/-- BlockDB.BlockAdd -/
def blockAdd (n : Node) (b : Block) (trusted : Bool) : Node :=
  match n.recs.find? (·.id == b.id) with
  | none => { n with recs := n.recs ++ [{ id := b.id, trusted := trusted, onDisk := false }], queue := n.queue ++ [b],
                     mem := if n.mem.any (·.id == b.id) then n.mem else n.mem ++ [b] }
  | some r => if !r.trusted && trusted && !r.onDisk then setRecTrusted n b.id else n

/-- Chain.CommitBlock for a node already in the tree -/
def commitBlock (s : St) (b : Block) : St :=
  if s.err.isSome then s else
  if s.n.tip == b.parent then
    if !validOn s.n.utxo b then
      { s with n := { s.n with tree := s.n.tree.filter (·.id != b.id) } }
    else
      let s := s.emit .nop .cBeforeBlockAdd
      -- BlockAdd of a known, untrusted, on-disk record goes through BlockTrusted (flag rewrite)
      let viaFlag := match s.n.recs.find? (·.id == b.id) with
        | some r => !r.trusted && r.onDisk
        | none => false
      let s := if viaFlag then blockTrusted s b.id else { s with n := blockAdd s.n b true }
      let s := s.emit .nop .cAfterBlockAdd
      let s := commitBlockTxs s b
      let s := s.emit .nop .cAfterUtxo
      { s with n := { s.n with tip := b.id, tipHeight := b.height } }
  else
    let s := { s with n := blockAdd s.n b false }
    let s := s.emit .nop .cSideStored
    if b.height > s.n.tipHeight then moveToBlock s b.id else s

/-- CheckBlock + AcceptBlock of a block received from outside -/
def submit (s : St) (b : Block) : St :=
  if s.err.isSome then s else
  if inTree s.n b.id then s                       -- "already in"
  else if !inTree s.n b.parent then s             -- parent not found
  else
    let s := { s with n := { s.n with tree := s.n.tree ++ [{ id := b.id, parent := b.parent, height := b.height }],
                                       mem := if s.n.mem.any (·.id == b.id) then s.n.mem else s.n.mem ++ [b] } }
    commitBlock s b

/-! ### BlockDB.writeAll, Chain.Idle, Chain.Close -/

def writeOne (s : St) (b : Block) : St :=
  match s.n.recs.find? (·.id == b.id) with
  | none => s
  | some r =>
    if r.onDisk then s else
    let s := s.emit .nop .wrBeforeDat
    let s := s.emit (.appendDat b) .wrDatWritten
    let s := s.emit (.appendIdx { id := b.id, parent := b.parent, height := b.height, trusted := r.trusted, invalid := false }) .wrIdxWritten
    let s := s.emit .nop .wrBeforePublish
    { s with n := { s.n with recs := s.n.recs.map (fun x => if x.id == b.id then { x with onDisk := true } else x) } }

def writeAll (s : St) : St :=
  let q := s.n.queue
  let s := { s with n := { s.n with queue := [] } }
  q.foldl writeOne s

/-- UnspentDB.Idle: the uint32 subtraction wraps when the tip moved below the saved height -/
def wantSave (n : Node) : Bool :=
  n.dirty && (n.lastHeight + 4294967296 - n.heightOnDisk) % 4294967296 > n.skip

def idle (s : St) : St :=
  if s.err.isSome then s else
  let s := writeAll s
  if wantSave s.n then startSave s false else s

def close (s : St) : St :=
  if s.err.isSome then s else
  let s := writeAll s
  if s.n.dirty then
    if s.n.saving.isSome then hurrySave s else startSave s true
  else s

/-! ### recovery: what a fresh process makes of a directory -/

/-- NewUnspentDb: remove undo/tmp and every *.db.tmp, load UTXO.db, else UTXO.old, else empty -/
def recoverUnspent (d : Disk) : Disk × List LEffect × Option Snap :=
  let es : List LEffect := [(.removeUndoTmp, .recovery)] ++ d.tmps.map (fun t => (Effect.removeTmp t.tip, Pt.recovery))
  let d' := applyAll d es
  (d', es, match d'.db with | some s => some s | none => d'.old)

/-- LoadBlockIndex + loadBlockIndex: every complete, not-invalid record whose parent is known -/
def loadTree (d : Disk) : List TNode :=
  let rs := d.idx.filter (fun r => !r.invalid)
  (rs.filter (fun r => r.parent == 0 || rs.any (·.id == r.parent))).map (fun r => { id := r.id, parent := r.parent, height := r.height })

def openNode (d : Disk) (bigs : List Coin) (skip : Nat) : Except String St :=
  let (d1, es, sn) := recoverUnspent d
  let tree := loadTree d1
  let recs := (d1.idx.filter (fun r => !r.invalid)).map (fun r => ({ id := r.id, trusted := r.trusted, onDisk := true } : BRec))
  let base : Node := { tree := tree, recs := recs, bigs := bigs, skip := skip }
  match sn with
  | none => .ok { n := base, d := d1, es := es }
  | some s =>
    if s.tip != 0 && !tree.any (·.id == s.tip) then .error "Last Block Hash not found"
    else .ok { n := { base with tip := s.tip, tipHeight := s.height, utxo := s.coins, lastHeight := s.height, heightOnDisk := s.height }, d := d1, es := es }

/-- client/main.go do_the_blocks: feed the blocks found on disk from FindFirstFather(tip, end) to end
    through LocalAcceptBlock → CommitBlock -/
def feedPath (s : St) : List BlockId → St
  | [] => s
  | id :: rest =>
    if s.err.isSome then s else
    match s.d.dat.find? (·.id == id) with
    | none => s.fail "No data for block"
    | some b => feedPath (commitBlock (abortSave s) b) rest

def clientRecover (s : St) : St :=
  let (e, eh, _) := farthest s.n
  if eh ≤ s.n.tipHeight then s else
  let f := fuelOf s.n
  let anc := firstFather s.n (2 * f) s.n.tip e
  match pathUp s.n f anc e [] with
  | none => s.fail "unknown path to block"
  | some p => feedPath s p

/-- the whole restart as the client performs it -/
def recover (d : Disk) (bigs : List Coin) : Except String St :=
  match openNode d bigs 0 with
  | .error e => .error e
  | .ok s =>
    let s := clientRecover s
    match s.err with
    | some e => .error e
    | none => .ok s

/-- GHOST (never read by the model): did the client's restart on `d` — successful or not — read an undo file of another block? -/
def recoverForeign (d : Disk) (bigs : List Coin) : Bool :=
  match openNode d bigs 0 with
  | .error _ => false
  | .ok s => (clientRecover s).foreign

/-! ### workloads -/

inductive Op
  | submit (b : Block) | idle | close | reopen | skip (n : Nat) | pause (b : Bool) | hurry
deriving Repr

def step (s : St) : Op → St
  | .submit b => submit s b
  | .idle => idle s
  | .close => close s
  | .reopen =>
    if s.err.isSome then s else
    match recover s.d s.n.bigs with
    | .error e => { (s.fail e) with foreign := s.foreign || recoverForeign s.d s.n.bigs }   -- ghost flag survives a failed restart
    | .ok s' => { s' with es := s.es ++ s'.es, foreign := s.foreign || s'.foreign, n := { s'.n with skip := s.n.skip, pause := s.n.pause } }
  | .skip k => { s with n := { s.n with skip := k } }
  | .pause b => { s with n := { s.n with pause := b } }
  | .hurry => if s.err.isSome then s else hurrySave s

def run (bigs : List Coin) (ops : List Op) : St :=
  ops.foldl step { n := { bigs := bigs }, d := {} }

def submitted : List Op → List Block
  | [] => []
  | .submit b :: r => b :: submitted r
  | _ :: r => submitted r

/-- blocks of the workload handed to the node up to (and including the one being processed at) effect k:
    for the model we feed ALL blocks of the workload after recovery, known ones are skipped -/
def feedAll (s : St) (bs : List Block) : St := idle (bs.foldl submit s)

/-- crash after the first k effects of the workload, restart, recover; then feed every block of the workload -/
def crashAt (bigs : List Coin) (ops : List Op) (k : Nat) : Except String (St × St × St) :=
  let w := run bigs ops
  let d := applyAll {} (w.es.take k)
  match openNode d bigs 0 with
  | .error e => .error e
  | .ok s1 =>
    let s2 := clientRecover s1
    match s2.err with
    | some e => .error e
    | none =>
      let s3 := feedAll { s2 with es := [] } (submitted ops)
      match s3.err with
      | some e => .error e
      | none => .ok (s1, s2, s3)

/-! ### the specification side: replay of a tip's chain -/

def findBlock (bs : List Block) (id : BlockId) : Option Block := bs.find? (·.id == id)

/-- chain of `id` from genesis (exclusive), top-down -/
def chainOf (bs : List Block) : Nat → BlockId → List Block → List Block
  | 0, _, acc => acc
  | fuel + 1, id, acc =>
    if id == 0 then acc else
    match findBlock bs id with
    | none => acc
    | some b => chainOf bs fuel b.parent (b :: acc)

def replay (bs : List Block) (id : BlockId) : List Coin :=
  (chainOf bs (bs.length + 1) id []).foldl commitU []

def sameSet (a b : List Coin) : Bool := a.all (b.contains ·) && b.all (a.contains ·)

/-- the property's predicate for one crash point -/
def consistentAt (bigs : List Coin) (ops : List Op) (k : Nat) : Bool :=
  match crashAt bigs ops k with
  | .error _ => false
  | .ok (_, s2, s3) =>
    let bs := submitted ops
    let w := run bigs ops
    (s2.n.tip == 0 || bs.any (·.id == s2.n.tip)) && sameSet s2.n.utxo (replay bs s2.n.tip)
      && s3.n.tip == w.n.tip && sameSet s3.n.utxo w.n.utxo

end GocoinV.Persist
