/-
  Model.BalancesCfg — configuration changes while the balance index is being BUILT.

  `common.Reset()` (client/common/config.go) is what the WebUI config page and the TextUI `configset` / `configload`
  commands call after they have overwritten `common.CFG` — from their own goroutines, at any time, in particular
  between two records of a running `wallet.LoadBalancesFromUtxo()` (WalletON is false during that whole scan).
  The per-output guards of NewUTXO / all_del_utxos compare with the value IN FORCE, `common.AllBalMinVal()`
  (= the package variable `allBalMinVal`), not with `CFG.AllBalances.MinValue`.

  `afterReset` says what a Reset does to the value in force AS THE SOURCE IS WRITTEN: the generated fact
  `Gen.WalletCfgFacts.resetMayWriteMinVal` (regenerated from /repo on every run by go/cmd/gen_c17) tells whether a
  store to `allBalMinVal` is reachable from `Reset`. `loadLoopR` is `BalancesLoad.loadLoop` with the value in force as
  an explicit loop variable and a schedule `chg` of config changes landing after the n-th record.
  Core-only.
-/
import GocoinV.Model.BalancesLoad
import GocoinV.Gen.WalletCfgFacts
namespace GocoinV.Model.BalancesCfg
open GocoinV GocoinV.Model.Balances GocoinV.Model.BalancesLoad

/-- the minimum in force after `CFG.AllBalances.MinValue = v; common.Reset()` -/
def afterReset (inForce v : Nat) : Nat :=
  if Gen.WalletCfgFacts.resetMayWriteMinVal then v else inForce

/-- the scan of LoadBalancesFromUtxo with config changes: `chg n = some v` — after the n-th record (where
    FetchingBalanceTick is polled; any other goroutine may run there) the config gets MinValue `v` and Reset() runs.
    `m` is `allBalMinVal`. Result: maps, static buffers, aborted?, the minimum in force at the end. -/
def loadLoopR (P : Parser) (um : Nat) (H : Bytes → Nat) (tick : Nat → Bool) (chg : Nat → Option Nat) :
    List Bytes → Nat → Static → Nat → BalMap → Option (BalMap × Static × Bool × Nat)
  | [], _, st, m, bal => some (bal, st, false, m)
  | b :: rest, n, st, m, bal =>
    match staticDec P b st with
    | .ok (r, st') =>
      let bal' := newUTXO { min := m, useMapCnt := um } H bal (toBal r)
      let m' := match chg (n + 1) with
        | some v => afterReset m v
        | none => m
      if tick (n + 1) then some (bal', st', true, m') else loadLoopR P um H tick chg rest (n + 1) st' m' bal'
    | _ => none

/-- `wallet.LoadBalancesFromUtxo()` over the raw records in scan order, with config changes landing during the scan.
    `common.ApplyBalMinVal()` before the loop puts `mn` (CFG.AllBalances.MinValue at that moment) in force; the state's
    `cfg.min` afterwards is the value in force when the function returns. -/
def loadFromUtxoR (P : Parser) (H : Bytes → Nat) (tick : Nat → Bool) (chg : Nat → Option Nat) (s : State) (st : Static)
    (raw : List Bytes) (mn um : Nat) : Option (State × Static) :=
  if s.on then some (s, st)
  else
    match loadLoopR P um H tick chg raw 0 st mn [] with
    | none => none
    | some (bal, st', aborted, m) =>
      if aborted then some ({ s with cfg := { min := m, useMapCnt := um }, bal := [], on := false }, st')
      else some ({ s with cfg := { min := m, useMapCnt := um }, bal := bal, on := true }, st')

end GocoinV.Model.BalancesCfg
