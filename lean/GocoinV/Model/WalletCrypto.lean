/-
  Model.WalletCrypto — the hash / KDF functions the C14 models are parameterised over.
  Theorems of Props/C14 hold for EVERY instance (they never unfold a hash function); the oracle
  instantiates the structure with the executable SHA-256 / RIPEMD-160 / HMAC-SHA512 / PBKDF2 of Base/
  ("modelled, not verified", validated against Go's crypto by the harness). scrypt stays opaque:
  the harness computes it on the Go side and hands the value to the oracle.
-/
import GocoinV.Model.Addr
namespace GocoinV

structure WalletCrypto where
  /-- `sha256.Sum256` -/
  sha256 : Bytes → Bytes
  /-- `btc.ShaHash` = SHA256(SHA256(x)), 32 bytes -/
  shaHash : Bytes → Bytes
  /-- `btc.RimpHash` = RIPEMD160(SHA256(x)), 20 bytes -/
  hash160 : Bytes → Bytes
  /-- `hmac.New(sha512.New, key); Write(msg); Sum(nil)`, 64 bytes -/
  hmac512 : Bytes → Bytes → Bytes
  /-- `pbkdf2Key(password, salt, 2048, 64, sha512.New)` -/
  pbkdf2 : Bytes → Bytes → Bytes
  /-- `scrypt.Key(pass, "Gocoin scrypt password salt", 1<<n, 8, 1, 32)`; `none` = error -/
  scrypt : Bytes → Nat → Option Bytes

def WalletCrypto.hashes (C : WalletCrypto) : Addr.Hashes := { sha2sum := C.shaHash, hash160 := C.hash160 }

end GocoinV
