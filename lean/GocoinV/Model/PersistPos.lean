/-
  Model.PersistPos — the FILE POSITIONS inside blockchain.dat, which Model/Persist.lean abstracts away (there the
  data file is an append-only list of blocks looked up by id).  Core-only, executable (oracle_c07 op `pos`).

  Mirrors lib/chain/blockdb.go (as written, /repo @ HEAD):
    LoadBlockIndex : maxdatfilepos := max over the index records of fpos+blen;
                     blockdata = OpenFile(dat, O_RDWR|O_CREATE); blockdata.Seek(maxdatfilepos)
                     ("in case if there was some trash at the end of data or index file, this should truncate it")
    writeOne       : blockdata.Write(data) — at the handle's offset —; index record with fpos := maxdatfilepos;
                     maxdatfilepos += len(data)
    BlockGet       : ReadAt(fpos, blen) of the record
  The data file is modelled by what physically lies where: entries (offset, block id, length) plus the file length; a
  write at `pos` destroys every entry it overlaps.  `appendMode` = the handle was opened with O_APPEND (the kernel then
  ignores the offset and writes at the end of file) — NOT what the code does; it is here so that the model can say
  what goes wrong if the Seek is defeated (an orphaned data tail left by a kill between the data write and the index
  write then stays in the file and every later index record points before its data).
  Histories: `write` (both effects), `crashMid` (the process is killed between the data write and the index write,
  then restarted), `restart` (killed between two writeOne calls, or closed, then restarted).
-/
namespace GocoinV.Persist

structure DatFile where
  ents : List (Nat × Nat × Nat) := []     -- (offset, block id, length)
  len : Nat := 0
deriving Repr, DecidableEq

/-- pwrite of `l` bytes of block `id` at offset `pos` -/
def DatFile.write (f : DatFile) (pos id l : Nat) : DatFile :=
  { ents := f.ents.filter (fun e => (e.1 + e.2.2 ≤ pos || pos + l ≤ e.1) && e.1 != pos) ++ [(pos, id, l)],
    len := max f.len (pos + l) }

/-- ReadAt(pos, l): the block whose data lies exactly there, if any -/
def DatFile.read (f : DatFile) (pos l : Nat) : Option Nat :=
  (f.ents.find? (fun e => e.1 == pos)).bind (fun e => if e.2.2 == l then some e.2.1 else none)

structure PRec where
  id : Nat
  fpos : Nat
  blen : Nat
deriving Repr, DecidableEq

structure PDisk where
  dat : DatFile := {}
  idx : List PRec := []
deriving Repr, DecidableEq

structure PNode where
  maxdatfilepos : Nat := 0
  off : Nat := 0            -- file offset of the open blockdata handle
deriving Repr, DecidableEq

structure PSt where
  n : PNode := {}
  d : PDisk := {}
deriving Repr, DecidableEq

def maxEnd (idx : List PRec) : Nat := idx.foldl (fun m r => max m (r.fpos + r.blen)) 0

/-- LoadBlockIndex + the seek on the freshly opened data file -/
def popen (d : PDisk) : PSt :=
  { n := { maxdatfilepos := maxEnd d.idx, off := maxEnd d.idx }, d := d }

/-- where Write() puts the bytes -/
def writePos (appendMode : Bool) (s : PSt) : Nat := if appendMode then s.d.dat.len else s.n.off

/-- first half of writeOne: blockdata.Write(data) -/
def pwriteDat (appendMode : Bool) (s : PSt) (id l : Nat) : PSt :=
  let p := writePos appendMode s
  { s with d := { s.d with dat := s.d.dat.write p id l }, n := { s.n with off := p + l } }

/-- second half: the index record (fpos := maxdatfilepos), maxdatfilepos += len -/
def pwriteIdx (s : PSt) (id l : Nat) : PSt :=
  { s with d := { s.d with idx := s.d.idx ++ [{ id := id, fpos := s.n.maxdatfilepos, blen := l }] },
           n := { s.n with maxdatfilepos := s.n.maxdatfilepos + l } }

inductive POp
  | write (id l : Nat)       -- writeOne completes
  | crashMid (id l : Nat)    -- killed after the data write, before the index write; restart
  | restart                  -- killed (or closed) between two writeOne calls; restart
deriving Repr, DecidableEq

def pstep (appendMode : Bool) (s : PSt) : POp → PSt
  | .write id l => pwriteIdx (pwriteDat appendMode s id l) id l
  | .crashMid id l => popen (pwriteDat appendMode s id l).d
  | .restart => popen s.d

def prun (appendMode : Bool) (s : PSt) (ops : List POp) : PSt := ops.foldl (pstep appendMode) s

/-- every index record reads back its own block -/
def readsBack (d : PDisk) : Bool := d.idx.all (fun r => d.dat.read r.fpos r.blen == some r.id)

end GocoinV.Persist
