/-
  Model.Bech32 — statement-by-statement mirror of lib/others/bech32/bech32.go and segwit.go.
  Go strings are byte strings (`Bytes`). Go's ("" , nil) error results are `none`.
  The constants (generator, charset, charset_rev, final constants) are REGENERATED from the
  source on every run into GocoinV/Gen/Bech32Consts.lean by go/cmd/translate.
-/
import GocoinV.Base.Bytes
import GocoinV.Gen.Bech32Consts
namespace GocoinV.Bech32

open Gen.Bech32Consts

/-- `bech32_polymod_step`: the GENERATED translation of the Go function body. -/
abbrev polymodStep (pre : UInt32) : UInt32 := Gen.Bech32Consts.polymodStep pre

def finalConstant (bech32m : Bool) : UInt32 := if bech32m then finalM else final1

def charsetAt (v : UInt8) : UInt8 := charset.getD v.toNat 0
def charsetRev (c : UInt8) : UInt8 := charsetRev128.getD c.toNat 99

def isUpper (c : UInt8) : Bool := 65 ≤ c.toNat && c.toNat ≤ 90
def isLower (c : UInt8) : Bool := 97 ≤ c.toNat && c.toNat ≤ 122

/-- first loop of `Encode`: validates the hrp and folds the high bits -/
def hrpHigh? : Bytes → UInt32 → Option UInt32
  | [], chk => some chk
  | ch :: t, chk =>
    if ch.toNat < 33 ∨ ch.toNat > 126 then none
    else if isUpper ch then none
    else hrpHigh? t (polymodStep chk ^^^ (ch.toUInt32 >>> 5))

def hrpLow : Bytes → UInt32 → UInt32
  | [], chk => chk
  | ch :: t, chk => hrpLow t (polymodStep chk ^^^ (ch &&& 0x1f).toUInt32)

def dataFold? : Bytes → UInt32 → Option UInt32
  | [], chk => some chk
  | d :: t, chk => if d >>> 5 ≠ 0 then none else dataFold? t (polymodStep chk ^^^ d.toUInt32)

def six (chk : UInt32) : UInt32 :=
  polymodStep (polymodStep (polymodStep (polymodStep (polymodStep (polymodStep chk)))))

def checksumSyms (chk : UInt32) : Bytes :=
  (List.range 6).map fun i => ((chk >>> (UInt32.ofNat ((5 - i) * 5))) &&& 0x1f).toUInt8

/-- `bech32.Encode`; `none` = the Go function returns "". The first guard (`len(hrp) < 1`) is /repo's
    `fix:` aaaa0fae: before it `Encode("", data, m)` returned "1" ++ data ++ checksum, a string `Decode` refuses. -/
def encode (hrp data : Bytes) (bech32m : Bool) : Option Bytes := do
  if hrp.length < 1 then none
  let chk ← hrpHigh? hrp 1
  if hrp.length + 7 + data.length > 90 then none
  let chk := polymodStep chk
  let chk := hrpLow hrp chk
  let chk ← dataFold? data chk
  let chk := six chk ^^^ finalConstant bech32m
  pure (hrp ++ [49] ++ data.map charsetAt ++ (checksumSyms chk).map charsetAt)

/-- number of trailing characters after the last '1' (the whole length when there is none) -/
def dataLenOf (input : Bytes) : Nat := (input.reverse.takeWhile (· ≠ 49)).length

structure HrpScan where
  chk : UInt32
  hrp : Bytes
  lower : Bool
  upper : Bool

/-- first hrp loop of `Decode` -/
def decHrp? : Bytes → HrpScan → Option HrpScan
  | [], s => some s
  | ch :: t, s =>
    if ch.toNat < 33 ∨ ch.toNat > 126 then none
    else
      let lo := s.lower || isLower ch
      let up := s.upper || (!isLower ch && isUpper ch)
      let ch' : UInt8 := if !isLower ch && isUpper ch then (ch - 65) + 97 else ch
      decHrp? t { chk := polymodStep s.chk ^^^ (ch' >>> 5).toUInt32, hrp := s.hrp ++ [ch'], lower := lo, upper := up }

structure DataScan where
  chk : UInt32
  vals : Bytes
  lower : Bool
  upper : Bool

def decData? : Bytes → DataScan → Option DataScan
  | [], s => some s
  | c :: t, s =>
    if c &&& 0x80 ≠ 0 then none
    else
      let v := charsetRev c
      if v.toNat > 31 then none
      else decData? t { chk := polymodStep s.chk ^^^ v.toUInt32, vals := s.vals ++ [v],
                        lower := s.lower || isLower c, upper := s.upper || isUpper c }

/-- `bech32.Decode`; `none` = ("", nil, false). Result: (hrp lower-cased, data symbols, bech32m). -/
def decode (input : Bytes) : Option (Bytes × Bytes × Bool) :=
  let n := input.length
  if n < 8 ∨ n > 90 then none
  else
    let dataLen := dataLenOf input
    -- Go: hrp_len = len - (1+data_len) as a signed int
    if n < 1 + dataLen + 1 ∨ dataLen < 6 then none
    else
      let hrpLen := n - (1 + dataLen)
      match decHrp? (input.take hrpLen) ⟨1, [], false, false⟩ with
      | none => none
      | some hs =>
        let chk := polymodStep hs.chk
        let chk := hrpLow (input.take hrpLen) chk
        match decData? (input.drop (hrpLen + 1)) ⟨chk, [], hs.lower, hs.upper⟩ with
        | none => none
        | some ds =>
          if ds.lower && ds.upper then none
          else
            let data := ds.vals.take (dataLen - 6)
            if ds.chk = finalConstant false then some (hs.hrp, data, false)
            else if ds.chk = finalConstant true then some (hs.hrp, data, true)
            else none

/-- accumulator of `convert_bits` -/
structure CB where
  val : UInt32
  bits : Nat
  out : Bytes

def cbStep (outbits inbits : Nat) (maxv : UInt32) (fuel : Nat) (s : CB) : CB :=
  match fuel with
  | 0 => s
  | f+1 =>
    if s.bits ≥ outbits then
      let bits := s.bits - outbits
      cbStep outbits inbits maxv f { s with bits := bits, out := s.out ++ [((s.val >>> UInt32.ofNat bits) &&& maxv).toUInt8] }
    else s

/-- `convert_bits`; `none` = nil. (An empty result is also nil in Go: bytes.Buffer.Bytes() of an
    untouched buffer — callers only test for nil after a length test that fails on empty anyway;
    we keep `some []` and let the callers' length checks decide, see `segwitDecode`.) -/
def convertBits (outbits : Nat) (inp : Bytes) (inbits : Nat) (pad : Bool) : Option Bytes :=
  let maxv : UInt32 := (1 <<< UInt32.ofNat outbits) - 1
  let s := inp.foldl (fun (s : CB) (x : UInt8) =>
      cbStep outbits inbits maxv 8
        { s with val := (s.val <<< UInt32.ofNat inbits) ||| x.toUInt32, bits := s.bits + inbits })
      ⟨0, 0, []⟩
  if pad then
    if s.bits ≠ 0 then some (s.out ++ [((s.val <<< UInt32.ofNat (outbits - s.bits)) &&& maxv).toUInt8])
    else some s.out
  else if ((s.val <<< UInt32.ofNat (outbits - s.bits)) &&& maxv) ≠ 0 ∨ s.bits ≥ inbits then none
  else some s.out

/-- `SegwitEncode`; `none` = "". witver is a Go int (may be negative in principle; callers pass 0..16,
    a negative value wraps through byte()). We model witver as Nat (the Go callers never pass < 0). -/
def segwitEncode (hrp : Bytes) (witver : Nat) (prog : Bytes) : Option Bytes :=
  if witver > 16 then none
  else if witver = 0 ∧ prog.length ≠ 20 ∧ prog.length ≠ 32 then none
  else if prog.length < 2 ∨ prog.length > 40 then none
  else match convertBits 5 prog 8 true with
    | none => none   -- unreachable with pad = true
    | some d => encode hrp (UInt8.ofNat witver :: d) (witver > 0)

inductive SegErr | decode | hrp | verHigh | mForV0 | notM | convert | len | lenV0
  deriving Repr, DecidableEq

def SegErr.code : SegErr → Nat
  | .decode => 1 | .hrp => 2 | .verHigh => 3 | .mForV0 => 4 | .notM => 5 | .convert => 6 | .len => 7 | .lenV0 => 8

/-- `SegwitDecode` -/
def segwitDecode (hrp addr : Bytes) : Except SegErr (Nat × Bytes) :=
  match decode addr with
  | none => .error .decode
  | some (hrpActual, data, m) =>
    match data with
    | [] => .error .decode
    | d0 :: rest =>
      if hrpActual.isEmpty ∨ data.length > 65 then .error .decode
      else if hrp ≠ hrpActual then .error .hrp
      else if d0.toNat > 16 then .error .verHigh
      else if d0 = 0 ∧ m then .error .mForV0
      else if d0 ≠ 0 ∧ !m then .error .notM
      else match convertBits 8 rest 5 false with
        | none => .error .convert
        | some w =>
          if w.isEmpty then .error .convert  -- Go: empty buffer ⇒ nil ⇒ same error
          else if w.length < 2 ∨ w.length > 40 then .error .len
          else if d0 = 0 ∧ w.length ≠ 20 ∧ w.length ≠ 32 then .error .lenV0
          else .ok (d0.toNat, w)

end GocoinV.Bech32
