/-
  Model.WalletKeys — mirror of wallet/wallet.go:make_wallet (+ getpass of wallet/stuff.go, the version
  helpers ver_pubkey/ver_script/ver_secret, hdwal_private_prefix, and what dump_addrs / dump_prvkey
  print per key). The result holds everything the wallet can be asked to print (`-l`, `-dump *`,
  `-xprv`, `-words`), in order.

  Out of the model (stated in the evidence): interactive password entry, `.others` imports,
  the encrypt and decrypt switches, the `-p39` BIP39 passphrase prompt (the passphrase path of
  NewSeedWithErrorChecking is covered at the API level), non-ASCII input in bip39=-1 mode
  (Go's Unicode `strings.ToLower`).
-/
import GocoinV.Model.HD
import GocoinV.Model.Bip39
namespace GocoinV.WalletKeys
open HD Gen.HDConsts

inductive AType | p2kh | segwit | bech32 | tap | pks
  deriving Repr, DecidableEq

structure Config where
  waltype : Nat
  hdpath : Bytes
  bip39wrds : Int
  usescrypt : Nat
  hdsubs : Nat
  keycnt : Nat
  testnet : Bool
  litecoin : Bool
  atype : AType
  secretSeed : Bytes       -- `seed=` of wallet.cfg
  deriving Repr, DecidableEq

inductive WErr | waltype | hdpath | bip39count | emptySeed | scryptMnemonic | scrypt | bip39 (e : Bip39.Err)
  | hd (f : HD.Fail)
  deriving Repr, DecidableEq

structure KeyRec where
  priv : Bytes
  pubkey : Bytes
  h160 : Bytes
  wif : Bytes          -- keys[i].String()
  p2kh : Bytes         -- keys[i].BtcAddr.String()
  listed : Bytes       -- first column of `wallet -l`
  label : Bytes        -- BtcAddr.Extra.Label
  listLabel : Bytes    -- second column of `wallet -l`
  deriving Repr, DecidableEq

structure Wallet where
  mnemonic : Option Bytes     -- printed by -words
  rootX : Option Bytes        -- "Root:" of -xprv
  leafX : Option Bytes        -- "Leaf:" of -xprv
  xtra : List Bytes           -- hd_wallet_xtra ("# …" lines)
  keys : List KeyRec
  deriving Repr, DecidableEq

def segwitMode : AType → Bool | .segwit | .bech32 | .tap => true | _ => false
def bech32Mode : AType → Bool | .bech32 | .tap => true | _ => false

/-- `ver_pubkey()` -/
def verPubkey (c : Config) : UInt8 :=
  if c.litecoin then (if !c.testnet then ltcAddrVerPubkeyMain else addrVerPubkey c.testnet) else addrVerPubkey c.testnet
/-- `ver_script()` -/
def verScript (c : Config) : UInt8 :=
  if c.litecoin then (if !c.testnet then ltcAddrVerScriptMain else addrVerScript c.testnet) else addrVerScript c.testnet
/-- `ver_secret()` -/
def verSecret (c : Config) : UInt8 := verPubkey c + 0x80

/-- `hdwal_private_prefix()` -/
def hdwalPrivatePrefix (c : Config) : Nat :=
  if !c.testnet then
    (if segwitMode c.atype then (if bech32Mode c.atype then pfxPrivateZ else pfxPrivateY) else pfxPrivate)
  else
    (if segwitMode c.atype then (if bech32Mode c.atype then pfxTestPrivateZ else pfxTestPrivateY) else pfxTestPrivate)

/-- `getpass()` with a seed file: secret_seed ++ first 1024 bytes of the file; empty file = error -/
def getpass (c : Config) (file : Bytes) : Option Bytes :=
  let d := file.take 1024
  if d.length = 0 then none else some (c.secretSeed ++ d)

/-! ### interactive password entry (`getpass()` without `-stdin` and without a seed file, or with `-p`) -/

/-- `sys.getline(buf)` on one chunk delivered by the terminal (one `os.Stdin.Read` into the 1024-byte buffer):
    trailing bytes below ' ' (the line terminator, but also a trailing TAB) are dropped. A chunk longer than
    1024 bytes is cut by the buffer (the rest stays in the terminal queue: not modelled, the harness keeps
    its typed lines shorter). -/
def readPassword (chunk : Bytes) : Bytes :=
  ((chunk.take 1024).reverse.dropWhile (fun b => b.toNat < 32)).reverse

/-- one interactive session: what is typed at the prompts and the switches that decide which prompts appear -/
structure Typed where
  first : Bytes      -- chunk read at "Enter your wallet's seed password: "
  second : Bytes     -- chunk read at "Re-enter the seed password (to be sure): " (not asked with `-1`)
  singleAsk : Bool   -- `-1`
  genMode : Bool     -- `wallet_generation_mode()`: `-l`, `-xprv` or `-words`
  ask4pass : Bool    -- `-p`: never offer to save
  save : Bool        -- the answer to "Save the password on disk, so you won't be asked for it later?"
  deriving Repr, DecidableEq

inductive PassErr | empty | mismatch
  deriving Repr, DecidableEq

/-- `getpass()` when the password is typed. Result: the password handed to `make_wallet` (the `seed=` prefix
    followed by what was typed) and, when the user had it saved, the bytes written to the seed file —
    `pass[:n]`, the typed password WITHOUT the prefix, because the next run prepends the prefix again. -/
def getpassTyped (c : Config) (t : Typed) : Except PassErr (Bytes × Option Bytes) :=
  let p := readPassword t.first
  if p.length = 0 then .error .empty
  else if t.genMode ∧ !t.singleAsk ∧ readPassword t.second ≠ p then .error .mismatch
  else .ok (c.secretSeed ++ p, if t.genMode ∧ !t.ask4pass ∧ t.save then some p else none)

/-! ### hdpath parsing -/

def isDigit (c : UInt8) : Bool := 48 ≤ c.toNat ∧ c.toNat ≤ 57

def decVal : Bytes → Nat → Nat
  | [], a => a
  | c :: t, a => decVal t (a * 10 + (c.toNat - 48))

/-- `strconv.ParseInt(s, 10, 32)` restricted to what make_wallet accepts: `some v` iff no error and
    v ≥ 0. (optional sign, then one or more digits; value within int32) -/
def parseInt32NonNeg (s : Bytes) : Option Nat :=
  let (neg, ds) := match s with
    | 43 :: t => (false, t)
    | 45 :: t => (true, t)
    | _ => (false, s)
  if ds.isEmpty ∨ !ds.all isDigit then none
  else
    let v := decVal ds 0
    if neg then (if v = 0 then some 0 else none)       -- "-0" parses to 0; negative values are refused
    else if v ≤ 2147483647 then some v else none

def splitOn (sep : UInt8) : Bytes → Bytes → List Bytes
  | [], cur => [cur.reverse]
  | c :: t, cur => if c = sep then cur.reverse :: splitOn sep t [] else splitOn sep t (c :: cur)

def hasSuffixQuote (s : Bytes) : Bool := s.getLast? = some 39

def decStr (n : Nat) : Bytes := strBytes (toString n)

/-- one path element: (xval, label piece) -/
def parseElem (ti : Bytes) : Option Nat :=
  let hard := hasSuffixQuote ti
  let body := if hard then ti.dropLast else ti
  match parseInt32NonNeg body with
  | none => none
  | some v => some ((if hard then hardenedFrom else 0) ||| v)

def elemLabel (x : Nat) : Bytes :=
  47 :: decStr (x % hardenedFrom) ++ (if x ≥ hardenedFrom then [39] else [])

/-- the hdpath block of make_wallet: (hdpath_x, hd_label_prefix, hd_hardend) -/
def parseHdPath (hdpath : Bytes) : Option (List Nat × Bytes × Bool) :=
  let ts := splitOn 47 hdpath []
  if ts.length < 2 ∨ ts.headD [] ≠ [109] then none
  else
    match (ts.drop 1).mapM parseElem with
    | none => none
    | some xs =>
      let pre := (xs.dropLast).foldl (fun acc x => acc ++ elemLabel x) [109]
      some (xs, pre, (ts.drop 1).any hasSuffixQuote)

/-! ### the bip39 = -1 normalisation (ASCII) -/

def asciiLower (c : UInt8) : UInt8 := if 65 ≤ c.toNat ∧ c.toNat ≤ 90 then c + 32 else c
def isLowerAZ (c : UInt8) : Bool := 97 ≤ c.toNat ∧ c.toNat ≤ 122

/-- ToLower, `[^a-z]` → " ", split on " ", drop empties, join with single spaces -/
def normalizeMnemonic (pass : Bytes) : Bytes :=
  let a := (pass.map asciiLower).map fun c => if isLowerAZ c then c else 32
  Bip39.joinSp ((Bip39.splitSp a).filter (· ≠ []))

/-! ### key generation -/

/-- the Type-3 loop: prv_i = ShaHash(seed_key); seed_key = append(seed_key, byte(i)) -/
def type3Keys (C : WalletCrypto) : Nat → Nat → Bytes → List (Bytes × Bytes)
  | 0, _, _ => []
  | k+1, i, seed =>
    (C.shaHash seed, strBytes "TypC " ++ decStr ((i + 1) % 2^32)) ::
      type3Keys C k (i + 1) (seed ++ [UInt8.ofNat i])

/-- one pass of the Type-4 loop over i = from … keycnt-1 on `hdwal` -/
def type4Pass (C : WalletCrypto) (hdwal : HDWallet) (last : Nat) (pre : Bytes) :
    Nat → Nat → Except Fail (List (Bytes × Bytes))
  | 0, _ => .ok []
  | k+1, i =>
    match child C hdwal ((i + last) % 2^32) with
    | .error e => .error e
    | .ok hd =>
      let lab := pre ++ [47] ++ decStr ((i + last % hardenedFrom) % 2^32) ++ (if last ≥ hardenedFrom then [39] else [])
      match type4Pass C hdwal last pre k (i + 1) with
      | .error e => .error e
      | .ok rest => .ok ((hd.key.drop 1, lab) :: rest)

/-- the label prefix of sub-account `sub`: cut after the last '/', append (prvidx&0x7fffffff)+sub [and '] -/
def subLabel (pre : Bytes) (prvidx sub : Nat) : Bytes :=
  let cut := (pre.reverse.dropWhile (· ≠ 47)).reverse
  cut ++ decStr ((prvidx % hardenedFrom + sub) % 2^32) ++ (if prvidx ≥ hardenedFrom then [39] else [])

/-- the `do_it_again` loop for sub-accounts sub = from … hdsubs-1 (each re-derives hdwal from prvwal) -/
def type4Subs (C : WalletCrypto) (prvwal : HDWallet) (prvidx last keycnt : Nat) :
    Nat → Nat → Bytes → Except Fail (List (Bytes × Bytes))
  | 0, _, _ => .ok []
  | k+1, sub, pre =>
    match child C prvwal ((prvidx + sub) % 2^32) with
    | .error e => .error e
    | .ok hdwal =>
      let pre' := subLabel pre prvidx sub
      match type4Pass C hdwal last pre' keycnt 0 with
      | .error e => .error e
      | .ok ks =>
        match type4Subs C prvwal prvidx last keycnt k (sub + 1) pre' with
        | .error e => .error e
        | .ok rest => .ok (ks ++ rest)

/-- walk `hdpath_x[:len-1]`: returns (hdwal, prvwal?, prvidx) -/
def walkPath (C : WalletCrypto) : List Nat → HDWallet → Option (HDWallet × Nat) →
    Except Fail (HDWallet × Option (HDWallet × Nat))
  | [], w, prv => .ok (w, prv)
  | x :: t, w, _ =>
    match child C w x with
    | .error e => .error e
    | .ok w' => walkPath C t w' (some (w, x))

def addrStr (C : WalletCrypto) (a : Option Addr.Addr) : Bytes :=
  match a with
  | none => []
  | some a => (Addr.toString C.hashes a).getD []

/-- NewPrivateAddr + the segwit slot + what dump_addrs prints -/
def mkKeyRec (C : WalletCrypto) (c : Config) (kl : Bytes × Bytes) : Except Fail KeyRec :=
  match newPrivateAddr C kl.1 (verSecret c) true with
  | .error e => .error e
  | .ok pa =>
    match privAddrString C pa with
    | .error e => .error e
    | .ok wif =>
      let p2kh := addrStr C (some (.b58 pa.addrVersion pa.h160 none))
      let seg : Bytes :=
        if bech32Mode c.atype then
          (if c.atype = .tap then addrStr C (Addr.fromPkScript C.hashes ([0x51, 32] ++ pa.pubkey.drop 1) c.testnet)
           else addrStr C (Addr.fromPkScript C.hashes ([0, 20] ++ pa.h160) c.testnet))
        else addrStr C (some (.b58 (verScript c) (C.hash160 ([0, 20] ++ pa.h160)) none))
      let listed := if c.atype = .pks then strBytes (Hex.encodeRaw pa.pubkey)
                    else if segwitMode c.atype then seg else p2kh
      let listLabel := if c.atype ≠ .pks ∧ segwitMode c.atype then
                         (if p2kh.length > 20 then kl.2 ++ strBytes " (" ++ p2kh ++ strBytes ")" else kl.2 ++ strBytes "-?????")
                       else kl.2
      .ok { priv := kl.1, pubkey := pa.pubkey, h160 := pa.h160, wif := wif, p2kh := p2kh,
            listed := listed, label := kl.2, listLabel := listLabel }

def liftHD {α} : Except Fail α → Except WErr α
  | .ok a => .ok a
  | .error e => .error (.hd e)

/-- the part of `make_wallet()` in front of the scrypt call: wallet type, hdpath, bip39 word count, then the
    password (`gp` = outcome of `getpass()`, `none`: "Error reading seed password") — the password is asked for
    only after the configuration checks that precede it in the Go code -/
def makeWalletPre (c : Config) (gp : Option Bytes) : Except WErr (Option (List Nat × Bytes × Bool) × Bytes) := do
  if c.waltype < 3 ∨ c.waltype > 4 then throw .waltype
  let path ← (if c.waltype = 4 then
      match parseHdPath c.hdpath with
      | none => (throw .hdpath : Except WErr _)
      | some p => pure (some p)
    else pure none)
  if c.bip39wrds ≠ 0 ∧ c.bip39wrds ≠ -1 ∧ (c.bip39wrds < 12 ∨ c.bip39wrds > 24 ∨ c.bip39wrds % 3 ≠ 0) then
    throw .bip39count
  let pass0 ← match gp with
    | none => (throw .emptySeed : Except WErr _)
    | some p => pure p
  pure (path, pass0)

/-- the scrypt block: the ONE place where `scrypt.Key` is called — on (password, usescrypt), and only when
    usescrypt ≠ 0 and the mode is not bip39 = -1. `sc` is the scrypt oracle. -/
def scryptStep (sc : Bytes → Nat → Option Bytes) (c : Config) (pass0 : Bytes) : Except WErr Bytes :=
  if c.usescrypt ≠ 0 then
    (if c.bip39wrds = -1 then (throw .scryptMnemonic : Except WErr _)
     else match sc pass0 c.usescrypt with
       | none => throw .scrypt
       | some dk => if dk.length ≠ 32 then throw .scrypt else pure dk)
  else pure pass0

/-- the rest of `make_wallet()`: key generation from the (possibly scrypt-stretched) password -/
def makeWalletCore (C : WalletCrypto) (c : Config) (path : Option (List Nat × Bytes × Bool)) (pass : Bytes) :
    Except WErr Wallet := do
  match path with
  | none =>
    -- Type 3
    let seedKey := C.shaHash pass
    let recs ← liftHD ((type3Keys C c.keycnt 0 seedKey).mapM (mkKeyRec C c))
    pure { mnemonic := none, rootX := none, leafX := none, xtra := [], keys := recs }
  | some (xs, pre, hardend) =>
    -- Type 4
    let last := xs.getLastD 0
    let (mnemonic, seed, x0) ← (if c.bip39wrds ≠ 0 then
        (if c.bip39wrds = -1 then
          let m := normalizeMnemonic pass
          match Bip39.newSeedWithErrorChecking C m [] with
          | .error e => (throw (.bip39 e) : Except WErr _)
          | .ok s => pure (some m, s, [])
        else
          let n := c.bip39wrds.toNat
          let sk := C.sha256 (pass ++ strBytes "|gocoin|" ++ pass ++ [UInt8.ofNat (n / 3 * 32)])
          match Bip39.newMnemonic C (sk.take (n / 3 * 4)) with
          | .error e => throw (.bip39 e)
          | .ok m =>
            match Bip39.newSeedWithErrorChecking C m [] with
            | .error e => throw (.bip39 e)
            | .ok s => pure (some m, s, [strBytes "Based on " ++ decStr n ++ strBytes " BIP39 words"]))
      else pure (none, pass, []))
    let root := { masterKey C seed c.testnet with pfx := hdwalPrivatePrefix c }
    let x1 ← (if !hardend then do
        let rp ← liftHD (pub root)
        pure (x0 ++ [strBytes "Root: " ++ HD.toString C rp])
      else pure x0)
    let (hdwal, prv) ← liftHD (walkPath C xs.dropLast root none)
    let x2 ← (if last < hardenedFrom then do
        let xa ← (match prv with
          | some (pw, _) => do
            let pp ← liftHD (pub pw)
            pure (x1 ++ [strBytes "Prnt: " ++ HD.toString C pp])
          | none => pure x1)
        let lp ← liftHD (pub hdwal)
        pure (xa ++ [strBytes "Leaf: " ++ HD.toString C lp])
      else pure x1)
    let ks0 ← liftHD (type4Pass C hdwal last pre c.keycnt 0)
    let ks1 ← (match prv with
      | some (pw, pidx) => liftHD (type4Subs C pw pidx last c.keycnt (c.hdsubs - 1) 1 pre)
      | none => pure [])
    let recs ← liftHD ((ks0 ++ ks1).mapM (mkKeyRec C c))
    pure { mnemonic := mnemonic, rootX := some (HD.toString C root), leafX := some (HD.toString C hdwal),
           xtra := x2, keys := recs }

/-- `make_wallet()` with the scrypt oracle as a separate argument (`Props.C14.deterministic` varies it) -/
def makeWalletS (C : WalletCrypto) (sc : Bytes → Nat → Option Bytes) (c : Config) (gp : Option Bytes) :
    Except WErr Wallet := do
  let (path, pass0) ← makeWalletPre c gp
  let pass ← scryptStep sc c pass0
  makeWalletCore C c path pass

/-- `make_wallet()` given the outcome `gp` of `getpass()` -/
def makeWalletG (C : WalletCrypto) (c : Config) (gp : Option Bytes) : Except WErr Wallet :=
  makeWalletS C C.scrypt c gp

/-- `make_wallet()` of a run that takes the password from the seed file (or `-stdin`) -/
def makeWallet (C : WalletCrypto) (c : Config) (file : Bytes) : Except WErr Wallet :=
  makeWalletG C c (getpass c file)

/-- `make_wallet()` of a run in which the password is typed (any `getpass` error ends the run the same way) -/
def makeWalletTyped (C : WalletCrypto) (c : Config) (t : Typed) : Except WErr Wallet :=
  makeWalletG C c (match getpassTyped c t with | .ok (p, _) => some p | .error _ => none)

/-! ### what the signer looks a key up by (hash_to_key_idx / pubhash_to_key_idx / scripthash_to_key_idx /
    public_xo_to_key_idx / address_to_key) -/

/-- the Hash160 field of `segwit[i]`: the P2SH hash in "segwit" mode, the zero array for bech32/tap
    (NewAddrFromPkScript leaves Hash160 unset for witness programs) -/
def segwitH160 (C : WalletCrypto) (c : Config) (k : KeyRec) : Bytes :=
  if bech32Mode c.atype then List.replicate 20 0 else C.hash160 ([0, 20] ++ k.h160)

/-- `hash_to_key_idx(h160)`: first i with keys[i].Hash160 == h or segwit[i].Hash160 == h -/
def hashToKeyIdx (C : WalletCrypto) (c : Config) (keys : List KeyRec) (h : Bytes) : Option Nat :=
  let i := keys.findIdx (fun k => k.h160 == h || segwitH160 C c k == h)
  if i < keys.length then some i else none

/-- `pubhash_to_key_idx(h160)` (since /repo ebf80672: the lookup of a P2KH script and of a P2WPKH program): first i
    with keys[i].Hash160 == h — the segwit slot is NOT consulted -/
def pubhashToKeyIdx (keys : List KeyRec) (h : Bytes) : Option Nat :=
  let i := keys.findIdx (fun k => k.h160 == h)
  if i < keys.length then some i else none

/-- `scripthash_to_key_idx(h160)` (the lookup of a P2SH script): first i with segwit[i] != nil (always, for the
    compressed keys make_wallet derives), segwit[i].SegwitProg == nil (⇔ not bech32/tap mode: there the slot is a
    witness-program address whose Hash160 field is all zero and must not be compared) and segwit[i].Hash160 == h -/
def scripthashToKeyIdx (C : WalletCrypto) (c : Config) (keys : List KeyRec) (h : Bytes) : Option Nat :=
  let i := keys.findIdx (fun k => !bech32Mode c.atype && C.hash160 ([0, 20] ++ k.h160) == h)
  if i < keys.length then some i else none

/-- `public_xo_to_key_idx` -/
def publicXoToKeyIdx (keys : List KeyRec) (x : Bytes) : Option Nat :=
  let i := keys.findIdx (fun k => (k.pubkey.drop 1).take 32 == x)
  if i < keys.length then some i else none

/-- `address_to_key(addr)`: outer none = cleanExit(1) -/
def addressToKeyIdx (C : WalletCrypto) (c : Config) (keys : List KeyRec) (addr : Bytes) : Option (Option Nat) :=
  match Addr.fromString C.hashes addr with
  | .error _ => none
  | .ok (.segwit _ _ prog) =>
    if prog.length = 20 then some (hashToKeyIdx C c keys prog)
    else if prog.length = 32 then some (publicXoToKeyIdx keys prog)
    else none
  | .ok (.b58 _ h _) => some (hashToKeyIdx C c keys h)

end GocoinV.WalletKeys
