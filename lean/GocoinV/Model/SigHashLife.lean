/-
  Model.SigHashLife — the LIFE CYCLE of the verification scratch struct `TxVerVars` across SEVERAL transaction
  objects (lib/btc/tx.go: `Tx.AllocVerVars`, `Tx.Clean`; callers lib/chain/chain_accept.go, lib/btc/block.go
  `Block.Clean`, client/txpool, wallet/signtx.go). Core-only.

  `TxVerVars` holds the lazily cached hashes (`Cache` of Model.SigHash) AND `Spent_outputs`. A transaction object
  points to one (`*TxVerVars`, nil = not allocated). What `AllocVerVars()` hands out and what `Clean()` does with the
  struct it drops is an ALLOCATOR DISCIPLINE, a parameter of the model:

    * `freshAlloc`  — the code as written: `t.TxVerVars = new(TxVerVars)` / `t.TxVerVars = nil`;
    * `poolAlloc r` — a free list (sync.Pool, a slice under a mutex …): `Clean` applies the reset `r` to the struct
                      and keeps it, `AllocVerVars` hands out the most recently kept one.

  After `AllocVerVars()` the caller installs the spent outputs of THIS transaction, either by assignment
  (`tx.Spent_outputs = make(…)` chain_accept.go:151, `= pos` txpool/network.go:256) or by `append`
  (wallet/signtx.go:217) — `Install`.

  A history is a list of events over the objects `0 … n-1`; `runLife` returns the result of every event
  (`none` for alloc / clean, the `Res` of the digest request otherwise). `runLifeSpec` is the same history with NO
  struct at all: only "is object i allocated", every digest computed from the transaction with an empty cache.
-/
import GocoinV.Model.SigHash
namespace GocoinV.SigHash
open GocoinV.Wire (Tx TxIn TxOut)

/-- the struct `TxVerVars`: cached hashes and `Spent_outputs` (`CalculatedFee` is not read by any digest) -/
structure VerVars where
  cache : Cache := {}
  spent : List TxOut := []
deriving DecidableEq, Repr, Inhabited

/-- one transaction object of a history and the spent outputs its caller installs after `AllocVerVars()` -/
structure Obj where
  tx : Tx
  spent : List TxOut
deriving DecidableEq, Repr, Inhabited

/-- how the caller installs `Spent_outputs` into the struct it was handed -/
inductive Install where
  | assign   -- tx.Spent_outputs = <the outputs>
  | append   -- tx.Spent_outputs = append(tx.Spent_outputs, <the outputs>...)
deriving DecidableEq, Repr, Inhabited

/-- what stands behind `AllocVerVars` / `Clean`; `σ` = the allocator's private state -/
structure Allocator (σ : Type) where
  /-- `AllocVerVars`: the struct handed out -/
  get : σ → VerVars × σ
  /-- `Clean`: the struct that the transaction lets go of -/
  put : σ → VerVars → σ

/-- the code: `new(TxVerVars)` / pointer dropped -/
def freshAlloc : Allocator Unit := { get := fun _ => ({}, ()), put := fun _ _ => () }

/-- a recycling allocator; `reset` is what `Clean` does to the struct before it is kept for the next transaction -/
def poolAlloc (reset : VerVars → VerVars) : Allocator (List VerVars) :=
  { get := fun s => match s with
      | [] => ({}, [])
      | v :: r => (v, r)
    put := fun s v => reset v :: s }

inductive Ev where
  | alloc (i : Nat) (how : Install)
  | clean (i : Nat)
  | call (i : Nat) (k : Call)
deriving DecidableEq, Repr, Inhabited

/-- `heap[i]` = the `TxVerVars` pointer of object `i` (`none` = nil) -/
structure World (σ : Type) where
  heap : List (Option VerVars)
  pool : σ

def World.init {σ : Type} (n : Nat) (s : σ) : World σ := { heap := List.replicate n none, pool := s }

/-- a digest request on an object whose `TxVerVars` is nil: `SignatureHash` does not touch it; `WitnessSigHash` /
    `TaprootSigHash` dereference nil at `tx.hashLock.Lock()` -/
def nilCall (H : Bytes → Bytes) (tx : Tx) : Call → Res
  | .leg sc nIn ht => signatureHash H tx sc nIn ht
  | _ => .panic

/-- one event. Events on an object number that does not exist, `AllocVerVars` on an allocated object (the code prints
    an error and keeps the struct) and `Clean` on a cleaned one change nothing. -/
def lifeStep {σ : Type} (A : Allocator σ) (H : Bytes → Bytes) (objs : List Obj) (w : World σ) : Ev → World σ × Option Res
  | .alloc i how =>
    match objs[i]?, w.heap[i]? with
    | some o, some none =>
      let g := A.get w.pool
      let v : VerVars := { g.1 with spent := match how with
                                             | .assign => o.spent
                                             | .append => g.1.spent ++ o.spent }
      ({ heap := w.heap.set i (some v), pool := g.2 }, none)
    | _, _ => (w, none)
  | .clean i =>
    match w.heap[i]? with
    | some (some v) => ({ heap := w.heap.set i none, pool := A.put w.pool v }, none)
    | _ => (w, none)
  | .call i k =>
    match objs[i]?, w.heap[i]? with
    | some o, some (some v) =>
      let r := step true H o.tx v.spent v.cache k
      ({ w with heap := w.heap.set i (some { v with cache := r.2 }) }, some r.1)
    | some o, some none => (w, some (nilCall H o.tx k))
    | _, _ => (w, none)

def runLife {σ : Type} (A : Allocator σ) (H : Bytes → Bytes) (objs : List Obj) : World σ → List Ev → List (Option Res)
  | _, [] => []
  | w, e :: es =>
    let r := lifeStep A H objs w e
    r.2 :: runLife A H objs r.1 es

/-! ### the same history without any struct -/

def specStep (H : Bytes → Bytes) (objs : List Obj) (alive : List Bool) : Ev → List Bool × Option Res
  | .alloc i _ =>
    match objs[i]?, alive[i]? with
    | some _, some false => (alive.set i true, none)
    | _, _ => (alive, none)
  | .clean i =>
    match alive[i]? with
    | some true => (alive.set i false, none)
    | _ => (alive, none)
  | .call i k =>
    match objs[i]?, alive[i]? with
    | some o, some true => (alive, some (step true H o.tx o.spent {} k).1)
    | some o, some false => (alive, some (nilCall H o.tx k))
    | _, _ => (alive, none)

def runLifeSpec (H : Bytes → Bytes) (objs : List Obj) : List Bool → List Ev → List (Option Res)
  | _, [] => []
  | a, e :: es =>
    let r := specStep H objs a e
    r.2 :: runLifeSpec H objs r.1 es

end GocoinV.SigHash
