/-
  Model.WireClient — the block decoder as the NODE drives it (client/network, client/main.go).

  (1) One `btc.Block` object per wanted block (network.BlocksToGet). Three handlers hand it copies of the block:
      netBlockReceived ("block"), ProcessCmpctBlock ("cmpctblock", nothing missing) and ProcessBlockTxn ("blocktxn").
      Each INSTALLS the copy, lets `Chain.PostCheckBlock` parse it (`BuildTxList()` only when `Txs == nil`), and when
      the copy is refused and its Merkle root does not match DISCARDS what was extracted, so that the next copy can be
      judged. The statements of the install and discard places are NOT written here: they are the lists of
      `Gen/C09Client.lean`, regenerated from the source on every run (go/cmd/gen_c09); this file gives each statement
      its meaning on the object model of `WireBlockObj` (`applyStmt`).
  (2) The disk cache of blocks that wait for their parents (`Memory.CacheOnDisk`): netBlockReceived writes the raw block
      and a side file with the ids (`hashesFile`), `get_block_from_disk_cache` (client/main.go, as fixed by /repo commit
      06ce6a22) reads the block back with the hash-less parser and restores the ids from a side file of exactly the
      right length, otherwise parses again with hashing (`diskCacheGet`).
  Core-only.
-/
import GocoinV.Model.WireBlockObj
import GocoinV.Gen.C09Client
namespace GocoinV.Wire
open GocoinV.Gen.C09Client

/-! ### (1) copies of a wanted block -/

/-- the byte strings the statements of one handler run refer to -/
structure Args where
  /-- the copy: payload of the `block` message / `col.Assemble()` -/
  copy : Bytes
  /-- `Raw` of the object when the handler started (`prev_block_raw := b2g.Block.Raw`) -/
  prevRaw : Bytes

/-- `col.Header = b2g.Block.Raw[:80]` (taken when the cmpctblock message arrived; the blocktxn that completes the
    assembly is modelled as arriving next) -/
def argBytes (a : Args) : Arg → Bytes
  | .copy => a.copy
  | .prevRaw => a.prevRaw
  | .header => a.prevRaw.take 80

def applyStmt (a : Args) : Stmt → BlockObj → BlockObj
  | .rawAssign x, s => { s with raw := argBytes a x }
  | .updateContent x, s => (updateContent (argBytes a x) s).1
  | .zeroBlockWeight, s => { s with weight := 0 }
  | .zeroTotalInputs, s => { s with totalInputs := 0 }
  | .zeroTxCount, s => { s with txCount := 0 }
  | .zeroTxOffset, s => { s with txOffset := 0 }
  | .nilTxs, s => { s with txs := none }

def applyStmts (a : Args) : List Stmt → BlockObj → BlockObj
  | [], s => s
  | st :: l, s => applyStmts a l (applyStmt a st s)

/-- the parsing front of `Chain.PostCheckBlock(bl)`: the length test, then `if bl.Txs == nil { bl.BuildTxList() }` -/
def postCheckParse (H : Bytes → Bytes) (s : BlockObj) : BlockObj × Outcome :=
  if s.raw.length < postCheckMinRawLen then (s, .tooShort) else
  if postCheckBuildsOnlyWhenTxsNil && s.txs.isSome then (s, .ok) else buildTxListExt H true s

inductive Via | full | cmpctA | cmpctB
deriving DecidableEq, Repr

def installOf : Via → List Stmt
  | .full => fullInstall | .cmpctA => cmpctAInstall | .cmpctB => cmpctBInstall

def discardOf : Via → List Stmt
  | .full => fullDiscard | .cmpctA => cmpctADiscard | .cmpctB => cmpctBDiscard

structure Copy where
  via : Via
  data : Bytes
deriving Repr

/-- a handler up to and including PostCheckBlock's parse -/
def deliver (H : Bytes → Bytes) (c : Copy) (s : BlockObj) : BlockObj × Outcome :=
  postCheckParse H (applyStmts { copy := c.data, prevRaw := s.raw } (installOf c.via) s)

/-- a copy that PostCheckBlock refuses (for whatever reason) and whose Merkle root does not match: the discard branch -/
def refusedCopy (H : Bytes → Bytes) (c : Copy) (s : BlockObj) : BlockObj :=
  applyStmts { copy := c.data, prevRaw := s.raw } (discardOf c.via) (deliver H c s).1

def clientRun (H : Bytes → Bytes) : List Copy → BlockObj → BlockObj
  | [], s => s
  | c :: l, s => clientRun H l (refusedCopy H c s)

/-- for the oracle: the object after every refused copy -/
def clientTrace (H : Bytes → Bytes) : List Copy → BlockObj → List BlockObj
  | [], _ => []
  | c :: l, s => let s' := refusedCopy H c s; s' :: clientTrace H l s'

/-! ### (2) the disk cache -/

/-- `<hash>.hashes` as netBlockReceived writes it: per transaction `WTxID()` and, when `SegWit != nil`, `Hash` too
    (`WTxID()` of a transaction without witness IS `&Hash`) -/
def hashesFile : List BlockTx → Bytes
  | [] => []
  | t :: l => (match t.tx.witness with
      | some _ => t.ids.wtxid ++ t.ids.hash
      | none => t.ids.hash) ++ hashesFile l

/-- the length `get_block_from_disk_cache` expects of the side file -/
def hashesLen : List BlockTx → Nat
  | [] => 0
  | t :: l => (match t.tx.witness with | some _ => 64 | none => 32) + hashesLen l

/-- the restore loop (`copy(tx.WTxID().Hash[:], hashes[offs:]); offs += 32; if tx.SegWit != nil { copy(tx.Hash.Hash[:], …) }`)
    on a file that is long enough -/
def restoreHashes : List BlockTx → Bytes → List BlockTx
  | [], _ => []
  | t :: l, h => match t.tx.witness with
    | some _ => { t with ids := { t.ids with wtxid := h.take 32, hash := (h.drop 32).take 32 } } :: restoreHashes l (h.drop 64)
    | none => { t with ids := { t.ids with hash := h.take 32, wtxid := h.take 32 } } :: restoreHashes l (h.drop 32)

/-- `get_block_from_disk_cache`: `dat` / `hashes` = content of the two files (`none` = cannot be read).
    `none` = the function panics (the node stops; nothing is committed). -/
def diskCacheGet (H : Bytes → Bytes) (dat hashes : Option Bytes) : Option BlockObj :=
  match dat with
  | none => none
  | some d =>
  match newBlock d with
  | none => none
  | some (s0, o0) =>
  if o0 ≠ .ok then none else
  let full : Option BlockObj :=
    let r := buildTxListExt H true s0
    if r.2 = .ok then some r.1 else none
  match hashes with
  | none => full
  | some h =>
    let r := buildTxListExt H false s0
    if r.2 ≠ .ok then none else
    match r.1.txs with
    | none => none
    | some txs =>
      if hashesLen txs = h.length then some { r.1 with txs := some (restoreHashes txs h) }
      else full

end GocoinV.Wire
