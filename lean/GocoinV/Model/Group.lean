/-
  Model.Group (C08) — hand-written, statement-level model of gocoin's group layer
  (lib/secp256k1/xyz.go, xy.go, num.go, field.go, ec.go) on top of the GENERATED limb
  functions of Gen.Field5x52 (so every Mul/Sqr/Negate/MulInt/SetAdd/Normalize inside a group
  formula is the translated Go code, operating on the same lazily reduced limbs).
  Go's pointer arguments become values; each function returns the new value of its output
  parameter. Where the Go code leaves the output's coordinates untouched (result = infinity)
  the model's coordinates are unspecified and the harness compares the Infinity flag only.
  Tied to the Go code by the correspondence harness go/cmd/c08 (limb-for-limb on finite results).
  Core-only.
-/
import GocoinV.Model.FieldIO
import GocoinV.Gen.Tables
import GocoinV.Base.Secp

namespace GocoinV.C08
open GocoinV.Gen.Field5x52
open GocoinV.Gen

structure XY where
  x : Fe
  y : Fe
  inf : Bool
  deriving DecidableEq, Repr, Inhabited

structure XYZ where
  x : Fe
  y : Fe
  z : Fe
  inf : Bool
  deriving DecidableEq, Repr, Inhabited

/-- n-fold application (generic, so that its unfolding lemmas are independent of `f`) -/
def iterN {α : Type} (f : α → α) : Nat → α → α
  | 0, a => a
  | n+1, a => iterN f n (f a)

theorem iterN_zero {α : Type} (f : α → α) (a : α) : iterN f 0 a = a := rfl
theorem iterN_succ {α : Type} (f : α → α) (n : Nat) (a : α) : iterN f (n+1) a = iterN f n (f a) := rfl

/-- n-fold `x.Sqr(&x)` -/
def sqrN (n : Nat) (a : Fe) : Fe := iterN sqr n a

/-- the common prefix of `Field.Inv` and `Field.Sqrt` (field.go): x2, x3, x22, x223 -/
def chain223 (a : Fe) : Fe × Fe × Fe × Fe :=
  let x2 := mul (sqr a) a
  let x3 := mul (sqr x2) a
  let x6 := mul (sqrN 3 x3) x3
  let x9 := mul (sqrN 3 x6) x3
  let x11 := mul (sqrN 2 x9) x2
  let x22 := mul (sqrN 11 x11) x11
  let x44 := mul (sqrN 22 x22) x22
  let x88 := mul (sqrN 44 x44) x44
  let x176 := mul (sqrN 88 x88) x88
  let x220 := mul (sqrN 44 x176) x44
  let x223 := mul (sqrN 3 x220) x3
  (x2, x3, x22, x223)

/-- `Field.Inv` (addition chain for a^(p-2)) -/
def inv (a : Fe) : Fe :=
  let (x2, _, x22, x223) := chain223 a
  let t1 := mul (sqrN 23 x223) x22
  let t1 := mul (sqrN 5 t1) a
  let t1 := mul (sqrN 3 t1) x2
  mul (sqrN 2 t1) a

/-- `Field.Sqrt` (addition chain for a^((p+1)/4)) -/
def sqrt (a : Fe) : Fe :=
  let (x2, _, x22, x223) := chain223 a
  let t1 := mul (sqrN 23 x223) x22
  let t1 := mul (sqrN 6 t1) x2
  sqrN 2 t1

/-- `Field.InvVar`: normalise, to bytes, `big.Int.ModInverse` mod p (0 stays 0), `SetBytes` -/
def invVar (a : Fe) : Fe :=
  let v := beVal (getB32 (normalize a))
  Fe.ofNat (Secp.invMod v P)

def feOne : Fe := setInt 1
def feBeta : Fe := Fe.ofNat CurveConsts.beta

/-- `XYZ.SetXY` -/
def XYZ.ofXY (a : XY) : XYZ := { x := a.x, y := a.y, z := setInt 1, inf := a.inf }

/-- `XY.SetXYZ` (also what it leaves in `a` is irrelevant here) -/
def XY.ofXYZ (a : XYZ) : XY :=
  let zi := invVar a.z
  let z2 := sqr zi
  let z3 := mul zi z2
  { x := mul a.x z2, y := mul a.y z3, inf := a.inf }

/-- `XYZ.Neg` / `XY.Neg` -/
def XYZ.neg (a : XYZ) : XYZ := { a with y := negate (normalize a.y) 1 }
def XY.neg (a : XY) : XY := { a with y := negate (normalize a.y) 1 }

/-- `XYZ.mul_lambda` -/
def XYZ.mulLambda (a : XYZ) : XYZ := { a with x := mul a.x feBeta }

/-- the arithmetic of `XYZ.Double` once `t5 = a.Y` normalised is known to be non-zero -/
def doubleCore (ax t5 az : Fe) : XYZ :=
  let rz := mulInt (mul t5 az) 2
  let t1 := mulInt (sqr ax) 3
  let t2 := sqr t1
  let t3 := mulInt (sqr t5) 2
  let t4 := mulInt (sqr t3) 2
  let t3 := mul ax t3
  let rx := setAdd (negate (mulInt t3 4) 4) t2
  let t2 := negate t2 1
  let t3 := setAdd (mulInt t3 6) t2
  let ry := mul t1 t3
  let t2 := negate t4 2
  let ry := setAdd ry t2
  { x := rx, y := ry, z := rz, inf := false }

/-- `XYZ.Double` -/
def XYZ.double (a : XYZ) : XYZ :=
  let t5 := normalize a.y
  if a.inf || isZero t5 then { a with inf := true }
  else doubleCore a.x t5 a.z

/-- the common tail of `XYZ.Add` and `XYZ.AddXY` once u1,u2,s1,s2 and the new Z are known -/
def addTail (u1 u2 s1 s2 : Fe) (zmul : Fe → Fe) : XYZ :=
  let h := setAdd (negate u1 1) u2
  let i := setAdd (negate s1 1) s2
  let i2 := sqr i
  let h2 := sqr h
  let h3 := mul h h2
  let rz := zmul h
  let t := mul u1 h2
  let rx := setAdd (negate (setAdd (mulInt t 2) h3) 3) i2
  let ry := mul (setAdd (negate rx 5) t) i
  let h3 := negate (mul h3 s1) 1
  let ry := setAdd ry h3
  { x := rx, y := ry, z := rz, inf := false }

/-- `XYZ.AddXY` -/
def XYZ.addXY (a : XYZ) (b : XY) : XYZ :=
  if a.inf then { x := b.x, y := b.y, z := setInt 1, inf := b.inf }
  else if b.inf then a
  else
    let z12 := sqr a.z
    let u1 := normalize a.x
    let u2 := mul b.x z12
    let s1 := normalize a.y
    let s2 := mul (mul b.y z12) a.z
    let u1 := normalize u1
    let u2 := normalize u2
    if equals u1 u2 then
      let s1 := normalize s1
      let s2 := normalize s2
      if equals s1 s2 then XYZ.double a else { a with inf := true }
    else
      addTail u1 u2 s1 s2 (fun h => mul a.z h)

/-- `XYZ.Add` -/
def XYZ.add (a b : XYZ) : XYZ :=
  if a.inf then b
  else if b.inf then a
  else
    let z22 := sqr b.z
    let z12 := sqr a.z
    let u1 := mul a.x z22
    let u2 := mul b.x z12
    let s1 := mul (mul a.y z22) b.z
    let s2 := mul (mul b.y z12) a.z
    let u1 := normalize u1
    let u2 := normalize u2
    if equals u1 u2 then
      let s1 := normalize s1
      let s2 := normalize s2
      if equals s1 s2 then XYZ.double a else { a with inf := true }
    else
      addTail u1 u2 s1 s2 (fun h => mul (mul a.z b.z) h)

/-- `XY.SetXO` -/
def XY.setXO (x : Fe) (odd : Bool) : XY :=
  let x2 := sqr x
  let x3 := mul x x2
  let c := setAdd (setInt 7) x3
  let y := normalize (sqrt c)
  let y := if isOdd y != odd then negate y 1 else y
  { x := x, y := normalize y, inf := false }

/-- `XY.IsValid` -/
def XY.isValid (a : XY) : Bool :=
  if a.inf then false
  else
    let y2 := sqr a.y
    let x3 := mul (sqr a.x) a.x
    let x3 := setAdd x3 (setInt 7)
    equals (normalize y2) (normalize x3)

/-- f p, f (f p), … (n entries; generic, so that its unfolding lemmas are independent of `f`) -/
def iterList {α : Type} (f : α → α) : Nat → α → List α
  | 0, _ => []
  | n+1, p => f p :: iterList f n (f p)

theorem iterList_zero {α : Type} (f : α → α) (p : α) : iterList f 0 p = [] := rfl
theorem iterList_succ {α : Type} (f : α → α) (n : Nat) (p : α) :
    iterList f (n+1) p = f p :: iterList f n (f p) := rfl

/-- `XYZ.precomp(w)`: odd multiples a, 3a, 5a, … (2^(w-2) entries): pre[i] = d.Add(pre[i-1]) with d = 2a -/
def XYZ.precomp (a : XYZ) (w : Nat) : List XYZ :=
  a :: iterList (fun prev => XYZ.add (XYZ.double a) prev) (2 ^ (w - 2) - 1) a

/-! ### scalars (`Number` = big.Int = Int) -/

/-- `ecmult_wnaf`: digits least significant first; `fuel` bounds the outer loop (each round
    consumes at least `w` bits). The Go array has 129 slots: more digits = index panic = `none`. -/
def wnafAux (w : Nat) : Nat → Int → Nat → List Int → List Int
  | 0, _, _, acc => acc
  | fuel+1, x, zeroes, acc =>
    if x = 0 then acc
    else
      -- strip zero bits (arithmetic shift keeps the sign), counting them
      let tz := (List.range 600).foldl (fun (s : Int × Nat × Bool) _ =>
                  if s.2.2 then s else if s.1 % 2 = 0 then (s.1 >>> 1, s.2.1 + 1, false) else (s.1, s.2.1, true)) (x, zeroes, false)
      let x := tz.1
      let zeroes := tz.2.1
      let word := x % (2 ^ w : Int)          -- rsh_x: low w bits, two's complement
      let x := x >>> w
      let acc := acc ++ List.replicate zeroes 0
      if word / (2 ^ (w - 1) : Int) % 2 ≠ 0 then
        wnafAux w fuel (x + 1) (w - 1) (acc ++ [word - (2 ^ w : Int)])
      else
        wnafAux w fuel x (w - 1) (acc ++ [word])

def wnaf (a : Int) (w : Nat) : Option (List Int) :=
  let ds := wnafAux w 400 a 0 []
  if ds.length ≤ 129 then some ds else none

/-- `Number.split_exp` (GLV decomposition; big.Int.Div is Euclidean) -/
def splitExp (a : Int) : Int × Int :=
  let n : Int := CurveConsts.order
  let a1b2 : Int := CurveConsts.a1b2
  let b1 : Int := CurveConsts.b1
  let a2 : Int := CurveConsts.a2
  let bnn2 := n >>> 1
  let c1 := Int.ediv (a * a1b2 + bnn2) n
  let c2 := Int.ediv (a * b1 + bnn2) n
  let r1 := a - (c1 * a1b2 + c2 * a2)
  let r2 := c1 * b1 - c2 * a1b2
  (r1, r2)

/-- `Number.split` for non-negative numbers: (low `bits` bits, rest) -/
def split (a : Nat) (bits : Nat) : Nat × Nat := (a % 2 ^ bits, a / 2 ^ bits)

def XY.ofLimbs (l : List Nat) : XY :=
  { x := Fe.ofList (l.take 5), y := Fe.ofList (l.drop 5), inf := false }

def preGXY (i : Nat) : XY := XY.ofLimbs (Tables.preGAt i)
def preG128XY (i : Nat) : XY := XY.ofLimbs (Tables.preG128At i)
def precXY (j i : Nat) : XY := XY.ofLimbs (Tables.precAt (j * 16 + i))
def finXY : XY := XY.ofLimbs Tables.fin

/-- one wNAF digit applied with a Jacobian table -/
def applyDigitJ (r : XYZ) (pre : List XYZ) (d : Int) : XYZ :=
  if d > 0 then XYZ.add r (pre.getD ((d.toNat - 1) / 2) default)
  else if d ≠ 0 then XYZ.add r (XYZ.neg (pre.getD (((-d).toNat - 1) / 2) default))
  else r

/-- one wNAF digit applied with an affine table -/
def applyDigitA (r : XYZ) (tab : Nat → XY) (d : Int) : XYZ :=
  if d > 0 then XYZ.addXY r (tab ((d.toNat - 1) / 2))
  else if d ≠ 0 then XYZ.addXY r (XY.neg (tab (((-d).toNat - 1) / 2)))
  else r

/-- one round of the main loop of `XYZ.ECmult` (bit position i): double, then the four digit look-ups -/
def ecmultStep (pre1 prel : List XYZ) (w1 wl wg1 wg128 : List Int) (r : XYZ) (i : Nat) : XYZ :=
  let r := XYZ.double r
  let r := if i < w1.length then applyDigitJ r pre1 (w1.getD i 0) else r
  let r := if i < wl.length then applyDigitJ r prel (wl.getD i 0) else r
  let r := if i < wg1.length then applyDigitA r preGXY (wg1.getD i 0) else r
  let r := if i < wg128.length then applyDigitA r preG128XY (wg128.getD i 0) else r
  r

/-- `XYZ.ECmult`: r = na·a + ng·G (GLV split of na, 2^128 split of ng, interleaved wNAF).
    `none` = the Go code would panic (wNAF longer than 129). `ng` is non-negative. -/
def ecmult (a : XYZ) (na : Int) (ng : Nat) : Option XYZ := do
  let (na1, nalam) := splitExp na
  let (ng1, ng128) := split ng 128
  let w1 ← wnaf na1 CurveConsts.windowa
  let wl ← wnaf nalam CurveConsts.windowa
  let wg1 ← wnaf ng1 CurveConsts.windowg
  let wg128 ← wnaf ng128 CurveConsts.windowg
  let alam := XYZ.mulLambda a
  let pre1 := XYZ.precomp a CurveConsts.windowa
  let prel := XYZ.precomp alam CurveConsts.windowa
  let bits := max (max w1.length wl.length) (max wg1.length wg128.length)
  let start : XYZ := { a with inf := true }
  pure ((List.range bits).reverse.foldl (ecmultStep pre1 prel w1 wl wg1 wg128) start)

/-- `ECmultGen`: r = a·G with the 64×16 comb table (only the low 256 bits of `a` are used) -/
def ecmultGen (a : Nat) : XYZ :=
  let r0 := XYZ.ofXY (precXY 0 (a % 16))
  let r := (List.range 63).foldl (fun (r : XYZ) (k : Nat) =>
      let j := k + 1
      XYZ.addXY r (precXY j ((a / 16 ^ j) % 16))) r0
  XYZ.addXY r finXY

/-- normalised big-endian bytes of a field element (the observable of the property) -/
def feBytes (a : Fe) : List Nat := getB32 (normalize a)

end GocoinV.C08
