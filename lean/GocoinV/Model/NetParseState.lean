/-
  Model.NetParseState — state that OUTLIVES one message and that a later message of an untrusted peer runs
  into. Two mechanisms, both tied to the current source by facts that go/cmd/gen_c18/state.go regenerates
  (Gen/NetFacts.lean) and both exercised on the real code by go/cmd/c18 (cfg.go, trusted.go).

  A. The map-typed fields of the connection object (`counters`, `GetBlockInProgress`, `InvDone.Map`) under
     HISTORIES. The writers of such a map (`c.counters[name]++` in cntInc / cntAdd / cntLockInc, called from
     FetchMessage, Misbehave, SendRawMsg, netBlockReceived … with c.Mutex held) are guarded by run-time
     switches of the configuration (common.NoCounters), not by the map being there, and the operator can
     flip those switches while the peer is connected (text console `set_config`, web interface → common.Reset).
     A function that stores `nil` into the field under one setting (Tick "releasing" the counters while they
     are switched off) makes the next writer panic with "assignment to entry in nil map" - under c.Mutex,
     which Run's recover() leaves locked for ever - once the switch is flipped back. `runHist` lets ANY sequence
     of functions of the package run on the connection, each of its assignments to the field executing or not
     (whatever its guard reads: switches, the map's length, the time), and reports the first entry write that
     meets a nil map. Theorem (Props.C18.conn_maps_total): with the assignments regenerated from the source -
     all of kind `make` - and starting from what the constructor leaves (`ctorMakes`: an unconditional `make` for
     every field that has a writer) no history does. What the facts see: assignments `x.<field> = …` for any root
     identifier, assignments to a struct that contains the map and `*x = T{…}` (kind `enclosing`), the address of
     the field or of a struct containing it being taken (`addr`); NOT seen: a map replaced through a pointer that
     was obtained in another package, reflection / unsafe.

  B. The block path for a block that carries the TRUSTED mark (operator's LastTrustedBlock, or data received
     through an authorised peer's encrypted channel): what `block` / `cmpctblock` / `blocktxn` of ANY peer
     that knows the public 80-byte header drive: chain.PostCheckBlock → btc.Block.BuildTxListExt (decoding of
     txn_count, the transaction loop) → the coinbase tests, SKIPPED for a trusted block → GetMerkle /
     CalcMerkle, which ends in `mtr[len(mtr)-1]`: index out of range [-1] for an empty transaction list,
     inside netBlockReceived's `MutexRcv.Lock() … MutexRcv.Unlock()` (no defer). What keeps the list
     non-empty for a trusted block is one disjunct of BuildTxListExt's head: `bl.TxCount == 0 ||
     bl.TxOffset == 0` (UpdateContent, the other decoder of the same field, tests the offset only).
     `postCheck` mirrors the front of PostCheckBlock and the head + loop of BuildTxListExt statement by
     statement (skeletons: Gen.NetFacts.PostCheckFront / BuildTxListHead, frozen in Model/NetParseFacts);
     Props.C18.postcheck_total: no panic for any bytes, trusted or not.

  Core Lean only (this module is linked into oracle_c18: ops `b` and `m`).
-/
import GocoinV.Model.Wire
import GocoinV.Gen.NetFacts
namespace GocoinV.NetParse.State
open GocoinV

/-! ## A. map fields of the connection under histories -/

/-- the kinds of assigned value (gen_c18: make / nil / lit / other) after which the field holds a map -/
def keeps (kind : String) : Bool := kind == "make" || kind == "lit"

abbrev Assigns := List (String × String × String)   -- (function, field, kind)
abbrev Writes := List (String × String)              -- (function, field)

/-- kinds of the assignments `fn` makes to `field` -/
def assignsOf (A : Assigns) (fn field : String) : List String :=
  (A.filter (fun a => a.1 == fn && a.2.1 == field)).map (·.2.2)

def writesTo (W : Writes) (fn field : String) : Bool := W.contains (fn, field)

/-- the states (true = a map is there) the field goes through while one function runs: the state at entry,
    then the state after each of its assignments; `exec` says which of them execute (a missing choice = the
    assignment is skipped) -/
def states : List String → List Bool → Bool → List Bool
  | [], _, cur => [cur]
  | _ :: ks, [], cur => cur :: states ks [] cur
  | k :: ks, e :: es, cur => cur :: states ks es (if e then keeps k else cur)

/-- the state the function leaves -/
def final : List String → List Bool → Bool → Bool
  | [], _, cur => cur
  | _ :: ks, [], cur => final ks [] cur
  | k :: ks, e :: es, cur => final ks es (if e then keeps k else cur)

/-- one function runs on the connection. `none`: it stores an entry while the field may be nil
    ("assignment to entry in nil map"); `some s`: the state it leaves. (Path-insensitive: a function that
    writes entries needs the map at every point of its run.) -/
def runFn (kinds : List String) (writes : Bool) (exec : List Bool) (cur : Bool) : Option Bool :=
  if writes && !((states kinds exec cur).all id) then none else some (final kinds exec cur)

/-- a history: which function runs next and which of its assignments execute. Configuration changes need no
    event of their own: a switch only decides which assignments and writes execute, and `exec` ranges over
    all such decisions (a write that is skipped cannot panic, so "every write executes" is the worst case). -/
abbrev Hist := List (String × List Bool)

def runHist (A : Assigns) (W : Writes) (field : String) : Hist → Bool → Option Bool
  | [], cur => some cur
  | (fn, exec) :: h, cur =>
    match runFn (assignsOf A fn field) (writesTo W fn field) exec cur with
    | none => none
    | some c => runHist A W field h c

/-- the state a NEW connection object starts in: a map is there iff the object is created somewhere and EVERY function
    that creates one (`ctors`: new(OneConnection) / a composite literal) assigns the field a `make` at the top level
    of its body (`C`: (constructor, field, unconditional make?)) - a `make` under a condition (a constructor that skips
    the counters while they are switched off) does not count -/
def ctorMakes (C : List (String × String × Bool)) (ctors : List String) (field : String) : Bool :=
  !ctors.isEmpty && ctors.all (fun c => C.contains (c, field, true))

/-- some function stores entries into the field -/
def written (W : Writes) (field : String) : Bool := W.any (fun w => w.2 == field)

/-- the facts with one assignment's kind replaced (for the counterexample theorems) -/
def withKind (A : Assigns) (fn field kind : String) : Assigns :=
  A.map (fun a => if a.1 == fn && a.2.1 == field then (a.1, a.2.1, kind) else a)

/-! ## B. the block path for a trusted block -/

/-- BuildTxListExt's head, entered with bl.TxCount == 0 (the state netBlockReceived / ProcessNewHeader leave:
    the Block object was made from the 80-byte header, Raw assigned afterwards):
    `bl.TxCount, bl.TxOffset = vlenWire(bl.Raw[80:]); if bl.TxCount == 0 || bl.TxOffset == 0 { error }`.
    `guard = false` is the head WITHOUT the first disjunct (what UpdateContent tests). Result: the count. -/
def txCountHead (guard : Bool) (raw : Bytes) : Except String (Nat × Bytes) :=
  match Wire.vlenWire (raw.drop 80) with
  | none => .error "bad-blk-length"                    -- vlenWire answers 0, 0
  | some (cnt, rest) => if guard && cnt == 0 then .error "bad-blk-length" else .ok (cnt, rest)

/-- outcome of the transaction loop -/
inductive Loop
  | done                    -- every transaction decoded
  | failed                  -- `NewTx failed` (error, bl.Txs cut)
  | panic (site : String)   -- a slice of bl.Raw out of range
  deriving DecidableEq, Repr

/-- the transaction loop: `for i := 0; i < bl.TxCount; i++ { tx, n := NewTx(bl.Raw[offs:]); if tx == nil || n == 0
    { error; bl.Txs = bl.Txs[:i]; break }; tx.Raw = bl.Raw[offs : offs+n] … offs += n }`; `newTx` answers the size
    (`none`: nil). The slice `bl.Raw[offs:offs+n]` panics when the decoder reports more bytes than it was given. -/
def txLoop (newTx : Bytes → Option Nat) : Nat → Bytes → Loop
  | 0, _ => .done
  | k+1, rest =>
    match newTx rest with
    | none => .failed
    | some n =>
      if n == 0 then .failed
      else if n > rest.length then .panic "BuildTxListExt: bl.Raw[offs:offs+n]"
      else txLoop newTx k (rest.drop n)

/-- outcome of BuildTxListExt -/
inductive Built
  | ok (n : Nat)            -- number of entries of bl.Txs
  | error (why : String)
  | panic (site : String)
  deriving DecidableEq, Repr

/-- BuildTxListExt, entered with bl.TxCount == 0 and bl.Txs == nil (see `postCheck`) -/
def buildTxList (guard : Bool) (newTx : Bytes → Option Nat) (raw : Bytes) : Built :=
  match txCountHead guard raw with
  | .error e => .error e
  | .ok (cnt, rest) =>
    match txLoop newTx cnt rest with
    | .done => .ok cnt
    | .failed => .error "NewTx failed"
    | .panic s => .panic s

/-- `res = mtr[len(mtr)-1][:]` at the end of btc.CalcMerkle (GetMerkle hands it len(bl.Txs) hashes; the loop
    before it runs only for more than one): `none` = index out of range [-1] -/
def merkleLast (n : Nat) : Option Unit := if n == 0 then none else some ()

inductive PC
  | err (why : String)
  | ok
  | panic (site : String)
  deriving DecidableEq, Repr

def PC.isPanic : PC → Bool
  | .panic _ => true
  | _ => false

/-- the front of chain.PostCheckBlock. ENTRY CONDITION (not checked here, stated in Props.C18.postcheck_total): the
    block object's transaction list has not been built - bl.Txs == nil and bl.TxCount == 0, the state in which
    btc.NewBlockHeader leaves it and to which each of the three callers' failure paths puts it back (`b2g.Block.Txs =
    nil` after UpdateContent; the `set:` facts of netBlockReceived / ProcessCmpctBlock / ProcessBlockTxn).
    Then: size test, BuildTxList, the coinbase tests a TRUSTED block skips (`cbOk`: first is a coinbase with the
    right height, no second one), the merkle root (`merkleOk`: not mutated and equal to the header's). The model
    mirrors the sequential (`!dohash`) loop of BuildTxListExt; PostCheckBlock runs the worker variant (`dohash`),
    whose decoding loop has the same NewTx / slice / offs statements (the workers only hash; C09 models them). -/
def postCheck (guard : Bool) (newTx : Bytes → Option Nat) (trusted : Bool) (raw : Bytes) (cbOk merkleOk : Bool) : PC :=
  if raw.length < 81 then .err "bad-blk-length" else
  match buildTxList guard newTx raw with
  | .error e => .err e
  | .panic s => .panic s
  | .ok n =>
    if !trusted && (n == 0 || !cbOk) then .err "bad-cb-missing" else
    match merkleLast n with
    | none => .panic "CalcMerkle: index out of range [-1]"
    | some _ => if merkleOk then .ok else .err "bad-txnmrklroot"

/-- the hostile payload: an 80-byte header, txn_count = 0, padding up to the 100 bytes `block` asks for -/
def wEmptyBlock : Bytes := List.replicate 80 0x11 ++ [0] ++ List.replicate 19 0

end GocoinV.NetParse.State
