/-
  Model.AmountCompress — btc.CompressAmount / btc.DecompressAmount (lib/btc/funcs.go) over uint64.
  Values are `Nat`; every Go uint64 operation that can wrap is written with an explicit `% U64`.
  Core-only, executable (the oracle runs exactly these definitions).
-/
namespace GocoinV.AmountCompress

/-- 2^64 -/
def U64 : Nat := 18446744073709551616

/-- the loop `for (n%10) == 0 && e < 9 { n /= 10; e++ }`; `fuel` bounds the iterations
    (the guard `e < 9` already does: 9 is enough when `e` starts at 0). Returns `(n, e)`. -/
def stripZeros : Nat → Nat → Nat → Nat × Nat
  | 0, n, e => (n, e)
  | fuel+1, n, e => if n % 10 = 0 ∧ e < 9 then stripZeros fuel (n / 10) (e + 1) else (n, e)

/-- `btc.CompressAmount(n)`, `n < 2^64`; the result is reduced mod 2^64 exactly where Go wraps.
    (`n*9+d-1` cannot underflow: `d ≥ 1` in that branch; `n-1` cannot: `n ≥ 1`.) -/
def compress (n : Nat) : Nat :=
  if n = 0 then 0
  else
    let me := stripZeros 9 n 0
    let m := me.1
    let e := me.2
    if e < 9 then
      let d := m % 10
      let q := m / 10
      (1 + ((q * 9 + d - 1) % U64 * 10) % U64 + e) % U64
    else
      (1 + ((m - 1) * 10) % U64 + 9) % U64

/-- `compress` computed without any wrap-around (what the encoding is meant to be). -/
def compressExact (n : Nat) : Nat :=
  if n = 0 then 0
  else
    let me := stripZeros 9 n 0
    let m := me.1
    let e := me.2
    if e < 9 then 1 + (m / 10 * 9 + m % 10 - 1) * 10 + e
    else 1 + (m - 1) * 10 + 9

/-- the loop `for e != 0 { n *= 10; e-- }` with uint64 wrap-around -/
def mul10 : Nat → Nat → Nat
  | 0, n => n
  | e+1, n => mul10 e (n * 10 % U64)

/-- `btc.DecompressAmount(x)`, `x < 2^64`. -/
def decompress (x : Nat) : Nat :=
  if x = 0 then 0
  else
    let x1 := x - 1
    let e := x1 % 10
    let x2 := x1 / 10
    let n :=
      if e < 9 then
        let d := x2 % 9 + 1
        let x3 := x2 / 9
        (x3 * 10 + d) % U64
      else (x2 + 1) % U64
    mul10 e n

end GocoinV.AmountCompress
