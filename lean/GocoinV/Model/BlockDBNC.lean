/-
  Model.BlockDBNC — `BlockGetInternal(hash, do_not_cache = true)` of lib/chain/blockdb.go, the read used by the one-pass
  readers (Chain.ParseTillBlock, Chain.UndoLastBlock, the client's rescan loop). Core-only, executable (`oracle_c16`
  request `getnc`).

  As the code is written:
    * not in the index                     → "block not in the index"
    * cache hit                            → the cached record; `crec.LastUsed = time.Now()`; the entry STAYS in the cache
                                             (for a block whose write is still queued it is the only copy there is)
    * miss                                 → the same disk read and decoding as with do_not_cache = false, `rec.olen` is
                                             filled in when it was 0, but the bytes are NOT put into the cache
                                             (`cacherec = &BlckCachRec{Data: bl}`): no eviction, no clock tick.
  `BlockGet` / `BlockGetExt` are `BlockGetInternal(hash, false)` = `BlockDB.blockGet`.
-/
import GocoinV.Model.BlockDB
namespace GocoinV.BlockDB

def blockGetNC (env : Env) (s : State) (hash : Bytes) : State × Out :=
  let k := keyOf hash
  match AL.get s.index k with
  | none => (s, .getErr .notInIndex false)
  | some r0 =>
    match AL.get s.cache k with
    | some c =>
      ({ s with cache := AL.set s.cache k { c with lastUsed := s.clock }, clock := s.clock + 1 }, .data c.data r0.trusted)
    | none =>
      if r0.ipos.isNone then (s, .getErr .notWritten r0.trusted)
      else if r0.blen = 0 then (s, .getErr .purged r0.trusted)
      else
        match (AL.get s.fs.dats r0.datfileidx).orElse (fun _ => AL.get s.fs.olds r0.datfileidx) with
        | none => (s, .getErr .noFile r0.trusted)
        | some file =>
          if r0.fpos + r0.blen > file.length then (s, .getErr .shortRead r0.trusted)
          else
            let (bl, err) := decodeStored env r0 ((file.drop r0.fpos).take r0.blen)
            let nrec := if r0.olen = 0 then { r0 with olen := bl.length } else r0
            let s := { s with index := AL.set s.index k nrec }
            match err with
            | none => (s, .data bl r0.trusted)
            | some e => (s, .getErr e r0.trusted)

/-- the operations of `BlockDB.Op` plus the one-pass read -/
inductive OpX
  | op (o : Op)
  | getNC (hash : Bytes)
  deriving Repr

def stepX (env : Env) (s : State) : OpX → State × Out
  | .op o => step env s o
  | .getNC hash => if !s.isOpen then (s, .bad) else blockGetNC env s hash

end GocoinV.BlockDB
