/-
  Model.ConcThread — C11: WHICH goroutine may start a snapshot.

  `Model.Conc.Snap` has one main goroutine (commit, undo, purge, Idle, direct Save, AbortWriting, HurryUp, Close) and an
  auxiliary goroutine that only hurries or aborts: `UnspentDB.Save()` takes no lock, so the hand-shake "abortWriting, then
  mutate" of CommitBlockTxs / UndoBlockTxs / PurgeUnspendable excludes only the saves that are started by the goroutine that
  mutates (between two of its operations, or inside Idle under db.Mutex).  This file makes that assumption explicit:

  * `Thread.St` = the snapshot protocol plus a FOREIGN goroutine (an operator's UI thread, an HTTP handler, a timer) that
    calls `Save()` directly, micro-step by micro-step exactly as the main goroutine's direct Save does (check
    WritingInProgress, set it, writingDone.Add, `go save`) but at any point of any schedule;
  * with no foreign Save the system IS `Snap` (Props.C11.committer_started_saves_atomic), with one there is a schedule that
    publishes a file whose header was read in the middle of a commit (Props.C11.foreign_save_counterexample);
  * `threadFacts`: the assumption holds of the CURRENT source — go/cmd/gen_c11 (thread.go) lists every call site, in the whole
    client, of the operations reserved to the committing goroutine with the goroutines that can reach it.
-/
import GocoinV.Model.Conc
namespace GocoinV.Conc.Thread

/-- micro-steps of a direct `Save()` executed by the foreign goroutine -/
inductive FPc | next | chk | set | add | go
  deriving DecidableEq, Repr

structure St where
  base : Snap.St
  fsaves : Nat          -- direct Save() calls the foreign goroutine is still going to make
  fpc : FPc := .next
  deriving DecidableEq, Repr

inductive Lab
  | base (l : Snap.Lab)  -- a step of the snapshot protocol proper
  | foreign              -- the foreign goroutine moves
  deriving DecidableEq, Repr

/-- `Save()`: `if WritingInProgress.Get() {return}; WritingInProgress.Set(); writingDone.Add(1); go save()` — no lock -/
def stepF (st : St) : Option St :=
  match st.fpc with
  | .next => if st.fsaves = 0 then none else some { st with fsaves := st.fsaves - 1, fpc := .chk }
  | .chk => some { st with fpc := if st.base.wip then .next else .set }
  | .set => some { st with base := { st.base with wip := true }, fpc := .add }
  | .add => some { st with base := { st.base with wdone := st.base.wdone + 1 }, fpc := .go }
  | .go => if st.base.s.isNone then some { st with base := { st.base with s := some { pc := .waitFile } }, fpc := .next } else none

def step (st : St) : Lab → Option St
  | .base l => (Snap.step st.base l).map fun b => { st with base := b }
  | .foreign => stepF st

def init (mp : List Snap.MOp) (xp : List Snap.XOp) (cap foreignSaves : Nat) : St :=
  { base := Snap.init mp xp cap, fsaves := foreignSaves }

/-- run a schedule; a label that is not enabled is skipped (so every list of labels is a schedule) -/
def run (st : St) : List Lab → St
  | [] => st
  | l :: r => run ((step st l).getD st) r

/-- the labels of the snapshot protocol proper within a schedule -/
def baseLabs : List Lab → List Snap.Lab
  | [] => []
  | .base l :: r => l :: baseLabs r
  | .foreign :: r => baseLabs r

/-! ## the fact about the current source -/

structure ThreadFacts where
  /-- no call site of Save / Idle / Close / CommitBlockTxs / UndoBlockTxs / PurgeUnspendable / DefragMap / AbortWriting of UnspentDB,
      anywhere in the client, can be executed by a goroutine other than the main one -/
  committerOnly : Bool
  /-- the analysis does reach the operations on the main goroutine (the block path, the idle timer, the operator's command and
      Close), i.e. the call graph from main.main is not empty-handed -/
  reached : Bool
  deriving DecidableEq, Repr

def threadFactsOf (sites : List (String × Nat)) : ThreadFacts where
  committerOnly := sites.all (fun s => s.2 != 1)
  reached := ["Save", "Idle", "Close", "CommitBlockTxs", "UndoBlockTxs"].all (fun op => sites.any (fun s => s.1 == op && s.2 == 0))

def threadFacts : ThreadFacts := threadFactsOf GocoinV.Gen.ConcFacts.mainOnlyCallSites

def threadFactsOK : ThreadFacts := ⟨true, true⟩

/-- the operations that a goroutine other than the main one can execute (for the oracle's report) -/
def foreignOps : List String :=
  ((GocoinV.Gen.ConcFacts.mainOnlyCallSites.filter (fun s => s.2 == 1)).map (·.1)).eraseDups

end GocoinV.Conc.Thread
