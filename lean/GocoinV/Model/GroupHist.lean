/-
  Model.GroupHist (C08) — operation SEQUENCES on point OBJECTS.

  The functions of Model.Group return the new value of the OUTPUT parameter. The Go methods work on objects that the
  caller keeps: `var a XYZ; ECmultGen(&a, k); pk.SetXYZ(&a); a.AddXY(&a, &g); pk2.SetXYZ(&a)`. What an operation
  leaves in its OPERANDS is therefore part of its behaviour as soon as an object is used twice. All group operations
  of xyz.go / xy.go only read their operands — with ONE exception: `XY.SetXYZ(a)` rescales its Jacobian argument in
  place (a.Z is inverted, a.X and a.Y are multiplied by 1/Z² and 1/Z³, a.Z is set to 1), i.e. it replaces the triple
  by another triple for the SAME point. `XYZ.afterSetXYZ` is that in-place effect, statement by statement.

  `Regs` is a file of objects (Jacobian registers J, affine registers A), `HOp` one method call whose receiver,
  operands and result are registers (result and operand may be the same register: `a.Add(&a, &b)`), `run` a history.
  `PRegs` / `HOp.ref` / `refRun` is the same history on the points of the reference group law (Base.Secp).
  Core-only.
-/
import GocoinV.Model.Group

namespace GocoinV.C08
open GocoinV.Gen.Field5x52
open GocoinV.Gen

/-- what `XY.SetXYZ(a)` leaves in its ARGUMENT:
      a.Z.InvVar(&a.Z); a.Z.Sqr(&z2); a.Z.Mul(&z3,&z2); a.X.Mul(&a.X,&z2); a.Y.Mul(&a.Y,&z3); a.Z.SetInt(1) -/
def XYZ.afterSetXYZ (a : XYZ) : XYZ :=
  let zi := invVar a.z
  let z2 := sqr zi
  let z3 := mul zi z2
  { x := mul a.x z2, y := mul a.y z3, z := setInt 1, inf := a.inf }

/-- a file of point objects -/
structure Regs where
  J : List XYZ
  A : List XY
  deriving DecidableEq, Repr

/-- one method call on registers (`k` / `b` = the register that receives the result) -/
inductive HOp
  /-- `J[i].Double(&J[k])` -/
  | dbl (i k : Nat)
  /-- `J[i].Add(&J[k], &J[j])` -/
  | add (i j k : Nat)
  /-- `J[i].AddXY(&J[k], &A[a])` -/
  | addxy (i a k : Nat)
  /-- `J[i].Neg(&J[k])` -/
  | neg (i k : Nat)
  /-- `A[a].Neg(&A[b])` -/
  | negxy (a b : Nat)
  /-- `A[a].SetXYZ(&J[i])` — writes A[a] AND rescales J[i] -/
  | setxyz (i a : Nat)
  /-- `J[k].SetXY(&A[a])` -/
  | setxy (a k : Nat)
  /-- `ECmultGen(&J[k], s)` -/
  | gen (s k : Nat)
  /-- `J[i].mul_lambda(&J[k])` -/
  | lam (i k : Nat)
  /-- `J[i].ECmult(&J[k], na, ng)` -/
  | mult (i : Nat) (na : Int) (ng : Nat) (k : Nat)
  deriving DecidableEq, Repr

/-- write register k (`none` when there is no such register) -/
def setJ (r : Regs) (k : Nat) (v : XYZ) : Option Regs :=
  if k < r.J.length then some { r with J := r.J.set k v } else none
def setA (r : Regs) (k : Nat) (v : XY) : Option Regs :=
  if k < r.A.length then some { r with A := r.A.set k v } else none

/-- one call; `none` = a register index out of range, or ECmult panics -/
def HOp.step (r : Regs) : HOp → Option Regs
  | .dbl i k => match r.J[i]? with
    | some a => setJ r k a.double
    | none => none
  | .add i j k => match r.J[i]?, r.J[j]? with
    | some a, some b => setJ r k (a.add b)
    | _, _ => none
  | .addxy i a k => match r.J[i]?, r.A[a]? with
    | some x, some b => setJ r k (x.addXY b)
    | _, _ => none
  | .neg i k => match r.J[i]? with
    | some a => setJ r k a.neg
    | none => none
  | .negxy a b => match r.A[a]? with
    | some x => setA r b x.neg
    | none => none
  | .setxyz i a => match r.J[i]? with
    | some x => match setA r a (XY.ofXYZ x) with
      | some r' => setJ r' i x.afterSetXYZ
      | none => none
    | none => none
  | .setxy a k => match r.A[a]? with
    | some x => setJ r k (XYZ.ofXY x)
    | none => none
  | .gen s k => setJ r k (ecmultGen s)
  | .lam i k => match r.J[i]? with
    | some a => setJ r k a.mulLambda
    | none => none
  | .mult i na ng k => match r.J[i]? with
    | some a => match ecmult a na ng with
      | some v => setJ r k v
      | none => none
    | none => none

/-- a history, call by call -/
def run : List HOp → Regs → Option Regs
  | [], r => some r
  | o :: os, r => match o.step r with
    | some r' => run os r'
    | none => none

/-- the same file of objects as points of the reference group law -/
structure PRegs where
  J : List Secp.Point
  A : List Secp.Point
  deriving DecidableEq, Repr

def setPJ (p : PRegs) (k : Nat) (v : Secp.Point) : Option PRegs :=
  if k < p.J.length then some { p with J := p.J.set k v } else none
def setPA (p : PRegs) (k : Nat) (v : Secp.Point) : Option PRegs :=
  if k < p.A.length then some { p with A := p.A.set k v } else none

/-- the calls whose meaning is a formula of the group law alone (everything but mul_lambda and ECmult, whose
    meaning as multiples of the operand is proved separately, under the hypotheses stated there) -/
def HOp.law : HOp → Bool
  | .lam .. => false
  | .mult .. => false
  | _ => true

/-- what the call MEANS: the group law on the points; a conversion (SetXYZ / SetXY) moves a point and changes
    nothing else — in particular SetXYZ leaves its argument the point it was -/
def HOp.ref (p : PRegs) : HOp → Option PRegs
  | .dbl i k => match p.J[i]? with
    | some a => setPJ p k (Secp.dbl a)
    | none => none
  | .add i j k => match p.J[i]?, p.J[j]? with
    | some a, some b => setPJ p k (Secp.add a b)
    | _, _ => none
  | .addxy i a k => match p.J[i]?, p.A[a]? with
    | some x, some b => setPJ p k (Secp.add x b)
    | _, _ => none
  | .neg i k => match p.J[i]? with
    | some a => setPJ p k (Secp.neg a)
    | none => none
  | .negxy a b => match p.A[a]? with
    | some x => setPA p b (Secp.neg x)
    | none => none
  | .setxyz i a => match p.J[i]? with
    | some x => match setPA p a x with
      | some p' => setPJ p' i x
      | none => none
    | none => none
  | .setxy a k => match p.A[a]? with
    | some x => setPJ p k x
    | none => none
  | .gen s k => setPJ p k (Secp.mul (s % 2 ^ 256) Secp.G)
  | .lam _ _ => none
  | .mult _ _ _ _ => none

def refRun : List HOp → PRegs → Option PRegs
  | [], p => some p
  | o :: os, p => match o.ref p with
    | some p' => refRun os p'
    | none => none

end GocoinV.C08
