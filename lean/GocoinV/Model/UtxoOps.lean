/-
  Model.UtxoOps — record-level model of gocoin's unspent-output database operations used when a block is
  connected or disconnected (lib/utxo/unspent_db.go: commit / del / UndoBlockTxs; lib/chain/chain_accept.go:
  commitTxs, which produces the delete list, the undo data and the add list).  Core-only, executable.

  What is mirrored, statement by statement where it matters:
    * the map `key ↦ record{txid, height, coinbase, outs : List (Option out)}` (`DB`, one record per txid);
      a record keeps its length `VoutCount` when outputs are spent (spent = `none`), and is removed when its
      last output goes;
    * `commitTxs`: per input — "already spent in this block" map check first, then `UnspentGet` on the
      *unchanged* database, then the block-local pool `blUnsp` (outputs of earlier transactions of the same
      block, own-coinbase refusal), maturity, spent-map and undo-record construction (output copied into a
      record of length VoutCount), value sums, script result (an INPUT of this model: script evaluation is
      property C01), final sums, add list (records of the block's transactions with their unspent outputs);
    * `UnspentDB.commit` = all `del`s then all adds (the Go code runs them in goroutines; they commute when
      the block's txids are fresh, which is hypothesis `Fresh` of the theorems);
    * `UndoBlockTxs` = delete every txid of the block, then for each undo record merge it into the record
      still present (if any) and store it.
  Not modelled: the 8-byte key prefix (C04 / fix there: full txid compared), serialisation (C10),
  NotifyTx callbacks, UTXO_PURGE_UNSPENDABLE (off by default), uint64 wrap-around of value sums (C04).
-/
namespace GocoinV.UtxoOps

structure Out where
  value : Nat
  script : String            -- opaque (hex text); never interpreted here
deriving DecidableEq, Repr, Inhabited

structure Rec where
  txid : Nat
  height : Nat
  coinbase : Bool
  outs : List (Option Out)   -- length = VoutCount; `none` = spent (or never stored)
deriving DecidableEq, Repr, Inhabited

/-- the unspent map; invariant of interest: at most one record per txid (`put` maintains it) -/
abbrev DB := List Rec

namespace DB
def get (db : DB) (t : Nat) : Option Rec := db.find? (fun r => r.txid == t)
def erase (db : DB) (t : Nat) : DB := db.filter (fun r => r.txid != t)
def put (db : DB) (r : Rec) : DB := r :: erase db r.txid
end DB

/-- `OneUtxoRec(v, vout)`: the output, if the record exists, has that index and it is unspent -/
def unspentGet (db : DB) (t v : Nat) : Option (Rec × Out) :=
  match db.get t with
  | none => none
  | some r => match r.outs[v]? with
    | some (some o) => some (r, o)
    | _ => none

/-- `rec.Outs[i] = nil` for every `i` with `rm[i]` (db.del) -/
def delOuts : List (Option Out) → List Bool → List (Option Out)
  | [], _ => []
  | o :: os, [] => o :: os
  | o :: os, b :: bs => (if b then none else o) :: delOuts os bs

/-- `UnspentDB.del(ind, outs)` -/
def DB.del (db : DB) (t : Nat) (rm : List Bool) : DB :=
  match db.get t with
  | none => db
  | some r =>
    let outs' := delOuts r.outs rm
    if outs'.any Option.isSome then db.put { r with outs := outs' } else db.erase t

/-- merge of an undo record into the record still in the map (UndoBlockTxs):
    `if rec.Outs[a] == nil { rec.Outs[a] = oldrec.Outs[a] }` -/
def mergeOuts : List (Option Out) → List (Option Out) → List (Option Out)
  | [], _ => []
  | u :: us, [] => u :: us
  | u :: us, o :: os => (match u with | some x => some x | none => o) :: mergeOuts us os

/-- what `commitTxs` hands to the database -/
structure Changes where
  deled : List (Nat × List Bool)   -- DeledTxs: txid ↦ spent flags (length VoutCount)
  undo : List Rec                  -- UndoData (one record per txid of `deled`)
  addList : List Rec
deriving Repr, Inhabited

/-- `UnspentDB.commit` -/
def commit (db : DB) (ch : Changes) : DB :=
  let db1 := ch.deled.foldl (fun d p => d.del p.1 p.2) db
  ch.addList.foldl DB.put db1

def undoOne (d : DB) (r : Rec) : DB :=
  match d.get r.txid with
  | some old => d.put { r with outs := mergeOuts r.outs old.outs }
  | none => d.put r

/-- `UnspentDB.UndoBlockTxs(bl)` with the content of the undo file -/
def undoBlock (db : DB) (txids : List Nat) (undo : List Rec) : DB :=
  (undo.foldl undoOne (txids.foldl DB.erase db))

-- ------------------------------------------------------------------------------------------ commitTxs

structure TxIn where
  txid : Nat
  vout : Nat
deriving Repr, Inhabited, DecidableEq

structure Tx where
  txid : Nat
  ins : List TxIn
  outs : List Out
  scriptsOk : Bool     -- result of VerifyTxScript over all inputs (input of the model, see C01)
deriving Repr, Inhabited

inductive Err
  | spentVoutTooBig | doubleSpend | unknownInput | voutTooBig | voutAlreadySpent | ownCoinbase
  | immature | moreSpent | scripts | outGtIn | noCoinbase
deriving Repr, DecidableEq, Inhabited

def Err.name : Err → String
  | .spentVoutTooBig => "spent-vout-too-big" | .doubleSpend => "double-spend" | .unknownInput => "unknown-input"
  | .voutTooBig => "vout-too-big" | .voutAlreadySpent => "vout-already-spent" | .ownCoinbase => "own-coinbase"
  | .immature => "immature" | .moreSpent => "more-spent" | .scripts => "scripts" | .outGtIn => "out-gt-in"
  | .noCoinbase => "no-coinbase"

def alookup {β} (k : Nat) : List (Nat × β) → Option β
  | [] => none
  | (a, b) :: r => if a == k then some b else alookup k r

def aset {β} (k : Nat) (v : β) : List (Nat × β) → List (Nat × β)
  | [] => [(k, v)]
  | (a, b) :: r => if a == k then (a, v) :: r else (a, b) :: aset k v r

def recSet (t : Nat) (f : Rec → Rec) (mk : Unit → Rec) : List Rec → List Rec
  | [] => [f (mk ())]
  | r :: rs => if r.txid == t then f r :: rs else r :: recSet t f mk rs

structure CState where
  deled : List (Nat × List Bool) := []
  undo : List Rec := []
  blUnsp : List (Nat × (List (Option Out) × Bool)) := []   -- txid ↦ (outputs still unspent, WasCoinbase)
  deriving Repr, Inhabited

def COINBASE_MATURITY : Nat := 100

/-- one input of a non-coinbase transaction (body of `for j := range tx.TxIn`); returns the value spent -/
def procInput (db : DB) (height : Nat) (st : CState) (i : TxIn) : Except Err (CState × Nat) := do
  let spentMap := alookup i.txid st.deled
  match spentMap with
  | some m =>
    if i.vout ≥ m.length then throw .spentVoutTooBig
    if m.getD i.vout false then throw .doubleSpend
  | none => pure ()
  match unspentGet db i.txid i.vout with
  | none =>
    match alookup i.txid st.blUnsp with
    | none => throw .unknownInput
    | some (t, wasCb) =>
      if i.vout ≥ t.length then throw .voutTooBig
      match t.getD i.vout none with
      | none => throw .voutAlreadySpent
      | some o =>
        if wasCb then throw .ownCoinbase
        pure ({ st with blUnsp := aset i.txid (t.set i.vout none, wasCb) st.blUnsp }, o.value)
  | some (r, o) =>
    if r.coinbase && height - r.height < COINBASE_MATURITY then throw .immature
    let m := (spentMap.getD (List.replicate r.outs.length false)).set i.vout true
    let undo := recSet i.txid (fun u => { u with outs := u.outs.set i.vout (some o) })
      (fun _ => { txid := i.txid, height := r.height, coinbase := r.coinbase, outs := List.replicate r.outs.length none })
      st.undo
    pure ({ st with deled := aset i.txid m st.deled, undo := undo }, o.value)

def procInputs (db : DB) (height : Nat) : CState → List TxIn → Except Err (CState × Nat)
  | st, [] => pure (st, 0)
  | st, i :: is => do
    let (st1, v) ← procInput db height st i
    let (st2, s) ← procInputs db height st1 is
    pure (st2, v + s)

def sumOuts (os : List Out) : Nat := (os.map (·.value)).sum

/-- the loop over `bl.Txs` (index 0 is the coinbase); returns state, Σ inputs, Σ outputs, all scripts ok -/
def procTxs (db : DB) (height : Nat) : Bool → CState → List Tx → Except Err (CState × Nat × Nat × Bool)
  | _, st, [] => pure (st, 0, 0, true)
  | first, st, tx :: txs => do
    let (st1, tin) ← if first then pure (st, 0) else procInputs db height st tx.ins
    let tout := sumOuts tx.outs
    if !first && tout > tin then throw .moreSpent
    let st2 := { st1 with blUnsp := aset tx.txid (tx.outs.map some, first) st1.blUnsp }
    let (st3, sin, sout, ok) ← procTxs db height false st2 txs
    pure (st3, tin + sin, tout + sout, (first || tx.scriptsOk) && ok)

def addListOf (height : Nat) (bl : List (Nat × (List (Option Out) × Bool))) : List Rec :=
  bl.filterMap fun (t, outs, cb) =>
    if outs.any Option.isSome then some { txid := t, height := height, coinbase := cb, outs := outs } else none

/-- `commitTxs(bl, changes)`; `reward` = GetBlockReward(height), `trusted` = bl.Trusted (scripts not run) -/
def commitTxs (db : DB) (height reward : Nat) (trusted : Bool) (txs : List Tx) : Except Err Changes := do
  if txs.isEmpty then throw .noCoinbase
  let (st, sin, sout, ok) ← procTxs db height true {} txs
  if !trusted && !ok then throw .scripts
  if reward + sin < sout then throw .outGtIn
  pure { deled := st.deled, undo := st.undo, addList := addListOf height st.blUnsp }


-- ------------------------------------------------------------------------------------------ undo data, stated outright

/-- the undo record's outputs: exactly the outputs that were spent (`urec.Outs[vout] = copy`), `none` elsewhere -/
def maskOuts : List (Option Out) → List Bool → List (Option Out)
  | [], _ => []
  | _ :: os, [] => none :: maskOuts os []
  | o :: os, b :: bs => (if b then o else none) :: maskOuts os bs

/-- the undo record `commitTxs` builds for one entry of the delete list: the record of `u` with exactly the
    spent outputs kept -/
def undoRecOf (u : DB) (p : Nat × List Bool) : Rec :=
  match u.get p.1 with
  | some r => { r with outs := maskOuts r.outs p.2 }
  | none => { txid := p.1, height := 0, coinbase := false, outs := [] }

/-- `undoData u blk` in terms of the delete list -/
def undoOf (u : DB) (deled : List (Nat × List Bool)) : List Rec := deled.map (undoRecOf u)

def nodupB : List Nat → Bool
  | [] => true
  | x :: xs => !xs.contains x && nodupB xs

/-- executable form of `ValidChanges` (Proofs/C06Utxo): run by the oracle on the changes of every block the model
    connects, so that the hypothesis of `undo_commit` is checked on each history of the correspondence run -/
def validChangesB (u : DB) (txids : List Nat) (ch : Changes) : Bool :=
  nodupB (ch.deled.map (·.1)) &&
  ch.deled.all (fun p => (u.get p.1).isSome) &&
  decide (ch.undo = undoOf u ch.deled) &&
  txids.all (fun t => (u.get t).isNone) &&
  ch.addList.all (fun r => txids.contains r.txid)

-- ------------------------------------------------------------------------------------------ abstraction

structure Coin where
  value : Nat
  script : String
  height : Nat
  coinbase : Bool
deriving DecidableEq, Repr

/-- `abs : UtxoDB → (OutPoint ⇀ Coin)` -/
def abs (db : DB) (t v : Nat) : Option Coin :=
  match unspentGet db t v with
  | some (r, o) => some { value := o.value, script := o.script, height := r.height, coinbase := r.coinbase }
  | none => none

/-- all unspent outputs as (txid, vout, coin), for the dump -/
def dump (db : DB) : List (Nat × Nat × Coin) :=
  db.flatMap fun r =>
    (r.outs.zipIdx).filterMap fun (o, i) =>
      o.map fun o => (r.txid, i, { value := o.value, script := o.script, height := r.height, coinbase := r.coinbase })

end GocoinV.UtxoOps
