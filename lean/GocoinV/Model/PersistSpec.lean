/-
  Model.PersistSpec — concrete histories (abstract counterparts of the harness workloads), the effect
  lists of the three multi-step updates as stand-alone lists, and the clean-restart predicate.
  Core-only.
-/
import GocoinV.Model.Persist
namespace GocoinV.Persist

/-! ### concrete histories; block 1 creates the coins 1..4 everybody spends -/
def b1 : Block := ⟨1, 0, 1, [], [1, 2, 3, 4]⟩
def bA : Block := ⟨2, 1, 2, [1], [5]⟩
def bA2 : Block := ⟨5, 2, 3, [5], [8, 9]⟩
def bA3 : Block := ⟨6, 5, 4, [8, 4], [10]⟩
def bB1 : Block := ⟨3, 1, 2, [2], [6]⟩
def bB2 : Block := ⟨4, 3, 3, [], [7]⟩

/-- F8 witness: snapshot on A, reorganise to B1-B2, flush blocks, (next snapshot), close -/
def witnessOps : List Op :=
  [.submit b1, .submit bA, .idle, .submit bB1, .submit bB2, .idle, .close]

def wlExtend : List Op :=
  [.skip 100, .submit b1, .idle, .submit bA, .idle, .submit bA2, .idle, .submit bA3, .close]

def wlSave : List Op :=
  [.submit b1, .idle, .submit bA, .idle, .submit bA2, .idle, .submit bA3, .close]

def wlAbort : List Op :=
  [.submit b1, .idle, .pause true, .submit bA, .idle, .submit bA2, .idle, .hurry, .submit bA3, .pause false, .close]

/-- reorganisation while the only snapshot is the one of the fork point (block 1) -/
def wlReorgNoSave : List Op :=
  [.submit b1, .idle, .skip 100, .submit bA, .idle, .submit bB1, .submit bB2, .idle, .submit bA2, .submit bA3, .idle, .close]

/-- first crash point at which the witness fails / first at which it holds again (computed by the model,
    checked by `witness_failure_window`) -/
def witnessK : Nat := 62
def witnessLo : Nat := 42
def witnessHi : Nat := 70

/-- what the witness shows at crash point `witnessK`: the recovered tip is B2 (4), coin 1 is unspent in the
    replay of B2's chain but missing from the recovered set -/
def witnessShows : Bool :=
  match crashAt [] witnessOps witnessK with
  | .ok (_, s2, _) => s2.n.tip == 4 && (replay (submitted witnessOps) 4).contains 1 && !s2.n.utxo.contains 1
  | .error _ => false

/-- clean shutdown: after the whole workload (which ends with Close) a restart gives the same tip and set -/
def cleanRestartOK (bigs : List Coin) (ops : List Op) : Bool :=
  let w := run bigs ops
  match w.err, recover w.d bigs with
  | none, .ok s => s.n.tip == w.n.tip && sameSet s.n.utxo w.n.utxo && s.n.utxo.length == w.n.utxo.length
  | _, _ => false

/-- ghost: did the restart after crash point k (recovery loop or feeding the blocks) read an undo file that names ANOTHER
    block than the one being undone? (the flag is sticky, so stage 3 includes stage 2) -/
def foreignAt (bigs : List Coin) (ops : List Op) (k : Nat) : Bool :=
  match crashAt bigs ops k with
  | .ok (_, _, s3) => s3.foreign
  | .error _ => false

/-- the state after crash point k, restart, recovery loop and feeding every block — computed WITHOUT stopping at a panic, so that
    its ghost flag is meaningful in every case -/
def crashS3 (bigs : List Coin) (ops : List Op) (k : Nat) : St :=
  match openNode (applyAll {} ((run bigs ops).es.take k)) bigs 0 with
  | .ok s1 => feedAll { clientRecover s1 with es := [] } (submitted ops)
  | .error _ => { n := {}, d := {} }

/-- ghost: did the restart after crash point k (recovery loop or feeding the blocks) read an undo file of another block? -/
def crashForeign (bigs : List Coin) (ops : List Op) (k : Nat) : Bool := (crashS3 bigs ops k).foreign

/-! ### a snapshot file that cannot be read to its end (power loss, full disk — NOT a process kill)

NewUnspentDb gives up on a UTXO.db whose header or record area is short and goes on with UTXO.old, then with the empty set,
exactly as if the file were absent (since fix eab07278 also when the header is intact: the map-filler goroutine of the failed
attempt is stopped before the retry).  `tearDb d db old` is the directory `d` as such a restart sees it. -/
def tearDb (d : Disk) (db old : Bool) : Disk :=
  { d with db := if db then none else d.db, old := if old then none else d.old }

/-- the three stages of a restart (NewChainExt, client's recovery loop, feeding every block of the workload) from ANY directory;
    `crashAt bigs ops k` is `restartFrom` the directory left by the first k effects (`crashAt_eq_restartFrom`) -/
def restartFrom (d : Disk) (bigs : List Coin) (ops : List Op) : Except String (St × St × St) :=
  match openNode d bigs 0 with
  | .error e => .error e
  | .ok s1 =>
    let s2 := clientRecover s1
    match s2.err with
    | some e => .error e
    | none =>
      let s3 := feedAll { s2 with es := [] } (submitted ops)
      match s3.err with
      | some e => .error e
      | none => .ok (s1, s2, s3)

/-- ghost flag of `restartFrom`, computed without stopping at a panic -/
def restartForeign (d : Disk) (bigs : List Coin) (ops : List Op) : Bool :=
  match openNode d bigs 0 with
  | .ok s1 => (feedAll { clientRecover s1 with es := [] } (submitted ops)).foreign
  | .error _ => false

/-! ### the multi-step updates as stand-alone effect lists -/
def undoWriteEffects (u : UndoFile) (h : Nat) : List LEffect :=
  [(.writeUndoTmp u, .undoTmpWritten), (.renameUndoTmp h, .undoRenamed)]

def appendEffects (b : Block) (r : IdxRec) : List LEffect :=
  [(.nop, .wrBeforeDat), (.appendDat b, .wrDatWritten), (.appendIdx r, .wrIdxWritten), (.nop, .wrBeforePublish)]

def chunkEffects (t : BlockId) : Nat → List LEffect
  | 0 => []
  | k + 1 => [(.nop, .saveChunk), (.chunkTmp t, .fileChunk)] ++ chunkEffects t k

def saveEffects (sn : Snap) (n : Nat) : List LEffect :=
  [(.nop, .saveBegin), (.renameDbOld, .saveRenamedOld), (.createTmp sn, .fileCreated)] ++ chunkEffects sn.tip n ++
  [(.nop, .saveFinito), (.chunkTmp sn.tip, .fileChunk), (.flushTmp sn.tip, .fileClosed), (.renameTmpDb sn.tip, .fileRenamed)]

end GocoinV.Persist
