/-
  Model.NetParseExpire — client/network/core.go `func (c *OneConnection) expire_misbehave(now int64)`,
  statement by statement AS WRITTEN. Tick calls it once a second on the connection thread; it walks
  c.misbehave_history ([][2]uint16: [0] = low 16 bits of the unix time of the penalty, [1] = points)
  from the oldest record and forgets those older than 3600 s. A panic here ("index out of range")
  kills the connection thread, so every slice index of the function goes through `idx?` / `sliceFrom?`
  below, which yield `none` exactly where Go panics; there are no defaults.

      if len(c.misbehave_history) > 0 {
          var idx, sub int
          for {
              tim := (now & 0xffff0000) | int64(c.misbehave_history[idx][0])
              if tim > now { tim-- }                      // minus ONE (not minus 0x10000) - kept as written
              if now-tim < 3600 { break }
              if idx+1 == len(c.misbehave_history) {      // the last record has expired too
                  c.misbehave = 0; c.misbehave_history = nil; return
              }
              idx++
              sub += int(c.misbehave_history[idx][1])     // the weight of the NEXT record - kept as written
          }
          if idx > 0 { c.misbehave -= sub; c.misbehave_history = c.misbehave_history[idx:] }
      }

  Numbers. `now` and `tim` are int64, modelled as Int (no wrap-around: the statements are exact for
  |now| < 2^62, far beyond any clock). `now & 0xffff0000` with the int64 constant 0x00000000ffff0000 is
  bits 16..31 of the two's complement of now = now mod 2^32 - now mod 2^16 with the non-negative remainder
  (Int's `%`), for negative now as well; the low 16 bits of that are zero, so `| int64(x)` with x : uint16
  is `+ x`. The two uint16 fields of a record are read modulo 65536 (the type), so the theorems need no
  hypothesis about the numbers in the list.

  `expireG moved`: `moved = false` is the source; `moved = true` is the order of a seeded change
  (`sub += hist[idx][1]; idx++` IN FRONT OF the `idx+1 == len` test), expressible so that Props/C18 can
  state what it does to a one-record history. Core Lean only.
-/
namespace GocoinV.NetParse.Expire

/-- c.misbehave_history: (time & 0xffff, points) per penalty, oldest first -/
abbrev Hist := List (Nat × Nat)

/-- `hist[i]` of Go: `none` = index out of range -/
def idx? (hist : Hist) (i : Nat) : Option (Nat × Nat) :=
  if h : i < hist.length then some hist[i] else none

/-- `hist[i:]` of Go: `none` = slice bounds out of range -/
def sliceFrom? (hist : Hist) (i : Nat) : Option Hist :=
  if i ≤ hist.length then some (hist.drop i) else none

/-- `tim := (now & 0xffff0000) | int64(t); if tim > now { tim-- }` -/
def timOf (now : Int) (t : Nat) : Int :=
  let tim : Int := (now % 4294967296 - now % 65536) + ((t % 65536 : Nat) : Int)
  if tim > now then tim - 1 else tim

/-- how the `for` loop ends -/
inductive Loop where
  | panic                         -- index out of range
  | stuck                         -- the model's fuel ran out (never: `loop_not_stuck` in Proofs/C18Expire)
  | zero                          -- the `idx+1 == len` branch: everything forgotten, returned
  | brk (idx : Nat) (sub : Int)   -- `break` with these locals
  deriving DecidableEq, Repr

/-- the `for { … }` of expire_misbehave, one iteration per unit of fuel -/
def loopG (moved : Bool) (now : Int) (hist : Hist) : Nat → Nat → Int → Loop
  | 0, _, _ => .stuck
  | fuel + 1, idx, sub =>
    match idx? hist idx with                                   -- c.misbehave_history[idx][0]
    | none => .panic
    | some rec =>
      let tim := timOf now rec.1
      if now - tim < 3600 then .brk idx sub
      else if moved then
        -- the seeded order: sub += hist[idx][1]; idx++; if idx+1 == len { … return }
        match idx? hist idx with                               -- c.misbehave_history[idx][1]
        | none => .panic
        | some r =>
          let sub := sub + ((r.2 % 65536 : Nat) : Int)
          let idx := idx + 1
          if idx + 1 = hist.length then .zero
          else loopG moved now hist fuel idx sub
      else
        if idx + 1 = hist.length then .zero
        else
          let idx := idx + 1
          match idx? hist idx with                             -- c.misbehave_history[idx][1]
          | none => .panic
          | some r => loopG moved now hist fuel idx (sub + ((r.2 % 65536 : Nat) : Int))

/-- expire_misbehave on (c.misbehave, c.misbehave_history): the two fields afterwards, `none` = panic
    (a `stuck` loop is reported as `none` too, so `≠ none` excludes both). -/
def expireG (moved : Bool) (now : Int) (mis : Int) (hist : Hist) : Option (Int × Hist) :=
  if hist.length > 0 then
    match loopG moved now hist (hist.length + 1) 0 0 with
    | .panic => none
    | .stuck => none
    | .zero => some (0, [])
    | .brk idx sub =>
      if idx > 0 then
        match sliceFrom? hist idx with                         -- c.misbehave_history[idx:]
        | none => none
        | some rest => some (mis - sub, rest)
      else some (mis, hist)
  else some (mis, hist)

/-- the function of the source -/
def expire (now : Int) (mis : Int) (hist : Hist) : Option (Int × Hist) := expireG false now mis hist

end GocoinV.NetParse.Expire
