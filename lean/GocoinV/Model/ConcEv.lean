/-
  Model.ConcEv — the vocabulary in which go/cmd/gen_c11 prints the synchronisation structure of the
  concurrent gocoin functions (C11): one event per synchronisation operation / tracked shared access,
  in source order, with the block structure (`open`/`close`, `ret` = return/goto/break/continue/panic).
  Names (mutex expressions, channels, wait groups, fields, callees) are numbers; the table is generated.
  Core only.
-/
namespace GocoinV.ConcEv

inductive Ev where
  | lock (m : Nat) | unlock (m : Nat) | rlock (m : Nat) | runlock (m : Nat)
  | deferUnlock (m : Nat) | deferRUnlock (m : Nat)
  | wgAdd (w : Nat) | wgDone (w : Nat) | wgWait (w : Nat) | deferWgDone (w : Nat)
  | send (c : Nat) | recv (c : Nat) | chanLen (c : Nat)
  | selBegin | selEnd | selSend (c : Nat) | selRecv (c : Nat) | selDefault | selTimeout
  | atomic (v : Nat)
  | goBegin | goEnd | goCall (f : Nat) | fnBegin | fnEnd | deferBegin | deferEnd
  | call (f : Nat)
  | rd (x : Nat) | wr (x : Nat)
  | open | close | ret | label
  | neg   -- precedes the `open` of an `if` body whose condition is a negation `!c` (polarity of the test)
  deriving DecidableEq, Repr, Inhabited

/-- synchronisation skeleton: everything but tracked reads/writes and pure block structure -/
def Ev.isSync : Ev → Bool
  | .rd _ | .wr _ | .open | .close | .ret | .label | .neg => false
  | _ => true

def skeleton (l : List Ev) : List Ev := l.filter Ev.isSync

end GocoinV.ConcEv
