/-
  Model.GroupSched (C08) — `Field.InvVar` (lib/secp256k1/field.go) at STEP level, for several callers at once.

      c = *a; c.Normalize(); c.GetB32(b[:])        -- private: the caller's own element, v = its canonical value
      n.SetBytes(b[:])                             -- step 0 "load":   n := v
      n.mod_inv(&n, &TheCurve.p)                   -- step 1 "invert": n := n⁻¹ mod p      (big.Int.ModInverse)
      r.SetBytes(n.Bytes())                        -- step 2 "store":  the caller's result := n

  `Model.Group.invVar` is a function of the argument. That is what the three steps compute for a caller only while
  nobody else writes `n` between its "load" and its "store". InvVar is the one place where the field code leaves the
  limb representation for math/big, and every Jacobian → affine conversion (XY.SetXYZ, hence BaseMultiply / Multiply /
  BaseMultiplyAdd, signature verification, key recovery) goes through it — from many goroutines at once when the node
  verifies the inputs of a block in parallel. The callers share nothing they pass in; what they could share is
  package-level state: `shared = false` is the code as written (`var n Number`, private to the call),
  `shared = true` is the same function with the number hoisted to a package-level variable (one cell for all
  callers). Which of the two the source has is REGENERATED (`Gen.C08Shared.invScratchShared`, go/cmd/gen_c08/shared.go).

  A schedule is a list of caller indices: each entry lets that caller do its next step. Core Lean only.
-/
import GocoinV.Model.Group
import GocoinV.Gen.C08Shared

namespace GocoinV.C08.InvSched
open GocoinV.Gen.Field5x52
open GocoinV.Gen

/-- one caller inside InvVar -/
structure Th where
  /-- the value of its own (normalised) element -/
  v : Nat
  /-- its own number `n` (used when the number is not shared) -/
  own : Nat
  /-- next step: 0 load, 1 invert, 2 store, 3 = returned -/
  pc : Nat
  /-- what it stored into its result -/
  out : Nat
  deriving DecidableEq, Repr

structure St where
  /-- the package-level number (exists only in the `shared` variant) -/
  cell : Nat
  ths : List Th
  deriving DecidableEq, Repr

def Th.init (v : Nat) : Th := ⟨v, 0, 0, 0⟩

/-- one step of one caller; returns its new state and the new content of the package-level cell -/
def stepTh (shared : Bool) (cell : Nat) (t : Th) : Th × Nat :=
  let n := if shared then cell else t.own
  let put (x : Nat) : Th × Nat :=
    if shared then ({ t with pc := t.pc + 1 }, x) else ({ t with own := x, pc := t.pc + 1 }, cell)
  if t.pc = 0 then put t.v
  else if t.pc = 1 then put (Secp.invMod n P)
  else if t.pc = 2 then ({ t with out := n, pc := 3 }, cell)
  else (t, cell)

def step (shared : Bool) (s : St) (i : Nat) : St :=
  match s.ths[i]? with
  | none => s
  | some t => ⟨(stepTh shared s.cell t).2, s.ths.set i (stepTh shared s.cell t).1⟩

def run (shared : Bool) (s : St) (sched : List Nat) : St := sched.foldl (step shared) s

def start (vs : List Nat) : St := ⟨0, vs.map Th.init⟩

/-- a caller running with nobody else around, `n` steps (private number) -/
def alone (t : Th) : Nat → Th
  | 0 => t
  | n + 1 => alone (stepTh false 0 t).1 n

/-- three steps per caller, one caller after the other: lets everybody return after `sched` -/
def finish : Nat → List Nat
  | 0 => []
  | k + 1 => finish k ++ [k, k, k]

/-- the canonical value InvVar's first three statements hand to math/big -/
def argVal (a : Fe) : Nat := beVal (getB32 (normalize a))

/-- oracle: the field elements all callers obtain under `sched` (then run to completion one after the other), with
    the variant the source has -/
def results (as : List Fe) (sched : List Nat) : List Fe :=
  let s := run Gen.C08Shared.invScratchShared (start (as.map argVal)) (sched ++ finish as.length)
  s.ths.map fun t => Fe.ofNat t.out

end GocoinV.C08.InvSched
