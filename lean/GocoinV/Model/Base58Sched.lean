/-
  Model.Base58Sched — `Encodeb58`'s digit loop (lib/btc/addr.go) at STEP level, for several callers at once.

      for bn.Cmp(bn0) != 0 {
          bn, mo = bn.DivMod(bn, bn58, new(big.Int))     -- step "div": quotient into the caller's own bn,
          idx--                                          --             remainder into the DESTINATION operand
          buf[idx] = b58set[mo.Int64()]                  -- step "put": read the remainder, store the digit
      }

  `Model.Base58.encode` is a function of the argument. That is what the loop computes for a caller only while nobody
  else writes the values it reads between "div" and "put". The callers share nothing they pass in (each has its own
  byte string, `bn`, `buf`); what they could share is package-level state. The one place where the loop hands a
  DESTINATION to math/big is the remainder operand of DivMod: `shared = false` is the code as written (a fresh
  `new(big.Int)` per iteration, private to the caller), `shared = true` is the same loop with that operand hoisted to
  a package-level variable (one cell for all callers). Which of the two the source has is REGENERATED
  (`Gen.C15Shared.encodeRemShared`, go/cmd/gen_c15/shared.go).

  A schedule is a list of caller indices: each entry lets that caller do its next step. Core Lean only.
-/
import GocoinV.Model.Base58
import GocoinV.Gen.C15Shared
namespace GocoinV.Base58Sched
open Base58

/-- one caller inside the digit loop -/
structure Th where
  /-- its own `bn` -/
  bn : Nat
  /-- the remainder value it allocated for this iteration (used when the operand is not shared) -/
  rem : Nat
  /-- "div" done, "put" not yet -/
  pending : Bool
  /-- `buf[idx:]` -/
  out : Bytes
deriving DecidableEq, Repr

structure St where
  /-- the package-level remainder cell (exists only in the `shared` variant) -/
  cell : Nat
  ths : List Th

def Th.ofNat (n : Nat) : Th := ⟨n, 0, false, []⟩
/-- `bn := new(big.Int).SetBytes(a)`, empty buffer -/
def Th.init (a : Bytes) : Th := Th.ofNat (beVal a)
/-- the loop condition `bn.Cmp(bn0) != 0` is false and no digit is outstanding -/
def Th.done (t : Th) : Prop := t.bn = 0 ∧ t.pending = false
instance (t : Th) : Decidable t.done := by unfold Th.done; infer_instance

/-- the string `Encodeb58(a)` returns for a caller that left the loop: the `for i := range a` loop prepends one
    `b58set[0]` per leading zero byte of its own argument -/
def Th.result (a : Bytes) (t : Th) : Bytes := List.replicate (leadingZeros a) (digitChar 0) ++ t.out

/-- one step of one caller; returns its new state and the new content of the package-level cell -/
def stepTh (shared : Bool) (cell : Nat) (t : Th) : Th × Nat :=
  if t.pending then
    ({ t with pending := false, out := digitChar (if shared then cell else t.rem) :: t.out }, cell)
  else if t.bn = 0 then (t, cell)
  else if shared then ({ t with bn := t.bn / 58, pending := true }, t.bn % 58)
  else ({ t with bn := t.bn / 58, rem := t.bn % 58, pending := true }, cell)

def step (shared : Bool) (s : St) (i : Nat) : St :=
  match s.ths[i]? with
  | none => s
  | some t => ⟨(stepTh shared s.cell t).2, s.ths.set i (stepTh shared s.cell t).1⟩

def run (shared : Bool) (s : St) (sched : List Nat) : St := sched.foldl (step shared) s

def start (as : List Bytes) : St := ⟨0, as.map Th.init⟩

/-- a caller running with nobody else around, `n` steps (private remainder) -/
def alone (t : Th) : Nat → Th
  | 0 => t
  | n + 1 => alone (stepTh false 0 t).1 n

/-- enough steps for every caller to finish after `sched`: used by the oracle to return complete strings -/
def finish (as : List Bytes) : List Nat :=
  (List.range as.length).flatMap fun i => List.replicate (2 * (as.getD i []).length * 2 + 2) i

/-- oracle: the strings all callers return under `sched` (then run to completion one after the other), with the
    variant the source has -/
def results (as : List Bytes) (sched : List Nat) : List Bytes :=
  let s := run Gen.C15Shared.encodeRemShared (start as) (sched ++ finish as)
  (as.zip s.ths).map fun (a, t) => t.result a

end GocoinV.Base58Sched
