/-
  Model.UtxoRec — the UTXO record codecs of lib/utxo:
    plain      SerializeU / NewUtxoRecOwnU / OneUtxoRecU        (unspent_recu.go)
    compressed SerializeC / NewUtxoRecOwnC / OneUtxoRecC        (unspent_recc.go)
  and the snapshot file framing of UnspentDB.save / NewUnspentDb (unspent_db.go).
  Core-only, executable. Decoders walk the "rest of the buffer" (`dat[off:]`) instead of an offset;
  a Go panic (index / slice out of range) is the explicit result `panic`.
-/
import GocoinV.Base.Bytes
import GocoinV.Base.C10_Extra
import GocoinV.Model.AmountCompress
import GocoinV.Model.ScriptCompress
namespace GocoinV.UtxoRec
open GocoinV.CompactSize

/-- `utxo.UtxoTxOut` -/
structure Out where
  value : Nat
  pk : Bytes
  deriving DecidableEq, Repr

/-- `utxo.UtxoRec`; `outs[i] = none` is the nil pointer of a spent output -/
structure Rec where
  txid : Bytes
  inBlock : Nat
  coinbase : Bool
  outs : List (Option Out)
  deriving DecidableEq, Repr

/-- result of a decoder: value, Go panic, or a loop that never terminates -/
inductive Res (α : Type) where
  | ok (a : α)
  | panic
  | hang
  deriving DecidableEq, Repr

/-- `uint64(len(rec.Outs) << 1) | coinbase` -/
def outcnt (r : Rec) : Nat := 2 * r.outs.length + (if r.coinbase then 1 else 0)

def anyOut (outs : List (Option Out)) : Bool := outs.any Option.isSome

/-! ## plain format -/

/-- the second `for i, r := range rec.Outs` loop of `SerializeU`, from index `i` on -/
def encOutsU (i : Nat) : List (Option Out) → Bytes
  | [] => []
  | none :: t => encOutsU (i + 1) t
  | some o :: t =>
    putULe i ++ (putULe o.value ++ (putULe o.pk.length ++ (o.pk ++ encOutsU (i + 1) t)))

/-- the first loop of `SerializeU` (the length `le` that is allocated) -/
def sizeOutsU (i : Nat) : List (Option Out) → Nat
  | [] => 0
  | none :: t => sizeOutsU (i + 1) t
  | some o :: t =>
    vlenSize i + vlenSize o.value + vlenSize o.pk.length + o.pk.length + sizeOutsU (i + 1) t

def sizeU (r : Rec) : Nat :=
  32 + vlenSize r.inBlock + vlenSize (outcnt r) + sizeOutsU 0 r.outs

/-- `SerializeU(rec, nil)`: `none` = nil result (no live output). `txid` is 32 bytes. -/
def serializeU (r : Rec) : Option Bytes :=
  if anyOut r.outs then
    some (r.txid ++ (putULe r.inBlock ++ (putULe (outcnt r) ++ encOutsU 0 r.outs)))
  else none

/-- allocation bound above which `make([]*UtxoTxOut, n)` is treated as a failure by the model
    (far outside every record the node can hold; keeps the executable model total and finite) -/
def maxOuts : Nat := 2 ^ 32

/-- one pass of the `for off < len(dat)` loop of `NewUtxoRecOwnU` per unit of fuel -/
def decOutsU : Nat → Bytes → List (Option Out) → Res (List (Option Out))
  | 0, rest, acc => if rest.isEmpty then .ok acc else .hang
  | f + 1, rest, acc =>
    if rest.isEmpty then .ok acc
    else
      let a := vule rest
      let r1 := rest.drop a.2
      if shorter acc (a.1 + 1) then .panic          -- rec.Outs[idx]: idx ≥ len
      else
        let b := vule r1
        let r2 := r1.drop b.2
        let c := vlen r2
        let r3 := r2.drop c.2
        if c.1 < 0 ∨ shorter r3 c.1.toNat then .panic  -- dat[off:off+i]
        else decOutsU f (r3.drop c.1.toNat) (acc.set a.1 (some ⟨b.1, r3.take c.1.toNat⟩))

/-- header shared by all four decoders: (txid, height word, count word, rest) -/
def decHeader (dat : Bytes) : Option (Bytes × Nat × Nat × Bytes) :=
  if dat.length < 32 then none
  else
    let r0 := dat.drop 32
    let a := vule r0
    let r1 := r0.drop a.2
    let b := vule r1
    some (dat.take 32, a.1, b.1, r1.drop b.2)

/-- `NewUtxoRecOwnU(dat, &rec, nil)` -/
def newRecU (dat : Bytes) : Res Rec :=
  match decHeader dat with
  | none => .panic
  | some (txid, h, c, rest) =>
    if c / 2 > maxOuts then .panic
    else match decOutsU rest.length rest (List.replicate (c / 2) none) with
      | .ok outs => .ok ⟨txid, h % 2 ^ 32, c % 2 == 1, outs⟩
      | .panic => .panic
      | .hang => .hang

/-- `btc.TxOut` as filled by `OneUtxoRec` -/
structure TxOut where
  value : Nat
  pk : Bytes
  blockHeight : Nat
  voutCount : Nat
  wasCoinbase : Bool
  deriving DecidableEq, Repr

/-- result of the scan loops of `OneUtxoRecU/C`: found (value word, script), nil, panic, hang -/
inductive Scan where
  | found (v : Nat) (pk : Bytes)
  | nil
  | panic
  | hang
  deriving DecidableEq, Repr

def scanU (vout : Nat) : Nat → Bytes → Scan
  | 0, rest => if rest.isEmpty then .nil else .hang
  | f + 1, rest =>
    if rest.isEmpty then .nil
    else
      let a := vule rest
      if a.1 % 2 ^ 32 > vout then .nil
      else
        let r1 := rest.drop a.2
        let b := vule r1
        let r2 := r1.drop b.2
        let c := vlen r2
        let r3 := r2.drop c.2
        if a.1 % 2 ^ 32 == vout then
          if c.1 < 0 ∨ shorter r3 c.1.toNat then .panic else .found b.1 (r3.take c.1.toNat)
        else if c.1 < 0 then .hang   -- `off += i` with negative i walks backwards: not modelled
        else scanU vout f (r3.drop c.1.toNat)

/-- `OneUtxoRecU(dat, vout)`; `.ok none` = nil -/
def oneU (dat : Bytes) (vout : Nat) : Res (Option TxOut) :=
  match decHeader dat with
  | none => .panic
  | some (_, h, c, rest) =>
    let vc := (c / 2) % 2 ^ 32
    if vc ≤ vout then .ok none
    else match scanU vout rest.length rest with
      | .found v pk => .ok (some ⟨v, pk, h % 2 ^ 32, vc, c % 2 == 1⟩)
      | .nil => .ok none
      | .panic => .panic
      | .hang => .hang

/-! ## compressed format -/
open ScriptCompress (KeyOps)

/-- script part of one output in `SerializeC` -/
def encScrC (K : KeyOps) (pk : Bytes) : Bytes :=
  match ScriptCompress.compress K pk with
  | some c => c
  | none => putULe (6 + pk.length) ++ pk

def encOutsC (K : KeyOps) (i : Nat) : List (Option Out) → Bytes
  | [] => []
  | none :: t => encOutsC K (i + 1) t
  | some o :: t =>
    putULe i ++ (putULe (AmountCompress.compress o.value) ++ (encScrC K o.pk ++ encOutsC K (i + 1) t))

def sizeScrC (K : KeyOps) (pk : Bytes) : Nat :=
  match ScriptCompress.compress K pk with
  | some c => c.length
  | none => vlenSize (6 + pk.length) + pk.length

def sizeOutsC (K : KeyOps) (i : Nat) : List (Option Out) → Nat
  | [] => 0
  | none :: t => sizeOutsC K (i + 1) t
  | some o :: t =>
    vlenSize i + vlenSize (AmountCompress.compress o.value) + sizeScrC K o.pk + sizeOutsC K (i + 1) t

def sizeC (K : KeyOps) (r : Rec) : Nat :=
  32 + vlenSize r.inBlock + vlenSize (outcnt r) + sizeOutsC K 0 r.outs

/-- `SerializeC(rec, nil)` -/
def serializeC (K : KeyOps) (r : Rec) : Option Bytes :=
  if anyOut r.outs then
    some (r.txid ++ (putULe r.inBlock ++ (putULe (outcnt r) ++ encOutsC K 0 r.outs)))
  else none

/-- the script part of one output as both compressed decoders read it from `r2 = dat[off:]`:
    `(script, rest after the script)`; `none` = panic. -/
def decScrC (K : KeyOps) (r2 : Bytes) : Option (Bytes × Bytes) :=
  let c := vlen r2
  if c.1 < 6 then
    if c.1 < 0 then none                                  -- ComprScrLen[negative]
    else
      let l := ScriptCompress.comprScrLen.getD c.1.toNat 0
      if shorter r2 l then none                           -- dat[off:off+i] out of range
      else match ScriptCompress.decompress K (r2.take l) with
        | .ok s => some (s, r2.drop l)
        | .nil => some ([], r2.drop l)
        | .panic => none
  else
    let r3 := r2.drop c.2
    let j := c.1.toNat - 6
    if shorter r3 j then none else some (r3.take j, r3.drop j)

def decOutsC (K : KeyOps) : Nat → Bytes → List (Option Out) → Res (List (Option Out))
  | 0, rest, acc => if rest.isEmpty then .ok acc else .hang
  | f + 1, rest, acc =>
    if rest.isEmpty then .ok acc
    else
      let a := vule rest
      let r1 := rest.drop a.2
      if shorter acc (a.1 + 1) then .panic
      else
        let b := vule r1
        let r2 := r1.drop b.2
        match decScrC K r2 with
        | none => .panic
        | some (pk, nxt) =>
          decOutsC K f nxt (acc.set a.1 (some ⟨AmountCompress.decompress b.1, pk⟩))

/-- `NewUtxoRecOwnC(dat, &rec, nil)` -/
def newRecC (K : KeyOps) (dat : Bytes) : Res Rec :=
  match decHeader dat with
  | none => .panic
  | some (txid, h, c, rest) =>
    if c / 2 > maxOuts then .panic
    else match decOutsC K rest.length rest (List.replicate (c / 2) none) with
      | .ok outs => .ok ⟨txid, h % 2 ^ 32, c % 2 == 1, outs⟩
      | .panic => .panic
      | .hang => .hang

/-- how `OneUtxoRecC` skips the script of an output it is not looking for: the rest after it.
    `none` = panic (ComprScrLen[negative]). Skipping past the end is not a panic (`off` only grows). -/
def skipScrC (r2 : Bytes) : Option Bytes :=
  let c := vlen r2
  if c.1 < 6 then
    if c.1 < 0 then none else some (r2.drop (ScriptCompress.comprScrLen.getD c.1.toNat 0))
  else some ((r2.drop c.2).drop (c.1.toNat - 6))

def scanC (K : KeyOps) (vout : Nat) : Nat → Bytes → Scan
  | 0, rest => if rest.isEmpty then .nil else .hang
  | f + 1, rest =>
    if rest.isEmpty then .nil
    else
      let a := vule rest
      if a.1 % 2 ^ 32 > vout then .nil
      else
        let r1 := rest.drop a.2
        let b := vule r1
        let r2 := r1.drop b.2
        if a.1 % 2 ^ 32 == vout then
          match decScrC K r2 with
          | none => .panic
          | some (pk, _) => .found (AmountCompress.decompress b.1) pk
        else match skipScrC r2 with
          | none => .panic
          | some nxt => scanC K vout f nxt

/-- `OneUtxoRecC(dat, vout)` -/
def oneC (K : KeyOps) (dat : Bytes) (vout : Nat) : Res (Option TxOut) :=
  match decHeader dat with
  | none => .panic
  | some (_, h, c, rest) =>
    let vc := (c / 2) % 2 ^ 32
    if vc ≤ vout then .ok none
    else match scanC K vout rest.length rest with
      | .found v pk => .ok (some ⟨v, pk, h % 2 ^ 32, vc, c % 2 == 1⟩)
      | .nil => .ok none
      | .panic => .panic
      | .hang => .hang

/-- what "decoding the whole record and taking field `vout`" gives, in `OneUtxoRec`'s result type -/
def outOf (r : Rec) (vout : Nat) : Option TxOut :=
  match r.outs.getD vout none with
  | some o => some ⟨o.value, o.pk, r.inBlock, r.outs.length, r.coinbase⟩
  | none => none

/-! ## snapshot file (UTXO.db) framing -/

/-- what `save` writes and `NewUnspentDb` restores: mode bit, height, block hash, the raw records
    (in file order; the node keeps them in a map keyed by their first 8 bytes). -/
structure Snap where
  compressed : Bool
  height : Nat
  hash : Bytes
  recs : List Bytes
  deriving DecidableEq, Repr

def encRecs : List Bytes → Bytes
  | [] => []
  | r :: t => putULe r.length ++ (r ++ encRecs t)   -- btc.WriteVlen + buf.Write

/-- `UnspentDB.save`: u64le(height | compressed<<63) ‖ hash ‖ u64le(count) ‖ records -/
def snapEncode (s : Snap) : Bytes :=
  leBytes 8 (s.height + (if s.compressed then 2 ^ 63 else 0)) ++
    (s.hash ++ (leBytes 8 s.recs.length ++ encRecs s.recs))

/-- `btc.ReadVLen` on the rest of the file: (value, rest); `none` = read error -/
def readVLen (b : Bytes) : Option (Nat × Bytes) :=
  match b with
  | [] => none
  | h :: t =>
    if h.toNat < 0xfd then some (h.toNat, t)
    else
      let c := 2 <<< (2 - (0xff - h.toNat))
      if shorter t c then none else some (leVal (t.take c), t.drop c)

/-- the record loop of `NewUnspentDb`: `n` records -/
def decRecs : Nat → Bytes → Option (List Bytes)
  | 0, _ => some []
  | n + 1, b =>
    match readVLen b with
    | none => none
    | some (le, r) =>
      if shorter r le then none
      else match decRecs n (r.drop le) with
        | none => none
        | some l => some (r.take le :: l)

/-- `NewUnspentDb` reading one file; `none` = the fatal_error path. Bytes after the last record are
    ignored, exactly as the loader ignores them. -/
def snapDecode (f : Bytes) : Option Snap :=
  if f.length < 48 then none
  else
    let u := leVal (f.take 8)
    let hash := (f.drop 8).take 32
    let cnt := leVal ((f.drop 40).take 8)
    match decRecs cnt (f.drop 48) with
    | none => none
    | some recs => some ⟨u / 2 ^ 63 % 2 == 1, u % 2 ^ 32, hash, recs⟩

/-! ## compiled-code shortcuts for the two whole-record decoders

  `decOutsU/decOutsC` keep `rec.Outs` as a list: `rec.Outs[idx] = …` costs `idx` steps, a dense record of 30001
  outputs 4.5·10^8. The versions below keep it in an `Array` (constant-time store, updated in place), are proved
  equal and installed for the compiler with `@[csimp]`; every theorem stays about `newRecU/newRecC`. -/

def Res.map {α β : Type} (f : α → β) : Res α → Res β
  | .ok a => .ok (f a)
  | .panic => .panic
  | .hang => .hang

def decOutsUA : Nat → Bytes → Array (Option Out) → Res (Array (Option Out))
  | 0, rest, acc => if rest.isEmpty then .ok acc else .hang
  | f + 1, rest, acc =>
    if rest.isEmpty then .ok acc
    else
      let a := vule rest
      let r1 := rest.drop a.2
      if acc.size < a.1 + 1 then .panic
      else
        let b := vule r1
        let r2 := r1.drop b.2
        let c := vlen r2
        let r3 := r2.drop c.2
        if c.1 < 0 ∨ shorter r3 c.1.toNat then .panic
        else decOutsUA f (r3.drop c.1.toNat) (acc.setIfInBounds a.1 (some ⟨b.1, r3.take c.1.toNat⟩))

theorem shorter_toList {α : Type} (a : Array α) (n : Nat) : shorter a.toList n = decide (a.size < n) := by
  cases h : shorter a.toList n
  · have := (shorter_false_iff a.toList n).mp h
    simp only [Array.length_toList] at this
    simp; omega
  · have := (shorter_iff a.toList n).mp h
    simp only [Array.length_toList] at this
    simp; omega

theorem decOutsUA_eq : ∀ (f : Nat) (rest : Bytes) (acc : Array (Option Out)),
    (decOutsUA f rest acc).map Array.toList = decOutsU f rest acc.toList := by
  intro f
  induction f with
  | zero =>
    intro rest acc
    simp only [decOutsUA, decOutsU]
    split <;> rfl
  | succ f ih =>
    intro rest acc
    simp only [decOutsUA, decOutsU, shorter_toList, decide_eq_true_eq]
    split
    · rfl
    · split
      · rfl
      · split
        · rfl
        · rw [ih, Array.toList_setIfInBounds]

def newRecUFast (dat : Bytes) : Res Rec :=
  match decHeader dat with
  | none => .panic
  | some (txid, h, c, rest) =>
    if c / 2 > maxOuts then .panic
    else match decOutsUA rest.length rest (Array.replicate (c / 2) none) with
      | .ok outs => .ok ⟨txid, h % 2 ^ 32, c % 2 == 1, outs.toList⟩
      | .panic => .panic
      | .hang => .hang

@[csimp] theorem newRecU_csimp : @newRecU = @newRecUFast := by
  funext dat
  unfold newRecU newRecUFast
  split
  · rfl
  · rename_i txid h c rest _
    split
    · rfl
    · have := decOutsUA_eq rest.length rest (Array.replicate (c / 2) none)
      rw [Array.toList_replicate] at this
      rw [← this]
      cases decOutsUA rest.length rest (Array.replicate (c / 2) none) <;> rfl

def decOutsCA (K : KeyOps) : Nat → Bytes → Array (Option Out) → Res (Array (Option Out))
  | 0, rest, acc => if rest.isEmpty then .ok acc else .hang
  | f + 1, rest, acc =>
    if rest.isEmpty then .ok acc
    else
      let a := vule rest
      let r1 := rest.drop a.2
      if acc.size < a.1 + 1 then .panic
      else
        let b := vule r1
        let r2 := r1.drop b.2
        match decScrC K r2 with
        | none => .panic
        | some (pk, nxt) =>
          decOutsCA K f nxt (acc.setIfInBounds a.1 (some ⟨AmountCompress.decompress b.1, pk⟩))

theorem decOutsCA_eq (K : KeyOps) : ∀ (f : Nat) (rest : Bytes) (acc : Array (Option Out)),
    (decOutsCA K f rest acc).map Array.toList = decOutsC K f rest acc.toList := by
  intro f
  induction f with
  | zero =>
    intro rest acc
    simp only [decOutsCA, decOutsC]
    split <;> rfl
  | succ f ih =>
    intro rest acc
    simp only [decOutsCA, decOutsC, shorter_toList, decide_eq_true_eq]
    split
    · rfl
    · split
      · rfl
      · split
        · rfl
        · rw [ih, Array.toList_setIfInBounds]

def newRecCFast (K : KeyOps) (dat : Bytes) : Res Rec :=
  match decHeader dat with
  | none => .panic
  | some (txid, h, c, rest) =>
    if c / 2 > maxOuts then .panic
    else match decOutsCA K rest.length rest (Array.replicate (c / 2) none) with
      | .ok outs => .ok ⟨txid, h % 2 ^ 32, c % 2 == 1, outs.toList⟩
      | .panic => .panic
      | .hang => .hang

@[csimp] theorem newRecC_csimp : @newRecC = @newRecCFast := by
  funext K dat
  unfold newRecC newRecCFast
  split
  · rfl
  · rename_i txid h c rest _
    split
    · rfl
    · have := decOutsCA_eq K rest.length rest (Array.replicate (c / 2) none)
      rw [Array.toList_replicate] at this
      rw [← this]
      cases decOutsCA K rest.length rest (Array.replicate (c / 2) none) <;> rfl

end GocoinV.UtxoRec
