/-
  Model.WalletTx — mirror of the spending path of the gocoin wallet (wallet/send.go, signtx.go,
  stuff.go, unspent.go, wallet.go key lookup; lib/btc/funcs.go StringToSatoshis / WritePutLen /
  WriteVlen; lib/btc/tx.go Serialize / SerializeNew / Sign / SignWitness assembly).

  uint64 / uint32 arithmetic is over `Nat` with explicit `% 2^64` / `% 2^32` (Go wrap-around).
  `cleanExit(1)` / `os.Exit(1)` is `Fail.exit1` (nothing is written), a Go run-time panic is `Fail.panic`.

  Signature bytes are a PARAMETER (`sig : Skeleton → Nat → SigReq → Bytes`): the model fixes WHICH digest is
  signed with WHICH key for every input and how the result is assembled into scriptSig / witness; it does
  not model ECDSA / Schnorr. The oracle instantiates `sig` with the signatures found in the wallet's real
  output, so the whole file content is compared byte for byte.
  Hash functions are the parameter `H : Addr.Hashes` (theorems hold for every instance).

  Deviation from statement order, stated once: `sign_tx` mutates the transaction input by input and hashes
  the partially signed transaction; the model computes every input from the `Skeleton` (version, outpoints,
  sequences, outputs, lock time) of the transaction, which signing provably leaves unchanged
  (`Props.C13.raw_sign_preserves`). That the three digests depend on the skeleton (and the spent outputs)
  only is C02's statement and is listed in the trusted base.
-/
import GocoinV.Model.Addr
import GocoinV.Base.Bytes
namespace GocoinV.WalletTx
open GocoinV

def u64 (n : Nat) : Nat := n % 2^64
def u32 (n : Nat) : Nat := n % 2^32

inductive Fail | exit1 | panic
  deriving Repr, DecidableEq

/-! ## lib/btc/funcs.go : StringToSatoshis -/

def isDigit (c : UInt8) : Bool := 48 ≤ c.toNat && c.toNat ≤ 57

def digitsVal : Bytes → Nat → Nat
  | [], acc => acc
  | c :: cs, acc => digitsVal cs (acc * 10 + (c.toNat - 48))

/-- `strconv.ParseUint(s, 10, 64)`; `none` = error (syntax or range) -/
def parseUint64 (s : Bytes) : Option Nat :=
  if s.isEmpty then none
  else if s.all isDigit then
    let v := digitsVal s 0
    if v < 2^64 then some v else none
  else none

/-- `strings.Split(s, sep)` for a one-byte separator -/
def splitOn (sep : UInt8) : Bytes → List Bytes
  | [] => [[]]
  | c :: cs =>
    match splitOn sep cs with
    | [] => [[]]
    | h :: t => if c = sep then [] :: h :: t else (c :: h) :: t

inductive Amt | ok (v : Nat) | err | exit
  deriving Repr, DecidableEq

/-- `btc.StringToSatoshis`. `.exit` = the `os.Exit(1)` taken for two or more dots.
    The products and sums are uint64: they WRAP silently (DESIGN O4). -/
def stringToSatoshis (s : Bytes) : Amt :=
  match splitOn 46 s with
  | [a] =>
    match parseUint64 a with
    | some v => .ok (u64 (v * 100000000))
    | none => .err
  | [a, b] =>
    if b.length > 8 then .err
    else
      match parseUint64 (b ++ List.replicate (8 - b.length) 48) with
      | none => .err
      | some small =>
        match parseUint64 a with
        | none => .err
        | some big => .ok (u64 (100000000 * big + small))
  | _ => .exit

/-! ## wallet keys and the look-ups of wallet/wallet.go -/

structure KeyRec where
  pub : Bytes       -- keys[i].BtcAddr.Pubkey (33 bytes compressed; 65 bytes for an uncompressed key imported through .others)
  h160 : Bytes      -- keys[i].BtcAddr.Hash160
  segH160 : Bytes   -- the P2SH-P2WPKH script hash of key i AS THE LOOK-UPS READ IT (scripthash_to_key_idx, since the fix of
                    -- the cross-template aliases): segwit[i].Hash160 = HASH160(00 14 h160) when segwit[i] is a P2SH address;
                    -- [] when there is none to compare: segwit[i] == nil (a key that is not compressed has no SegWit form) or
                    -- segwit[i] is a witness-program address (bech32 / tap mode: `SegwitProg != nil`; its Hash160 field is
                    -- 20 zero bytes, which the wallet compared with script hashes before the fix and no longer reads)
  deriving Repr, DecidableEq

/-- make_wallet: "Calculate SegWit addresses" - one entry per key, AT THE KEY'S OWN INDEX (`segwit[i]`, the slice is
    made with len(keys)); `if len(pk.Pubkey) != 33 { continue }` leaves the entry nil; in bech32_mode the entry is a
    witness-program address (no script hash) -/
def mkKey (H : Addr.Hashes) (bech32 : Bool) (pub : Bytes) : KeyRec :=
  let h := H.hash160 pub
  { pub := pub, h160 := h,
    segH160 := if pub.length ≠ 33 then [] else if bech32 then [] else H.hash160 ([0, 20] ++ h) }

/-- keys[] in the order make_wallet builds it: the keys of the .others file first (load_others), then the `keycnt`
    deterministic ones; segwit[] is index-parallel to it (a record per index here) -/
def keyTable (H : Addr.Hashes) (bech32 : Bool) (pubs : List Bytes) : List KeyRec :=
  pubs.map (mkKey H bech32)

/-- A second, slice-level transcription of the same loop (neither the oracle nor the harness runs it; it exists so that
    `Proofs/C13Keys.lean` can state that the record table above equals two separately built slices zipped index by
    index — what an `append`-built segwit slice would break): `segwit = make(.., len(keys)); for i, pk := range keys {
    if len(pk.Pubkey) != 33 { continue }; segwit[i] = … }`. `none` = no P2SH address at that index (nil entry, or a
    witness-program address in bech32_mode). -/
def segTable (H : Addr.Hashes) (bech32 : Bool) (pubs : List Bytes) : List (Option Bytes) :=
  pubs.map fun pub =>
    if pub.length ≠ 33 then none
    else if bech32 then none else some (H.hash160 ([0, 20] ++ H.hash160 pub))

/-- pubhash_to_key_idx: `for i := range keys { if bytes.Equal(keys[i].BtcAddr.Hash160[:], h160) { return i } }` -/
def pubHashToKeyIdx (ks : List KeyRec) (h : Bytes) : Option Nat :=
  ks.findIdx? (fun k => k.h160 == h)

/-- scripthash_to_key_idx: `for i := range keys { if segwit[i] != nil && segwit[i].SegwitProg == nil &&
    bytes.Equal(segwit[i].Hash160[:], h160) { return i } }` -/
def scriptHashToKeyIdx (ks : List KeyRec) (h : Bytes) : Option Nat :=
  ks.findIdx? (fun k => k.segH160 != [] && k.segH160 == h)

/-- scripthash_to_key_idx written over the two slices of the second transcription: one loop over the index range of
    keys[], testing `segwit[i]` for "is a P2SH address" and then its hash -/
def scriptHashToKeyIdxSlices (pubs : List Bytes) (seg : List (Option Bytes)) (h : Bytes) : Option Nat :=
  (List.range pubs.length).find? fun i =>
    match seg.getD i none with
    | some s => s != [] && s == h
    | none => false

/-- public_xo_to_key_idx -/
def xoToKeyIdx (ks : List KeyRec) (x : Bytes) : Option Nat :=
  ks.findIdx? (fun k => (k.pub.drop 1).take 32 == x)

/-- pkscr_to_key_idx (since the fix: every template is matched against ITS OWN hash only - P2KH and P2WPKH carry the
    hash of the public key, P2SH the hash of the key's 00 14 <key hash> script; before it all three looked the 20 bytes
    up among both hashes, and the P2SH test did not read the push-length byte) -/
def pkscrToKey (ks : List KeyRec) (scr : Bytes) : Option Nat :=
  let at_ (i : Nat) : UInt8 := scr.getD i 0
  if scr.length = 25 ∧ at_ 0 = 0x76 ∧ at_ 1 = 0xa9 ∧ at_ 2 = 0x14 ∧ at_ 23 = 0x88 ∧ at_ 24 = 0xac then
    pubHashToKeyIdx ks ((scr.drop 3).take 20)
  else if scr.length = 23 ∧ at_ 0 = 0xa9 ∧ at_ 1 = 0x14 ∧ at_ 22 = 0x87 then
    scriptHashToKeyIdx ks ((scr.drop 2).take 20)
  else if scr.length = 22 ∧ at_ 0 = 0x00 ∧ at_ 1 = 0x14 then
    pubHashToKeyIdx ks (scr.drop 2)
  else if scr.length = 34 ∧ at_ 0 = 0x51 ∧ at_ 1 = 32 then
    xoToKeyIdx ks (scr.drop 2)
  else none

/-! ## transactions and their two serialisations (lib/btc/tx.go) -/

structure TxIn where
  txid : Bytes
  vout : Nat
  scriptSig : Bytes
  sequence : Nat
  deriving Repr, DecidableEq

structure TxOut where
  value : Nat
  script : Bytes
  deriving Repr, DecidableEq

structure Tx where
  version : Nat
  ins : List TxIn
  outs : List TxOut
  wit : Option (List (List Bytes))   -- tx.SegWit (nil = none)
  lockTime : Nat
  deriving Repr, DecidableEq

/-- `btc.WriteVlen` (same encoding as PutULe) -/
abbrev vlen (n : Nat) : Bytes := CompactSize.putULe n

def serIn (i : TxIn) : Bytes :=
  i.txid ++ leBytes 4 i.vout ++ vlen i.scriptSig.length ++ i.scriptSig ++ leBytes 4 i.sequence

def serOut (o : TxOut) : Bytes :=
  leBytes 8 o.value ++ vlen o.script.length ++ o.script

/-- `Tx.Serialize` (no witness) -/
def serialize (t : Tx) : Bytes :=
  leBytes 4 t.version ++ vlen t.ins.length ++ t.ins.flatMap serIn ++
  vlen t.outs.length ++ t.outs.flatMap serOut ++ leBytes 4 t.lockTime

def serWitItem (b : Bytes) : Bytes := vlen b.length ++ b
def serWitStack (s : List Bytes) : Bytes := vlen s.length ++ s.flatMap serWitItem

/-- `Tx.SerializeNew` -/
def serializeNew (t : Tx) : Bytes :=
  match t.wit with
  | none => serialize t
  | some w =>
    leBytes 4 t.version ++ [0x00, 0x01] ++ vlen t.ins.length ++ t.ins.flatMap serIn ++
    vlen t.outs.length ++ t.outs.flatMap serOut ++ w.flatMap serWitStack ++ leBytes 4 t.lockTime

/-- what write_tx_file puts into the file (before hex encoding) -/
def fileBytes (t : Tx) : Bytes := if t.wit.isSome then serializeNew t else serialize t

/-- the transaction id (internal byte order): `tx.SetHash` hashes the witness-less serialisation -/
def txid (H : Addr.Hashes) (t : Tx) : Bytes := H.sha2sum (serialize t)

/-- everything of a transaction that signing must not touch -/
structure Skeleton where
  version : Nat
  outpoints : List (Bytes × Nat × Nat)   -- txid, vout, sequence
  outs : List TxOut
  lockTime : Nat
  deriving Repr, DecidableEq

def skeleton (t : Tx) : Skeleton :=
  { version := t.version, outpoints := t.ins.map (fun i => (i.txid, i.vout, i.sequence)),
    outs := t.outs, lockTime := t.lockTime }

/-! ## the balance folder and the request -/

/-- one line of balance/unspent.txt resolved through balance/<txid>.tx -/
structure Coin where
  txid : Bytes
  vout : Nat
  value : Nat
  script : Bytes
  deriving Repr, DecidableEq

structure Dest where
  addr : Addr.Addr
  amount : Nat
  deriving Repr, DecidableEq

structure Cfg where
  testnet : Bool
  bech32 : Bool            -- bech32_mode (atype bech32 / tap)
  fee : Nat                -- curFee
  subfee : Bool            -- -f
  useAll : Bool            -- -useallinputs
  seq : Nat                -- uint32(*sequence)
  lockTime : Nat           -- uint32(*lock_time)
  version : Nat            -- uint32(*tx_version)
  change : Option Bytes    -- -change (none = "")
  msg : Bytes              -- -msg ("" = none)
  deriving Repr

def verPubkey (testnet : Bool) : UInt8 := if testnet then 111 else 0
def verScript (testnet : Bool) : UInt8 := if testnet then 196 else 5
def segHrp (testnet : Bool) : Bytes := if testnet then strBytes "tb" else strBytes "bc"

/-- NewAddrFromString + assert_address_version (any failure is cleanExit(1)) -/
def checkAddr (H : Addr.Hashes) (testnet : Bool) (s : Bytes) : Except Fail Addr.Addr :=
  match Addr.fromString H s with
  | .error _ => .error .exit1
  | .ok (.segwit hrp v p) => if hrp = segHrp testnet then .ok (.segwit hrp v p) else .error .exit1
  | .ok (.b58 ver h e) =>
    if ver = verPubkey testnet ∨ ver = verScript testnet then .ok (.b58 ver h e) else .error .exit1

/-- `strings.Trim(s, " ")` -/
def trimSp (s : Bytes) : Bytes := ((s.dropWhile (· == 32)).reverse.dropWhile (· == 32)).reverse

/-- state of parse_spend / parse_batch: (sendTo, spendBtc) -/
abbrev Req := List Dest × Nat

/-- one element of the -send list (index `i` decides whether -f applies) -/
def parseSendItem (H : Addr.Hashes) (c : Cfg) (i : Nat) (item : Bytes) (st : Req) : Except Fail Req :=
  match splitOn 61 (trimSp item) with
  | [a, v] =>
    match checkAddr H c.testnet a with
    | .error e => .error e
    | .ok ad =>
      match stringToSatoshis v with
      | .ok am =>
        if c.subfee ∧ i = 0 ∧ am < c.fee then .error .exit1     -- refused since fix 4c0ef9d0 (was: am -= curFee wrapping)
        else
          let am := if c.subfee ∧ i = 0 then am - c.fee else am
          .ok (st.1 ++ [{ addr := ad, amount := am }], u64 (st.2 + am))
      | _ => .error .exit1
  | _ => .error .exit1

def parseSendItems (H : Addr.Hashes) (c : Cfg) : Nat → List Bytes → Req → Except Fail Req
  | _, [], st => .ok st
  | i, it :: its, st =>
    match parseSendItem H c i it st with
    | .error e => .error e
    | .ok st' => parseSendItems H c (i + 1) its st'

/-- parse_spend -/
def parseSpend (H : Addr.Hashes) (c : Cfg) (send : Bytes) (st : Req) : Except Fail Req :=
  parseSendItems H c 0 (splitOn 44 send) st

/-- `strings.SplitN(s, "=", 2)` -/
def splitN2 (s : Bytes) : List Bytes :=
  let a := s.takeWhile (· != 61)
  if a.length = s.length then [s] else [a, s.drop (a.length + 1)]

/-- one line of the -batch file (lines as delivered by bufio ReadLine) -/
def parseBatchLine (H : Addr.Hashes) (c : Cfg) (line : Bytes) (st : Req) : Except Fail Req :=
  match splitN2 (trimSp line) with
  | [a, v] =>
    match a with
    | [] => .error .panic                       -- tmp[0][0] on an empty string
    | a0 :: _ =>
      if a0 = 35 then .ok st                    -- '#': comment (only reached when the line has '=')
      else
        match checkAddr H c.testnet a with
        | .error e => .error e
        | .ok ad =>
          match stringToSatoshis v with
          | .ok am => .ok (st.1 ++ [{ addr := ad, amount := am }], u64 (st.2 + am))
          | _ => .error .exit1
  | _ => .error .exit1

def parseBatch (H : Addr.Hashes) (c : Cfg) : List Bytes → Req → Except Fail Req
  | [], st => .ok st
  | l :: ls, st =>
    match parseBatchLine H c l st with
    | .error e => .error e
    | .ok st' => parseBatch H c ls st'

/-- send_request: -send first, then -batch -/
def sendRequest (H : Addr.Hashes) (c : Cfg) (send : Option Bytes) (batch : Option (List Bytes)) :
    Except Fail Req :=
  match (match send with | some s => parseSpend H c s ([], 0) | none => .ok ([], 0)) with
  | .error e => .error e
  | .ok st =>
    match batch with
    | some ls => parseBatch H c ls st
    | none => .ok st

/-! ## make_signed_tx : input selection, outputs, change, message -/

structure Sel where
  picked : List Coin      -- inputs, in order
  rest : List Coin        -- lines of unspent.txt that stay (not marked spent), in order
  total : Nat             -- btcsofar
  deriving Repr, DecidableEq

/-- the selection loop over unspentOuts (file order) -/
def select (ks : List KeyRec) (useAll : Bool) (need : Nat) : List Coin → Nat → Sel
  | [], sofar => { picked := [], rest := [], total := sofar }
  | c :: cs, sofar =>
    match pkscrToKey ks c.script with
    | none =>
      let r := select ks useAll need cs sofar
      { r with rest := c :: r.rest }
    | some _ =>
      let sofar' := u64 (sofar + c.value)
      if !useAll && decide (sofar' ≥ need) then { picked := [c], rest := cs, total := sofar' }
      else
        let r := select ks useAll need cs sofar'
        { r with picked := c :: r.picked }

/-- `btc.WritePutLen` (`<` OP_PUSHDATA1 since the fix: 76 bytes are pushed with OP_PUSHDATA1; before it the source had
    `<=` and a 76-byte `-msg` gave the malformed script `6a 4c <76 bytes>`) -/
def writePutLen (n : Nat) : Bytes :=
  if n < 0x4c then [UInt8.ofNat n]
  else if n < 0x100 then [0x4c, UInt8.ofNat n]
  else if n < 0x10000 then 0x4d :: leBytes 2 n
  else 0x4e :: leBytes 4 n

def msgScript (msg : Bytes) : Bytes := 0x6a :: (writePutLen (u32 msg.length) ++ msg)

def outOf (a : Addr.Addr) (amount : Nat) : Except Fail TxOut :=
  match Addr.outScript a with
  | some s => .ok { value := amount, script := s }
  | none => .error .panic

def destOuts : List Dest → Except Fail (List TxOut)
  | [] => .ok []
  | d :: ds =>
    match outOf d.addr d.amount with
    | .error e => .error e
    | .ok o =>
      match destOuts ds with
      | .error e => .error e
      | .ok os => .ok (o :: os)

/-- get_change_addr -/
def changeAddr (H : Addr.Hashes) (c : Cfg) (ks : List KeyRec) (coins : List Coin) : Except Fail Addr.Addr :=
  match c.change with
  | some s => checkAddr H c.testnet s
  | none =>
    match coins.find? (fun u => (pkscrToKey ks u.script).isSome) with
    | none => .error .exit1
    | some u =>
      match Addr.fromPkScript H u.script c.testnet with
      | none => .error .exit1          -- chad == nil: "cannot determine change address"
      | some a => .ok a

structure Built where
  tx : Tx                 -- unsigned
  spent : List Coin       -- tx.Spent_outputs (same order as tx.ins)
  rest : List Coin
  change : Nat
  deriving Repr

/-- make_signed_tx up to (not including) sign_tx -/
def build (H : Addr.Hashes) (c : Cfg) (ks : List KeyRec) (coins : List Coin) (req : Req) : Except Fail Built :=
  let need := u64 (req.2 + c.fee)
  let s := select ks c.useAll need coins 0
  if s.total < need then .error .exit1
  else
    let change := s.total - need
    match destOuts req.1 with
    | .error e => .error e
    | .ok outs =>
      match (if change > 0 then
               match changeAddr H c ks coins with
               | .error e => Except.error e
               | .ok a => match outOf a change with
                 | .error e => .error e
                 | .ok o => .ok [o]
             else .ok []) with
      | .error e => .error e
      | .ok chg =>
        let m : List TxOut := if c.msg.isEmpty then [] else [{ value := 0, script := msgScript c.msg }]
        .ok { tx := { version := c.version,
                      ins := s.picked.map (fun u => { txid := u.txid, vout := u.vout, scriptSig := [], sequence := c.seq }),
                      outs := outs ++ chg ++ m, wit := none, lockTime := c.lockTime },
              spent := s.picked, rest := s.rest, change := change }

/-! ## sign_tx -/

/-- which digest is signed with which key -/
inductive SigReq
  | legacy (key : Nat) (scriptCode : Bytes)                    -- Tx.Sign: SignatureHash(scriptCode, in, ALL)
  | witv0 (key : Nat) (scriptCode : Bytes) (amount : Nat)      -- Tx.SignWitness: WitnessSigHash(scriptCode, amount, in, ALL)
  | taproot (key : Nat)                                        -- TaprootSigHash(in, SIGHASH_DEFAULT) + SchnorrSign
  deriving Repr, DecidableEq

structure InSign where
  scriptSig : Option Bytes       -- new scriptSig (none = untouched)
  witness : Option (List Bytes)  -- new witness stack (none = untouched)
  signed : Bool
  deriving Repr, DecidableEq

def InSign.skip : InSign := { scriptSig := none, witness := none, signed := false }

def p2pkhScript (h : Bytes) : Bytes := [0x76, 0xa9, 20] ++ h ++ [0x88, 0xac]

/-- `buscr.WriteByte(byte(len)); buscr.Write(data)` -/
def push1 (b : Bytes) : Bytes := UInt8.ofNat b.length :: b

abbrev SigFn := Nat → SigReq → Bytes

/-- the non-multisig branch of the loop body of sign_tx for input `i` spending `uo` -/
def signInput (H : Addr.Hashes) (c : Cfg) (ks : List KeyRec) (sig : SigFn) (i : Nat) (uo : Option TxOut) : InSign :=
  match uo with
  | none => .skip
  | some uo =>
    match Addr.fromPkScript H uo.script c.testnet with
    | none => .skip
    | some adr =>
      match Addr.isWitnessProgram uo.script with
      | some (ver, prog) =>
        if prog.length = 20 ∧ ver = 0 then
          match pubHashToKeyIdx ks prog with
          | none => .skip
          | some k =>
            let kr := ks.getD k ⟨[], [], []⟩
            { scriptSig := none,
              witness := some [sig i (.witv0 k (p2pkhScript kr.h160) uo.value) ++ [1], kr.pub],
              signed := true }
        else if prog.length = 32 ∧ ver = 1 then
          match xoToKeyIdx ks prog with          -- no fall-back any more (before the fix: hash_to_key_idx of the
          | none => .skip                        --  all-zero Hash160 of the segwit address, key 0 in bech32 mode)
          | some k =>
            let s := sig i (.taproot k)
            if s.length = 64 then { scriptSig := none, witness := some [s], signed := true }
            else { scriptSig := none, witness := none, signed := false }
        else .skip
      | none =>
        match adr with
        | .segwit _ _ _ => .skip     -- unreachable: a segwit address comes from a witness program
        | .b58 ver h _ =>
          -- `adr.Version == ver_script()` ⇒ scripthash_to_key_idx, else (P2KH; P2PK) pubhash_to_key_idx
          match (if ver = verScript c.testnet then scriptHashToKeyIdx ks h else pubHashToKeyIdx ks h) with
          | none => .skip
          | some k =>
            let kr := ks.getD k ⟨[], [], []⟩
            if !c.bech32 ∧ ver = verScript c.testnet ∧ h = kr.segH160 then
              { scriptSig := some ([22, 0, 20] ++ kr.h160),
                witness := some [sig i (.witv0 k (p2pkhScript kr.h160) uo.value) ++ [1], kr.pub],
                signed := true }
            else
              { scriptSig := some (push1 (sig i (.legacy k uo.script) ++ [1]) ++ push1 kr.pub),
                witness := none, signed := true }

/-- result of the multisig branch for one input, supplied from outside (not modelled): new scriptSig, ok -/
abbrev MsFn := Nat → Option (Bytes × Bool)

def signOne (H : Addr.Hashes) (c : Cfg) (ks : List KeyRec) (sig : SigFn) (ms : MsFn) (i : Nat)
    (uo : Option TxOut) : InSign :=
  match ms i with
  | some (ss, ok) => { scriptSig := some ss, witness := none, signed := ok }
  | none => signInput H c ks sig i uo

def signIns (H : Addr.Hashes) (c : Cfg) (ks : List KeyRec) (sig : SigFn) (ms : MsFn) :
    Nat → List TxIn → List (Option TxOut) → List InSign
  | _, [], _ => []
  | i, _ :: ins, sp => signOne H c ks sig ms i (sp.headD none) :: signIns H c ks sig ms (i + 1) ins sp.tail

def applyIns : List TxIn → List InSign → List TxIn
  | [], _ => []
  | i :: is, [] => i :: is
  | i :: is, r :: rs => { i with scriptSig := r.scriptSig.getD i.scriptSig } :: applyIns is rs

def applyWit : List InSign → List (List Bytes) → List (List Bytes)
  | [], _ => []
  | r :: rs, old => r.witness.getD (old.headD []) :: applyWit rs old.tail

/-- sign_tx: the signed transaction and `all_signed` -/
def signTx (H : Addr.Hashes) (c : Cfg) (ks : List KeyRec) (sig : Skeleton → SigFn) (ms : MsFn)
    (t : Tx) (spent : List (Option TxOut)) : Tx × Bool :=
  let rs := signIns H c ks (sig (skeleton t)) ms 0 t.ins spent
  let wit : Option (List (List Bytes)) :=
    if t.wit.isSome || rs.any (·.witness.isSome) then some (applyWit rs (t.wit.getD [])) else none
  ({ t with ins := applyIns t.ins rs, wit := wit }, rs.all (·.signed))

/-! ## the whole -send / -batch run and the -raw run -/

structure Written where
  tx : Tx                  -- signed
  file : Bytes             -- raw bytes whose hex is written to <txid[:8]>.txt / -txfn
  txid : Bytes
  applied : Bool           -- apply_to_balance ran (apply2bal && signed)
  unspentAfter : List (Bytes × Nat)   -- (txid, vout) lines of balance/unspent.txt afterwards (if applied)
  change : Nat
  deriving Repr

def newOwn (ks : List KeyRec) (id : Bytes) : Nat → List TxOut → List (Bytes × Nat)
  | _, [] => []
  | n, o :: os =>
    if (pkscrToKey ks o.script).isSome then (id, n) :: newOwn ks id (n + 1) os else newOwn ks id (n + 1) os

/-- send_request + make_signed_tx. `none` = no send requested (balance is shown, nothing written). -/
def runSend (H : Addr.Hashes) (c : Cfg) (ks : List KeyRec) (apply2bal : Bool) (coins : List Coin)
    (send : Option Bytes) (batch : Option (List Bytes)) (sig : Skeleton → SigFn) : Except Fail (Option Written) :=
  match sendRequest H c send batch with
  | .error e => .error e
  | .ok req =>
    if req.1.isEmpty then .ok none
    else
      match build H c ks coins req with
      | .error e => .error e
      | .ok b =>
        let (t, ok) := signTx H c ks sig (fun _ => none) b.tx (b.spent.map (fun u => some { value := u.value, script := u.script }))
        let id := txid H t
        let applied := apply2bal && ok
        .ok (some { tx := t, file := fileBytes t, txid := id, applied := applied,
                    unspentAfter := if applied then b.rest.map (fun u => (u.txid, u.vout)) ++ newOwn ks id 0 t.outs else [],
                    change := b.change })

/-- process_raw_tx after the spent outputs were fetched from the balance folder -/
def runRaw (H : Addr.Hashes) (c : Cfg) (ks : List KeyRec) (t : Tx) (spent : List (Option TxOut))
    (sig : Skeleton → SigFn) (ms : MsFn) : Tx × Bool :=
  signTx H c ks sig ms t spent

end GocoinV.WalletTx
