/-
  Model.AllocNode — the allocator AS WIRED INTO THE NODE (client/common/config.go, anchor of C20):

      InitConfig:  if CFG.Memory.UseGoHeap { … } else {
                       Memory = memory.NewAllocator()
                       utxo.Memory_Malloc = Memory.Malloc
                       utxo.Memory_Free   = Memory.Free }
                   …
                   Reset()
      Reset():     applies the run-time settings (called again by TextUI configset / configload and by the
                   WebUI config page after every change of CFG)

  "The allocator's count of live allocations" is, for a running node, the counter of `common.Memory` — the
  allocator the node reports on (MemUsed, UpdateMemoryLimit) and defragments (DefragUTXOMem).  Whether that
  counter equals the number of records actually live is decided by a small configuration state machine: three
  package-level variables (the reported allocator, the Malloc binding, the Free binding) and the functions that
  write them.  WHICH functions write them, and from where these are reachable, is regenerated from the source on
  every run (go/cmd/gen_c20/wire.go → Gen.MemWire); the transitions below consult those facts, so the model
  follows the source: when Reset() (or any other run-time path) reaches a writer of the wiring variables, the
  model's `reset` re-wires too, and `Props.C20.node_wiring_stable` no longer compiles.

  One allocator is abstracted to its `Allocs` counter: Malloc adds one, Free subtracts one — Free does so for ANY
  slot it is handed, also one of another allocator's pages (the page header is self-describing; uintptrFreeShared
  only reads the header of the page the pointer lies in).  Inside one allocator `Props.C20.counters_exact` /
  `allocs_eq_live` prove Allocs = number live; this file lifts that to the node.
-/
import GocoinV.Gen.MemWire
namespace GocoinV.AllocNode

/-- The source facts the transitions depend on (regenerated: `srcFacts`). -/
structure Facts where
  /-- a writer of the wiring variables is reachable from `common.Reset` -/
  resetRewires : Bool
  /-- a writer is reachable at run time by some path that avoids `common.InitConfig` -/
  runtimeRewires : Bool
  /-- `common.InitConfig` runs at most once -/
  initOnce : Bool
  /-- Malloc and Free are bound to the allocator stored in `common.Memory`, all three in one block -/
  paired : Bool
  deriving Repr, DecidableEq

def srcFacts : Facts :=
  { resetRewires := Gen.MemWire.wireResetRewires, runtimeRewires := Gen.MemWire.wireRuntimeRewires,
    initOnce := Gen.MemWire.wireInitOnce, paired := Gen.MemWire.wirePaired }

/-- what `utxo.Memory_Malloc` / `utxo.Memory_Free` are bound to -/
inductive Target where
  | goHeap                 -- the default closures of lib/utxo (make / no-op)
  | arena (id : Nat)       -- methods of the id-th allocator created by this process
  deriving Repr, DecidableEq, BEq

structure Node where
  /-- `Allocs` of every allocator created so far (index = creation order) -/
  arenas : List Int := []
  /-- `common.Memory` -/
  reporting : Option Nat := none
  mallocTo : Target := .goHeap
  freeTo : Target := .goHeap
  /-- records handed out and not yet freed: (record id, who allocated it) -/
  live : List (Nat × Target) := []
  nextRec : Nat := 0
  /-- InitConfig has run -/
  started : Bool := false
  deriving Repr

def Node.empty : Node := {}

/-- the wiring block: what its three assignments do (with `UseGoHeap` set it only prints a warning) -/
def rewire (f : Facts) (useGoHeap : Bool) (s : Node) : Node :=
  if useGoHeap then s else
  let id := s.arenas.length
  { s with arenas := s.arenas ++ [0], reporting := some id, mallocTo := .arena id,
           freeTo := if f.paired then .arena id else s.freeTo }

inductive Op where
  | initConfig (useGoHeap : Bool)
  /-- `common.Reset()` after a run-time change of CFG; `useGoHeap` = CFG.Memory.UseGoHeap at that moment -/
  | reset (useGoHeap : Bool)
  /-- any other run-time entry point of the client (a command, a handler, a tick) -/
  | other (useGoHeap : Bool)
  | malloc
  | free (rec : Nat)
  /-- `common.DefragUTXOMem()`: relocates records of the reporting allocator, no counter changes -/
  | defrag
  deriving Repr

def bump (l : List Int) (id : Nat) (d : Int) : List Int := l.set id (l.getD id 0 + d)

def step (f : Facts) (s : Node) : Op → Node
  | .initConfig g =>
    if s.started && f.initOnce then s else { rewire f g s with started := true }
  | .reset g => if f.resetRewires then rewire f g s else s
  | .other g => if f.runtimeRewires then rewire f g s else s
  | .malloc =>
    let s' := { s with live := (s.nextRec, s.mallocTo) :: s.live, nextRec := s.nextRec + 1 }
    match s.mallocTo with
    | .goHeap => s'
    | .arena id => { s' with arenas := bump s.arenas id 1 }
  | .free r =>
    if s.live.any (·.1 == r) then
      let s' := { s with live := s.live.filter (·.1 != r) }
      match s.freeTo with
      | .goHeap => s'
      | .arena id => { s' with arenas := bump s.arenas id (-1) }
    else s
  | .defrag => s

def run (f : Facts) (s : Node) (ops : List Op) : Node := ops.foldl (step f) s

/-- `common.Memory.Allocs` (none: the Go heap is in use, there is no allocator to report on) -/
def reportedAllocs (s : Node) : Option Int := s.reporting.map (fun id => s.arenas.getD id 0)

/-- a run-time op: everything except start-up -/
def Op.runtime : Op → Bool
  | .initConfig _ => false
  | _ => true

end GocoinV.AllocNode
