/-
  Model.ScriptVerify — lib/script/witness.go (ExecuteWitnessScript, VerifyWitnessProgram,
  VerifyTaprootCommitment) and lib/script/script.go:VerifyTxScript.

  Every function returns `Res Unit`: `.ok ()` = the Go function returned true, `.fail` = returned false,
  `.panic` = a Go panic escapes (there is NO recover at this level).
-/
import GocoinV.Model.ScriptEval
namespace GocoinV.Script

inductive ScanRes where
  | decodeError | opSuccess | clean
  deriving DecidableEq, Repr

/-- the OP_SUCCESSx pre-scan of `ExecuteWitnessScript` -/
def opSuccessScan : Nat → Bytes → ScanRes
  | 0, scr => if scr.isEmpty then .clean else .decodeError   -- out of fuel: not reachable (fuel = len(script))
  | f+1, scr =>
    if scr.isEmpty then .clean else
    match getOpcode scr with
    | none => .decodeError
    | some op => if isOpSuccess op.opcode then .opSuccess else opSuccessScan f (scr.drop op.n)

/-- `SigChecker.ExecuteWitnessScript(stack, scriptPubKey, flags, sigversion, execdata)` -/
def executeWitnessScript (O : Oracles) (tx : TxCtx) (stack : Stack) (script : Bytes) (flags : Nat)
    (sv : SigVersion) (ed : ExecData) : Res Unit :=
  let pre : Option (Res Unit) :=
    if sv == .tapscript then
      match opSuccessScan script.length script with
      | .decodeError => some .fail
      | .opSuccess => if has flags VER_DIS_SUCCESS then some .fail else some (.ok ())
      | .clean => if stack.length > MAX_STACK_SIZE then some .fail else none
    else none
  match pre with
  | some r => r
  | none =>
    if stack.any (fun d => d.length > MAX_SCRIPT_ELEMENT_SIZE) then .fail
    else do
      let s ← evalScript O tx flags script stack sv ed
      match s with
      | [x] => if bts2bool x then pure () else .fail
      | _ => .fail

/-- `VerifyTaprootCommitment(control, program, script, &tapleaf_hash)`: (result, tapleaf hash).
    Caller guarantees `33 ≤ len(control)` and `(len(control)-33) % 32 = 0`. -/
def merklePath (O : Oracles) (control : Bytes) : Nat → Nat → Bytes → Bytes
  | 0, _, k => k
  | n+1, i, k =>
    let node := (control.drop (TAPROOT_CONTROL_BASE_SIZE + TAPROOT_CONTROL_NODE_SIZE * i)).take TAPROOT_CONTROL_NODE_SIZE
    let k' := if lexLt k node then taggedHash O "TapBranch" (k ++ node) else taggedHash O "TapBranch" (node ++ k)
    merklePath O control n (i + 1) k'

def verifyTaprootCommitment (O : Oracles) (control program script : Bytes) : Res (Bool × Bytes) :=
  let pathLen := (control.length - TAPROOT_CONTROL_BASE_SIZE) / TAPROOT_CONTROL_NODE_SIZE
  let p := (control.drop 1).take (TAPROOT_CONTROL_BASE_SIZE - 1)
  let q := program
  let tapleaf := taggedHash O "TapLeaf" ([at' control 0 &&& TAPROOT_LEAF_MASK] ++ writeVlen script.length ++ script)
  let k := merklePath O control pathLen 0 tapleaf
  let k := taggedHash O "TapTweak" (p ++ k)
  let parity := (at' control 0 &&& 1) != 0
  do
    let r ← Res.ask (.tweak q p k parity) (O.tweakCheck q p k parity)
    pure (r, tapleaf)

/-- `SigChecker.VerifyWitnessProgram(witness, witversion, program, flags, is_p2sh)`;
    `witness` in push order (last = top). -/
def verifyWitnessProgram (O : Oracles) (tx : TxCtx) (witness : List Bytes) (witversion : Nat) (program : Bytes)
    (flags : Nat) (isP2sh : Bool) : Res Unit :=
  let wstack : Stack := witness.reverse
  if witversion == 0 then
    if program.length == 32 then
      match wstack with
      | [] => .fail
      | scriptPubKey :: stack =>
        if program != O.sha256 scriptPubKey then .fail
        else executeWitnessScript O tx stack scriptPubKey flags .witnessV0 {}
    else if program.length == 20 then
      if wstack.length != 2 then .fail
      else
        let scriptPubKey : Bytes := [0x76, 0xa9, 0x14] ++ program ++ [0x88, 0xac]
        executeWitnessScript O tx wstack scriptPubKey flags .witnessV0 {}
    else .fail
  else if witversion == 1 && program.length == 32 && !isP2sh then
    if !has flags VER_TAPROOT then .ok ()
    else if wstack.length == 0 then .fail
    else
      -- optional annex
      let (stack, annexHash) : Stack × Option Bytes :=
        match wstack with
        | dat :: rest =>
          if wstack.length ≥ 2 && dat.length > 0 && at' dat 0 == ANNEX_TAG then
            (rest, some (O.sha256 (writeVlen dat.length ++ dat)))
          else (wstack, none)
        | [] => (wstack, none)
      let ed : ExecData := { annexHash := annexHash }
      match stack with
      | [] => .panic  -- not reachable: the annex is only dropped when two elements are present
      | [sig] => do
        -- key path
        let r ← checkSchnorrSignature O sig program .taproot ed
        if r then pure () else .fail
      | control :: scriptBytes :: stack' =>
        if control.length < TAPROOT_CONTROL_BASE_SIZE || control.length > TAPROOT_CONTROL_MAX_SIZE ||
           (control.length - TAPROOT_CONTROL_BASE_SIZE) % TAPROOT_CONTROL_NODE_SIZE != 0 then .fail
        else do
          let (okc, tapleaf) ← verifyTaprootCommitment O control program scriptBytes
          if !okc then .fail
          else if (at' control 0 &&& TAPROOT_LEAF_MASK) == TAPROOT_LEAF_TAPSCRIPT then
            let ed : ExecData := { ed with tapleafHash := tapleaf,
                                           weightLeft := (serializeSize witness + VALIDATION_WEIGHT_OFFSET : Nat) }
            executeWitnessScript O tx stack' scriptBytes flags .tapscript ed
          else if has flags VER_DIS_TAPVER then .fail
          else pure ()
  else if has flags VER_WITNESS_PROG then .fail
  else .ok ()

/-- `stack.resize(1)`: Go keeps `data[:1]`, the BOTTOM element -/
def resize1 (s : Stack) : Res Stack :=
  match s.getLast? with
  | some b => .ok [b]
  | none => .panic

/-- `script.VerifyTxScript(pkScr, &SigChecker{Tx, Idx, Amount}, ver_flags)` (HookVerifyTxScript == nil) -/
def verifyTxScript (O : Oracles) (tx : TxCtx) (pkScr : Bytes) (flags : Nat) : Res Unit :=
  let sigScr := tx.sigScript
  if has flags VER_SIGPUSHONLY && !isPushOnly sigScr then .fail
  else do
    let stack ← evalScript O tx flags sigScr [] .base {}
    let stackCopy : Stack := if has flags VER_P2SH && stack.length > 0 then stack else []
    let stack ← evalScript O tx flags pkScr stack .base {}
    match stack with
    | [] => .fail
    | t :: _ =>
      if !bts2bool t then .fail else
      let witness : List Bytes := if has flags VER_WITNESS then tx.witness else []
      -- bare witness program
      let (hadWitness, stack) ← (
        if has flags VER_WITNESS then
          match isWitnessProgram pkScr with
          | some (ver, prog) =>
            if sigScr.length != 0 then .fail
            else do
              verifyWitnessProgram O tx witness ver prog flags false
              let s ← resize1 stack
              pure (true, s)
          | none => pure (false, stack)
        else pure (false, stack) : Res (Bool × Stack))
      -- P2SH
      let (hadWitness, stack) ← (
        if has flags VER_P2SH && isPayToScript pkScr then
          if !isPushOnly sigScr then .fail
          else do
            let (pubKey2, stack) ← pop stackCopy
            let stack ← evalScript O tx flags pubKey2 stack .base {}
            match stack with
            | [] => .fail
            | t :: _ =>
              if !bts2bool t then .fail
              else if has flags VER_WITNESS then
                match isWitnessProgram pubKey2 with
                | some (ver, prog) =>
                  if sigScr != writePutLen pubKey2.length ++ pubKey2 then .fail
                  else do
                    verifyWitnessProgram O tx witness ver prog flags true
                    let s ← resize1 stack
                    pure (true, s)
                | none => pure (hadWitness, stack)
              else pure (hadWitness, stack)
        else pure (hadWitness, stack) : Res (Bool × Stack))
      if has flags VER_CLEANSTACK && !has flags VER_P2SH then .panic
      else if has flags VER_CLEANSTACK && stack.length != 1 then .fail
      else if has flags VER_WITNESS && !has flags VER_P2SH then .panic
      else if has flags VER_WITNESS && !hadWitness && witness.length != 0 then .fail
      else pure ()

end GocoinV.Script
