/-
  Model.ScriptEval — statement-level mirror of lib/script/script.go:evalScript and lib/script/checker.go.

  Shape of the Go function                          model
  ------------------------------------------------  ----------------------------------------------------
  size check (10000 for base / witness v0)          `evalScript`
  defer recover()  (panic ⇒ the unnamed bool result
    keeps its zero value `false`)                   `recoverPanic` — the ONLY place `.panic` becomes `.fail`
  for ; idx < len(p); opcode_pos++ { … }            `evalLoop` (fuel = len(p); GetOpcode consumes ≥ 1 byte)
  body up to the big switch (push size, op count,
    disabled opcodes, CONST_SCRIPTCODE, pushes,
    final 1000-element check)                       `stepAt`
  the big `switch`                                  `execOp`
  OP_CHECKMULTISIG                                  `checkMultisig` (+ `msDelSigs`, `msVerifyLoop`, `msCleanup`)
  evalChecksig / …PreTapscript / …Tapscript         `evalChecksig*`
  verifyECDSA, CheckSchnorrSignature                `verifyECDSA`, `checkSchnorrSignature`

  Stack ops that the Go code writes as `if stack.size() < k { return false }` followed by k pops and some
  pushes are written as one pattern match on the list (HEAD = TOP).
-/
import GocoinV.Model.ScriptBase
namespace GocoinV.Script

/-- `btc.ScriptExecutionData` (the fields that are read) -/
structure ExecData where
  tapleafHash : Bytes := []
  annexHash : Option Bytes := none
  weightLeft : Int := 0
  codesepPos : Nat := 0
  deriving Repr, DecidableEq

/-- what is fixed during one `evalScript` call -/
structure Ctx where
  O : Oracles
  tx : TxCtx
  flags : Nat
  sv : SigVersion
  p : Bytes

/-- the variables of the interpreter loop -/
structure St where
  stack : Stack
  alt : Stack := []
  /-- `exestack`: only ever holds `pushBool` values, so a list of Booleans (head = top) -/
  exe : List Bool := []
  /-- `pbegincodehash` -/
  pbegin : Nat := 0
  opcnt : Nat := 0
  ed : ExecData := {}
  deriving Repr, DecidableEq

/-- `btc.EcdsaVerify` -/
def btcEcdsaVerify (O : Oracles) (pk sig hash : Bytes) : Res Bool :=
  if pk.length == 0 || sig.length == 0 then .ok false
  else Res.ask (.ecdsa pk sig hash) (O.ecdsaVerify pk sig hash)

/-- the signature hash `verifyECDSA` / `evalChecksigPreTapscript` ask for -/
def sigHashFor (O : Oracles) (sv : SigVersion) (scriptCode : Bytes) (ht : Nat) : Res Bytes :=
  if sv == .witnessV0 then Res.ask (.sigW scriptCode ht) (O.sigHashWitV0 scriptCode ht)
  else Res.ask (.sigL scriptCode ht) (O.sigHashLegacy scriptCode ht)

/-- `SigChecker.verifyECDSA(data, sig, pubkey, sigversion)` -/
def verifyECDSA (O : Oracles) (data sig pubkey : Bytes) (sv : SigVersion) : Res Bool :=
  match sig.getLast? with
  | none => .ok false
  | some l => do
    let sh ← sigHashFor O sv data l.toNat
    btcEcdsaVerify O pubkey sig sh

/-- `SigChecker.CheckSchnorrSignature(sig, pubkey, sigversion, execdata)` -/
def checkSchnorrSignature (O : Oracles) (sig pubkey : Bytes) (sv : SigVersion) (ed : ExecData) : Res Bool :=
  if sig.length != 64 && sig.length != 65 then .ok false
  else if sig.length == 65 && at' sig 64 == 0 then .ok false
  else do
    let hashtype : Nat := if sig.length == 65 then (at' sig 64).toNat else 0
    let sig64 := sig.take 64
    let script := sv == .tapscript
    let sh ← Res.ask (.sigT ed.annexHash ed.tapleafHash ed.codesepPos hashtype script)
                (O.sigHashTap ed.annexHash ed.tapleafHash ed.codesepPos hashtype script)
    -- `if sh == nil { return false }`: TaprootSigHash returns nil where BIP341 defines no digest
    -- (the oracle's answer for "nil" is the empty byte string)
    if sh.length == 0 then pure false
    else Res.ask (.schnorr pubkey sig64 sh) (O.schnorrVerify pubkey sig64 sh)

/-- result of `evalChecksig`: the two named results and the (possibly decremented) execdata -/
structure CsRes where
  ok : Bool
  success : Bool
  ed : ExecData

/-- `evalChecksigTapscript` -/
def evalChecksigTapscript (O : Oracles) (sig pubkey : Bytes) (ed : ExecData) (flags : Nat) (sv : SigVersion) :
    Res CsRes :=
  let success := sig.length > 0
  let ed' : ExecData := if success then { ed with weightLeft := ed.weightLeft - VALIDATION_WEIGHT_PER_SIGOP_PASSED } else ed
  if success && ed'.weightLeft < 0 then .ok ⟨false, success, ed'⟩
  else if pubkey.length == 0 then .ok ⟨false, success, ed'⟩
  else if pubkey.length == 32 then
    if success then do
      let r ← checkSchnorrSignature O sig pubkey sv ed'
      if !r then pure ⟨false, success, ed'⟩ else pure ⟨true, success, ed'⟩
    else .ok ⟨true, success, ed'⟩
  else if has flags VER_DIS_PUBKEYTYPE then .ok ⟨false, success, ed'⟩
  else .ok ⟨true, success, ed'⟩

/-- `evalChecksigPreTapscript` -/
def evalChecksigPreTapscript (O : Oracles) (vchSig vchPubKey p : Bytes) (pbegin : Nat) (flags : Nat)
    (sv : SigVersion) (ed : ExecData) : Res CsRes :=
  let scriptCode0 := p.drop pbegin
  let (scriptCode, found) := if sv == .base then delSig scriptCode0 vchSig else (scriptCode0, 0)
  if sv == .base && found > 0 && has flags VER_CONST_SCRIPTCODE then .ok ⟨false, false, ed⟩
  else if !checkSignatureEncoding vchSig flags || !checkPubKeyEncoding vchPubKey flags sv then .ok ⟨false, false, ed⟩
  else do
    let fSuccess ← (match vchSig.getLast? with
      | none => pure false
      | some l => do
        let sh ← sigHashFor O sv scriptCode l.toNat
        btcEcdsaVerify O vchPubKey vchSig sh : Res Bool)
    if !fSuccess && has flags VER_NULLFAIL && vchSig.length > 0 then pure ⟨false, fSuccess, ed⟩
    else pure ⟨true, fSuccess, ed⟩

/-- `SigChecker.evalChecksig` (`panic("should not get here")` for SIGVERSION_TAPROOT) -/
def evalChecksig (c : Ctx) (vchSig vchPubKey : Bytes) (pbegin : Nat) (ed : ExecData) : Res CsRes :=
  match c.sv with
  | .base | .witnessV0 => evalChecksigPreTapscript c.O vchSig vchPubKey c.p pbegin c.flags c.sv ed
  | .tapscript => evalChecksigTapscript c.O vchSig vchPubKey ed c.flags c.sv
  | .taproot => .panic

def b2i (b : Bool) : Int := if b then 1 else 0

/-- the inner `switch opcode` of the two-operand arithmetic group (0x93 … 0xa4) -/
def binArith (opcode : Nat) (bn1 bn2 : Int) : Res Int :=
  if opcode == 0x93 then .ok (bn1 + bn2)
  else if opcode == 0x94 then .ok (bn1 - bn2)
  else if opcode == 0x9a then .ok (b2i (bn1 != 0 && bn2 != 0))
  else if opcode == 0x9b then .ok (b2i (bn1 != 0 || bn2 != 0))
  else if opcode == 0x9c then .ok (b2i (bn1 == bn2))
  else if opcode == 0x9d then .ok (b2i (bn1 == bn2))
  else if opcode == 0x9e then .ok (b2i (bn1 != bn2))
  else if opcode == 0x9f then .ok (b2i (bn1 < bn2))
  else if opcode == 0xa0 then .ok (b2i (bn1 > bn2))
  else if opcode == 0xa1 then .ok (b2i (bn1 ≤ bn2))
  else if opcode == 0xa2 then .ok (b2i (bn1 ≥ bn2))
  else if opcode == 0xa3 then .ok (if bn1 < bn2 then bn1 else bn2)
  else if opcode == 0xa4 then .ok (if bn1 > bn2 then bn1 else bn2)
  else .panic

def isBinArith (opcode : Nat) : Bool :=
  opcode == 0x93 || opcode == 0x94 || opcode == 0x9a || opcode == 0x9b || opcode == 0x9c || opcode == 0x9d ||
  opcode == 0x9e || opcode == 0x9f || opcode == 0xa0 || opcode == 0xa1 || opcode == 0xa2 || opcode == 0xa3 ||
  opcode == 0xa4

/-! ### OP_CHECKMULTISIG -/

/-- `for k := 0; k < sigscnt; k++ { xxx, found = delSig(xxx, stack.top(-isig-k)); if found>0 && CONST… return false }` -/
def msDelSigs (stack : Stack) (flags : Nat) (isig : Nat) : Nat → Nat → Bytes → Res Bytes
  | 0, _, xxx => .ok xxx
  | n+1, k, xxx => do
    let sig ← top stack (isig + k)
    let (xxx', found) := delSig xxx sig
    if found > 0 && has flags VER_CONST_SCRIPTCODE then .fail
    else msDelSigs stack flags isig n (k + 1) xxx'

/-- the `for sigscnt > 0 { … }` loop; recursion on the keys left (`keyscnt--` on every iteration, and the
    loop is left as soon as `sigscnt > keyscnt`). Result: `success`. -/
def msVerifyLoop (c : Ctx) (stack : Stack) (xxx : Bytes) : Nat → Nat → Nat → Nat → Res Bool
  | keyscnt, sigscnt, ikey, isig =>
    if sigscnt = 0 then .ok true else
    match keyscnt with
    | 0 => .panic   -- not reachable: sigscnt ≤ keyscnt is an invariant of the loop
    | k+1 => do
      let vchPubKey ← top stack ikey
      let vchSig ← top stack isig
      if !checkSignatureEncoding vchSig c.flags || !checkPubKeyEncoding vchPubKey c.flags c.sv then .fail
      else
        let okSig ← verifyECDSA c.O xxx vchSig vchPubKey c.sv
        let isig' := if okSig then isig + 1 else isig
        let sigscnt' := if okSig then sigscnt - 1 else sigscnt
        if sigscnt' > k then pure false
        else msVerifyLoop c stack xxx k sigscnt' (ikey + 1) isig'

/-- `for i > 1 { i--; NULLFAIL check; if ikey2 > 0 { ikey2-- }; stack.pop() }` — `n = i-1` iterations -/
def msCleanup (flags : Nat) (success : Bool) : Nat → Nat → Stack → Res Stack
  | 0, _, s => .ok s
  | n+1, ikey2, s =>
    match s with
    | [] => .panic
    | t :: r =>
      if !success && has flags VER_NULLFAIL && ikey2 == 0 && t.length > 0 then .fail
      else msCleanup flags success n (ikey2 - 1) r

def checkMultisig (c : Ctx) (st : St) (opcode : Nat) : Res St :=
  let chk := has c.flags VER_MINDATA
  if c.sv == .tapscript then .fail
  else if st.stack.length < 1 then .fail
  else do
    let keyscntI ← topInt st.stack 1 chk
    if keyscntI < 0 || keyscntI > 20 then .fail else
    let keyscnt := keyscntI.toNat
    let opcnt := st.opcnt + keyscnt
    if opcnt > MAX_OPS then .fail else
    let ikey := 2
    let ikey2 := keyscnt + 2
    let i := 2 + keyscnt
    if st.stack.length < i then .fail else do
    let sigscntI ← topInt st.stack i chk
    if sigscntI < 0 || sigscntI > keyscntI then .fail else
    let sigscnt := sigscntI.toNat
    let isig := i + 1
    let i := i + 1 + sigscnt
    if st.stack.length < i then .fail else do
    let xxx0 := c.p.drop st.pbegin
    let xxx ← (if c.sv == .base then msDelSigs st.stack c.flags isig sigscnt 0 xxx0 else pure xxx0)
    let success ← msVerifyLoop c st.stack xxx keyscnt sigscnt ikey isig
    let s1 ← msCleanup c.flags success (i - 1) ikey2 st.stack
    match s1 with
    | [] => .fail
    | dummy :: s2 =>
      if has c.flags VER_NULLDUMMY && dummy.length != 0 then .fail
      else if opcode == 0xaf then
        (if !success then .fail else pure { st with stack := s2, opcnt := opcnt })
      else pure { st with stack := boolBytes success :: s2, opcnt := opcnt }

/-! ### the big switch -/

/-- push one element -/
@[inline] def St.push (st : St) (d : Bytes) : St := { st with stack := d :: st.stack }

/-- a one-operand numeric opcode: `stack.size() < 1 → false; v := popInt; push f(v)` -/
def unaryNum (chk : Bool) (st : St) (f : Int → Bytes) : Res St :=
  if st.stack.length < 1 then .fail else do
    let (v, s) ← popInt chk st.stack
    pure { st with stack := f v :: s }

/-- a one-operand hash opcode -/
def hashOp (st : St) (h : Bytes → Bytes) : Res St :=
  match st.stack with
  | x :: r => .ok { st with stack := h x :: r }
  | [] => .fail

/-- the `switch` of evalScript; `idx` is the offset just behind the current instruction -/
def execOp (c : Ctx) (st : St) (opcode idx opcodePos : Nat) (inexec : Bool) : Res St :=
  let chk := has c.flags VER_MINDATA
  if opcode == 0x4f then .ok (st.push (intBytes (-1)))
  else if opcode ≥ 0x51 && opcode ≤ 0x60 then .ok (st.push (intBytes ((opcode : Int) - 0x50)))
  else if opcode == 0x61 then .ok st
  else if opcode == 0x63 || opcode == 0x64 then
    if inexec then
      match st.stack with
      | [] => .fail
      | vch :: s =>
        if c.sv == .tapscript && (vch.length > 1 || (vch.length == 1 && at' vch 0 != 1)) then .fail
        else if c.sv == .witnessV0 && has c.flags VER_MINIMALIF && (vch.length > 1 || (vch.length == 1 && at' vch 0 != 1)) then .fail
        else
          let val := bts2bool vch
          let val := if opcode == 0x64 then !val else val
          .ok { st with stack := s, exe := val :: st.exe }
    else .ok { st with exe := false :: st.exe }
  else if opcode == 0x67 then
    match st.exe with
    | [] => .panic
    | b :: r => .ok { st with exe := (!b) :: r }
  else if opcode == 0x68 then
    match st.exe with
    | [] => .panic
    | _ :: r => .ok { st with exe := r }
  else if opcode == 0x69 then
    match st.stack with
    | [] => .fail
    | x :: r => if !bts2bool x then .fail else .ok { st with stack := r }
  else if opcode == 0x6b then
    match st.stack with
    | [] => .fail
    | x :: r => .ok { st with stack := r, alt := x :: st.alt }
  else if opcode == 0x6c then
    match st.alt with
    | [] => .fail
    | x :: r => .ok { st with stack := x :: st.stack, alt := r }
  else if opcode == 0x6d then
    match st.stack with
    | _ :: _ :: r => .ok { st with stack := r }
    | _ => .fail
  else if opcode == 0x6e then
    match st.stack with
    | a :: b :: r => .ok { st with stack := a :: b :: a :: b :: r }
    | _ => .fail
  else if opcode == 0x6f then
    match st.stack with
    | a :: b :: d :: r => .ok { st with stack := a :: b :: d :: a :: b :: d :: r }
    | _ => .fail
  else if opcode == 0x70 then
    match st.stack with
    | a :: b :: x2 :: x1 :: r => .ok { st with stack := x2 :: x1 :: a :: b :: x2 :: x1 :: r }
    | _ => .fail
  else if opcode == 0x71 then
    match st.stack with
    | x6 :: x5 :: x4 :: x3 :: x2 :: x1 :: r => .ok { st with stack := x2 :: x1 :: x6 :: x5 :: x4 :: x3 :: r }
    | _ => .fail
  else if opcode == 0x72 then
    match st.stack with
    | x4 :: x3 :: x2 :: x1 :: r => .ok { st with stack := x2 :: x1 :: x4 :: x3 :: r }
    | _ => .fail
  else if opcode == 0x73 then
    match st.stack with
    | x :: r => if bts2bool x then .ok { st with stack := x :: x :: r } else .ok st
    | [] => .fail
  else if opcode == 0x74 then .ok (st.push (intBytes st.stack.length))
  else if opcode == 0x75 then
    match st.stack with
    | _ :: r => .ok { st with stack := r }
    | [] => .fail
  else if opcode == 0x76 then
    match st.stack with
    | x :: r => .ok { st with stack := x :: x :: r }
    | [] => .fail
  else if opcode == 0x77 then
    match st.stack with
    | x :: _ :: r => .ok { st with stack := x :: r }
    | _ => .fail
  else if opcode == 0x78 then
    match st.stack with
    | a :: b :: r => .ok { st with stack := b :: a :: b :: r }
    | _ => .fail
  else if opcode == 0x79 || opcode == 0x7a then
    if st.stack.length < 2 then .fail else do
      let (n, s) ← popInt chk st.stack
      if n < 0 || n ≥ s.length then .fail
      else if opcode == 0x79 then do
        let x ← top s (1 + n.toNat)
        pure { st with stack := x :: s }
      else if n > 0 then
        match s[n.toNat]? with
        | some xn => pure { st with stack := xn :: s.eraseIdx n.toNat }
        | none => .panic
      else pure { st with stack := s }
  else if opcode == 0x7b then
    match st.stack with
    | x3 :: x2 :: x1 :: r => .ok { st with stack := x1 :: x3 :: x2 :: r }
    | _ => .fail
  else if opcode == 0x7c then
    match st.stack with
    | a :: b :: r => .ok { st with stack := b :: a :: r }
    | _ => .fail
  else if opcode == 0x7d then
    match st.stack with
    | a :: b :: r => .ok { st with stack := a :: b :: a :: r }
    | _ => .fail
  else if opcode == 0x82 then
    match st.stack with
    | x :: _ => .ok (st.push (intBytes x.length))
    | [] => .fail
  else if opcode == 0x87 || opcode == 0x88 then
    match st.stack with
    | a :: b :: r =>
      if opcode == 0x88 then (if a != b then .fail else .ok { st with stack := r })
      else .ok { st with stack := boolBytes (a == b) :: r }
    | _ => .fail
  else if opcode == 0x8b then unaryNum chk st (fun v => intBytes (v + 1))
  else if opcode == 0x8c then unaryNum chk st (fun v => intBytes (v - 1))
  else if opcode == 0x8f then unaryNum chk st (fun v => intBytes (-v))
  else if opcode == 0x90 then unaryNum chk st (fun a => if a < 0 then intBytes (-a) else intBytes a)
  else if opcode == 0x91 then unaryNum chk st (fun v => boolBytes (v == 0))
  else if opcode == 0x92 then unaryNum chk st (fun v => boolBytes (v != 0))
  else if isBinArith opcode then
    if st.stack.length < 2 then .fail else do
      let (bn2, s1) ← popInt chk st.stack
      let (bn1, s2) ← popInt chk s1
      let bn ← binArith opcode bn1 bn2
      if opcode == 0x9d then (if bn == 0 then .fail else pure { st with stack := s2 })
      else pure { st with stack := intBytes bn :: s2 }
  else if opcode == 0xa5 then
    if st.stack.length < 3 then .fail else do
      let (bn3, s1) ← popInt chk st.stack
      let (bn2, s2) ← popInt chk s1
      let (bn1, s3) ← popInt chk s2
      pure { st with stack := boolBytes (bn2 ≤ bn1 && bn1 < bn3) :: s3 }
  else if opcode == 0xa6 then hashOp st c.O.ripemd160
  else if opcode == 0xa7 then hashOp st c.O.sha1
  else if opcode == 0xa8 then hashOp st c.O.sha256
  else if opcode == 0xa9 then hashOp st c.O.hash160
  else if opcode == 0xaa then hashOp st c.O.hash256
  else if opcode == 0xab then .ok { st with pbegin := idx, ed := { st.ed with codesepPos := opcodePos } }
  else if opcode == 0xac || opcode == 0xad then
    match st.stack with
    | vchPubKey :: vchSig :: r => do
      let cs ← evalChecksig c vchSig vchPubKey st.pbegin st.ed
      if !cs.ok then .fail
      else if opcode == 0xad then
        (if !cs.success then .fail else pure { st with stack := r, ed := cs.ed })
      else pure { st with stack := boolBytes cs.success :: r, ed := cs.ed }
    | _ => .fail
  else if opcode == 0xba then
    if c.sv == .base || c.sv == .witnessV0 then .fail
    else if st.stack.length < 3 then .fail
    else do
      let sig ← top st.stack 3
      let num ← topInt st.stack 2 chk
      let pubkey ← top st.stack 1
      let cs ← evalChecksig c sig pubkey st.pbegin st.ed
      if !cs.ok then .fail
      else
        let num' := if cs.success then num + 1 else num
        pure { st with stack := intBytes num' :: st.stack.drop 3, ed := cs.ed }
  else if opcode == 0xae || opcode == 0xaf then checkMultisig c st opcode
  else if opcode == 0xb1 then
    if !has c.flags VER_CLTV then (if has c.flags VER_BLOCK_OPS then .fail else .ok st)
    else match st.stack with
    | [] => .fail
    | d :: _ =>
      if d.length > 5 then .fail else do
        let locktime ← bts2intExt d 5 chk
        if locktime < 0 then .fail
        else if !((c.tx.lockTime < LOCKTIME_THRESHOLD && locktime < LOCKTIME_THRESHOLD) ||
                  (c.tx.lockTime ≥ LOCKTIME_THRESHOLD && locktime ≥ LOCKTIME_THRESHOLD)) then .fail
        else if locktime > c.tx.lockTime then .fail
        else if c.tx.sequence == 0xffffffff then .fail
        else pure st
  else if opcode == 0xb2 then
    if !has c.flags VER_CSV then (if has c.flags VER_BLOCK_OPS then .fail else .ok st)
    else match st.stack with
    | [] => .fail
    | d :: _ =>
      if d.length > 5 then .fail else do
        let sequence ← bts2intExt d 5 chk
        if sequence < 0 then .fail
        else if (sequence.toNat &&& SEQUENCE_LOCKTIME_DISABLE_FLAG) != 0 then pure st
        else if !checkSequence c.tx sequence.toNat then .fail
        else pure st
  else if opcode == 0xb0 || (opcode ≥ 0xb3 && opcode ≤ 0xb9) then
    if has c.flags VER_BLOCK_OPS then .fail else .ok st
  else if opcode == 0x6a then .fail
  else .fail

/-- the opcodes rejected wherever they occur -/
def isDisabled (opcode : Nat) : Bool :=
  opcode == 0x7e || opcode == 0x7f || opcode == 0x80 || opcode == 0x81 || opcode == 0x83 || opcode == 0x84 ||
  opcode == 0x85 || opcode == 0x86 || opcode == 0x8d || opcode == 0x8e || opcode == 0x95 || opcode == 0x96 ||
  opcode == 0x97 || opcode == 0x98 || opcode == 0x99

/-- one iteration of the `for` loop after `GetOpcode` succeeded -/
def stepAt (c : Ctx) (st : St) (op : Op) (idx opcodePos : Nat) : Res St :=
  let inexec := st.exe.all id
  if (op.push.getD []).length > MAX_SCRIPT_ELEMENT_SIZE then .fail
  else
    let counted := (c.sv == .base || c.sv == .witnessV0) && op.opcode > 0x60
    let opcnt := if counted then st.opcnt + 1 else st.opcnt
    if counted && opcnt > MAX_OPS then .fail
    else if isDisabled op.opcode then .fail
    else if op.opcode == 0xab && c.sv == .base && has c.flags VER_CONST_SCRIPTCODE then .fail
    else do
      let st := { st with opcnt := opcnt }
      let st' ← (if inexec && op.opcode ≤ 0x4e then
          let pv := op.push.getD []
          if has c.flags VER_MINDATA && !checkMinimalPush pv op.opcode then .fail
          else .ok (st.push pv)
        else if inexec || (0x63 ≤ op.opcode && op.opcode ≤ 0x68) then execOp c st op.opcode idx opcodePos inexec
        else .ok st : Res St)
      if st'.stack.length + st'.alt.length > 1000 then .fail else pure st'

/-- the `for ; idx < len(p); opcode_pos++` loop. `rest = p[idx:]`; fuel ≥ `rest.length` always suffices. -/
def evalLoop (c : Ctx) : Nat → Bytes → Nat → St → Res St
  | 0, rest, _, st => if rest.isEmpty then .ok st else .fail
  | f+1, rest, pos, st =>
    if rest.isEmpty then .ok st else
    match getOpcode rest with
    | none => .fail
    | some op => do
      let st' ← stepAt c st op (c.p.length - rest.length + op.n) pos
      evalLoop c f (rest.drop op.n) (pos + 1) st'

/-- the deferred `recover()`: a panic inside the loop makes `evalScript` return false -/
def recoverPanic {α : Type} : Res α → Res α
  | .panic => .fail
  | r => r

/-- `evalScript(p, stack, checker, ver_flags, sigversion, execdata)`:
    `.ok stack'` = returned true with the stack left as `stack'`; `.fail` = returned false. -/
def evalScript (O : Oracles) (tx : TxCtx) (flags : Nat) (p : Bytes) (stack : Stack) (sv : SigVersion)
    (ed : ExecData) : Res Stack :=
  if (sv == .base || sv == .witnessV0) && p.length > MAX_SCRIPT_SIZE then .fail
  else recoverPanic (do
    let c : Ctx := ⟨O, tx, flags, sv, p⟩
    let st ← evalLoop c p.length p 0 { stack := stack, ed := { ed with codesepPos := 0xFFFFFFFF } }
    if st.exe.length > 0 then .fail else pure st.stack)

end GocoinV.Script
