/-
  Model.UtxoLoad — `NewUnspentDb` as a whole (lib/utxo/unspent_db.go): the attempt on UTXO.db, the retry on
  UTXO.old (`goto redo`), the start-from-nothing fallback, WITH the function-level variables that live across
  `goto redo` — `rec_idx`, `pool_idx`, the static pack buffers `recpool` (their stale contents included),
  `db.HashMap`, `db.dataSize`, `db.totalTxs`. `Model.UtxoRec.snapDecode` is the framing of ONE file; this file is
  the state machine around it, statement by statement. Core-only, executable (oracle op `load`).

  What the source does with these variables between a failed attempt and the next one is not written here: it is
  a `RetryShape`, regenerated from the source by go/cmd/gen_c10 (Gen/UtxoLoaderFacts.lean: `retryShape`).

  Abstractions (stated, not hidden):
    * a slot of a pack (`one_rec{b, k}`) is the record's bytes; `k` is their first 8 bytes (every serialised record
      starts with its 32-byte txid). A slot that was never written (`one_rec{}`) is `[]`.
    * the map-filling goroutine is folded into the reader: a pack is inserted when it is sent. That the reader
      never refills a pack that is still queued or walked is `Props.C10.loader_ring_safe`; that every sent pack
      has been inserted before the next attempt starts is the `ch <- nil; wg.Wait()` of the error path
      (property C07's fix eab07278, its subject).
    * `db.HashMap` is the list of inserted records in insertion order (a later record with the same 8-byte key
      replaces an earlier one in the real maps).
    * the slot `recs[rec_idx]` whose `io.ReadFull` failed holds a new, partly filled buffer and its old key; it is
      never sent by the unchanged code (`rec_idx` is not advanced) and is left as it was here.
-/
import GocoinV.Model.UtxoRec
namespace GocoinV.UtxoRec

/-- what the source does, on every way from a failed record loop to the record loop of the next attempt -/
structure RetryShape where
  /-- `BUFFERS_CNT` -/
  buffers : Nat
  /-- `RECS_PACK_SIZE` -/
  pack : Nat
  /-- `rec_idx = 0` -/
  rewindRecIdx : Bool
  /-- `pool_idx = 0` (not needed: any buffer will do as long as `recs` is re-derived from it) -/
  rewindPoolIdx : Bool
  /-- `db.dataSize.Store(0)` -/
  resetDataSize : Bool
  /-- `db.totalTxs.Store(0)` (every header stores its count, so this shows only when no file is readable) -/
  resetTotalTxs : Bool
  /-- `db.HashMap[i] = make(…)` for all 256 maps after the header of every attempt -/
  freshMaps : Bool
  /-- `if u64 > file_size { goto fatal_error }` between reading the header's record count and pre-sizing the maps
      (`file_size` = `of.Stat().Size()` of the file being read) -/
  boundsCount : Bool
  /-- `if le > file_size { goto fatal_error }` between `ReadVLen` and `Memory_Malloc(int(le))` -/
  boundsLen : Bool
  deriving DecidableEq, Repr

/-- the variables that survive `goto redo` -/
structure LoadVars where
  recIdx : Nat
  poolIdx : Nat
  /-- `recpool`: buffer number ↦ slot contents, stale ones included -/
  pool : Nat → List Bytes
  /-- `db.HashMap` -/
  ins : List Bytes
  dataSize : Nat
  totalTxs : Nat

def LoadVars.init : LoadVars := ⟨0, 0, fun _ => [], [], 0, 0⟩

/-- `recs[:n]` of a buffer whose written slots are `b` -/
def slots (b : List Bytes) (n : Nat) : List Bytes := b.take n ++ List.replicate (n - b.length) []

/-- `recs[i] = x` -/
def setSlot (b : List Bytes) (i : Nat) (x : Bytes) : List Bytes := slots b i ++ x :: b.drop (i + 1)

def updPool (p : Nat → List Bytes) (i : Nat) (b : List Bytes) : Nat → List Bytes := fun j => if j = i then b else p j

/-- the variables of the record loop; `cur` is `recs` (it aliases `recpool[pool_idx]`, written back into `pool`
    when the reader turns to the next buffer or the attempt ends) -/
structure LoopSt where
  recIdx : Nat
  poolIdx : Nat
  pool : Nat → List Bytes
  cur : List Bytes
  ins : List Bytes
  dataSize : Nat

/-- `for tot_recs = 0; tot_recs < u64; tot_recs++ { ReadVLen; Memory_Malloc; ReadFull; copy key; dataSize.Add;
    if rec_idx == len(recs)-1 { ch <- recs; rec_idx = 0; pool_idx = (pool_idx+1) % BUFFERS_CNT; recs = recpool[pool_idx][:] }
    else { rec_idx++ } }` — `false` = `goto fatal_error`. `fsize` is `file_size`. What `Memory_Malloc` is asked for
    on the way is `mallocs` below (same walk); here the allocation is assumed to return. -/
def readLoop (sh : RetryShape) (fsize : Nat) : Nat → Bytes → LoopSt → Bool × LoopSt
  | 0, _, st => (true, st)
  | n + 1, b, st =>
    match readVLen b with
    | none => (false, st)
    | some (le, r) =>
      if sh.boundsLen && fsize < le then (false, st)
      else if shorter r le then (false, st)
      else
        let cur := setSlot st.cur st.recIdx (r.take le)
        if st.recIdx + 1 = sh.pack then
          let pool := updPool st.pool st.poolIdx cur
          let p := (st.poolIdx + 1) % sh.buffers
          readLoop sh fsize n (r.drop le) ⟨0, p, pool, pool p, st.ins ++ slots cur sh.pack, st.dataSize + le⟩
        else
          readLoop sh fsize n (r.drop le) ⟨st.recIdx + 1, st.poolIdx, st.pool, cur, st.ins, st.dataSize + le⟩

/-- what `NewUnspentDb` leaves in the `UnspentDB` -/
structure Loaded where
  /-- ComprssedUTXO, LastBlockHeight, LastBlockHash, the records inserted into HashMap (insertion order) -/
  snap : Snap
  totalTxs : Nat
  dataSize : Nat
  deriving DecidableEq, Repr

inductive Attempt where
  /-- the function returns -/
  | ok (l : Loaded)
  /-- `fatal_error:` was reached; the variables as the next attempt finds them -/
  | fail (v : LoadVars)

/-- one pass from `redo:`; `none` = `os.Open` fails -/
def attempt (sh : RetryShape) (v : LoadVars) (file : Option Bytes) : Attempt :=
  match file with
  | none => .fail v                  -- `ch == nil`: nothing of the error path's clean-up runs
  | some f =>
    if f.length < 48 then .fail v    -- a read of the header fails, `ch` is still nil
    else
      let u := leVal (f.take 8)
      let hash := (f.drop 8).take 32
      let cnt := leVal ((f.drop 40).take 8)
      if sh.boundsCount && f.length < cnt then .fail v   -- refused before the maps are made; `ch` is still nil
      else
      -- maps re-made; `db.totalTxs.Store(u64)`; `ch = make(…)`; `recs = recpool[pool_idx][:]`; the consumer starts
      let st0 : LoopSt := ⟨v.recIdx, v.poolIdx, v.pool, v.pool v.poolIdx, if sh.freshMaps then [] else v.ins, v.dataSize⟩
      match readLoop sh f.length cnt (f.drop 48) st0 with
      | (true, st) =>
        -- `if rec_idx > 0 { ch <- recs[:rec_idx] }; ch <- nil; wg.Wait()`
        .ok ⟨⟨u / 2 ^ 63 % 2 == 1, u % 2 ^ 32, hash, st.ins ++ slots st.cur st.recIdx⟩, cnt, st.dataSize⟩
      | (false, st) =>
        -- `fatal_error:` with `ch != nil`: the consumer is stopped (all sent packs are in the maps), then the clean-up
        .fail ⟨if sh.rewindRecIdx then 0 else st.recIdx, if sh.rewindPoolIdx then 0 else st.poolIdx,
               updPool st.pool st.poolIdx st.cur, st.ins,
               if sh.resetDataSize then 0 else st.dataSize, if sh.resetTotalTxs then 0 else cnt⟩

/-- `NewUnspentDb` (without Rescan): UTXO.db, then UTXO.old, then an empty database in the configured format
    (`LastBlockHash = nil`, maps re-made) -/
def loadDir (sh : RetryShape) (db old : Option Bytes) (cfgCompressed : Bool) : Loaded :=
  match attempt sh LoadVars.init db with
  | .ok l => l
  | .fail v1 =>
    match attempt sh v1 old with
    | .ok l => l
    | .fail v2 => ⟨⟨cfgCompressed, 0, [], []⟩, v2.totalTxs, v2.dataSize⟩

/-! ### what the loader asks the allocator for

  The record count of the header and the record lengths come from the file and go straight into `make(map, int(u64)/256)`
  (256 times) and `Memory_Malloc(int(le))`. The walks below list these requests — the same walk as `attempt/readLoop`,
  as the uint64 that was read (the code converts with `int(…)`: a value ≥ 2^63 is a negative length — `makeslice: len out
  of range` —, a smaller absurd one ends the process with `fatal error: out of memory`). -/

/-- the arguments of `Memory_Malloc` in one record loop, in order (the last one may be the request whose `ReadFull` fails) -/
def mallocs (sh : RetryShape) (fsize : Nat) : Nat → Bytes → List Nat
  | 0, _ => []
  | n + 1, b =>
    match readVLen b with
    | none => []
    | some (le, r) =>
      if sh.boundsLen && fsize < le then []
      else if shorter r le then [le]
      else le :: mallocs sh fsize n (r.drop le)

structure MemAsk where
  /-- the record count the maps are pre-sized for, when the attempt gets that far -/
  mapsFor : Option Nat
  /-- every argument of `Memory_Malloc` -/
  mallocs : List Nat
  deriving DecidableEq, Repr

/-- the requests of one pass from `redo:` over a file -/
def memAsk (sh : RetryShape) (file : Option Bytes) : MemAsk :=
  match file with
  | none => ⟨none, []⟩
  | some f =>
    if f.length < 48 then ⟨none, []⟩
    else
      let cnt := leVal ((f.drop 40).take 8)
      if sh.boundsCount && f.length < cnt then ⟨none, []⟩
      else ⟨some cnt, mallocs sh f.length cnt (f.drop 48)⟩

/-- the sum `db.dataSize` is meant to hold -/
def dataSizeOf (recs : List Bytes) : Nat := (recs.map List.length).sum

/-- what loading ONE readable file means (the property's "reloaded from the snapshot file") -/
def loadedOf (s : Snap) : Loaded := ⟨s, s.recs.length, dataSizeOf s.recs⟩

/-- the specification of the directory: the first of UTXO.db / UTXO.old that can be read, else nothing -/
def loadDirSpec (db old : Option Bytes) (cfgCompressed : Bool) : Snap :=
  match db.bind snapDecode with
  | some s => s
  | none =>
    match old.bind snapDecode with
    | some s => s
    | none => ⟨cfgCompressed, 0, [], []⟩

end GocoinV.UtxoRec
