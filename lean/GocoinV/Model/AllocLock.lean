/-
  Model.AllocLock — meaning of the class-selection terms that go/cmd/gen_c20/locks.go extracts from
  Malloc / Free (`Gen.MemClasses.mallocLockSel`, `mallocEditSel`, `freeLockSel`, `freeEditSel`):
  which size class such a term denotes when Malloc(size) / Free(a) runs in a state of Model/Alloc.lean.
  Core Lean only.
-/
import GocoinV.Model.Alloc
namespace GocoinV.Alloc
open GocoinV.Gen.MemClasses
variable {V : Type}

/-- `a.getSizeClass(n)`; `none` stands for -1 (private mapping). -/
def getSizeClass (n : Nat) : Option Nat := if n > maxShared then none else some (classOf n)

/-- The class a selection term denotes inside `Malloc(size)` (the only value Malloc has is `size`). -/
def selMalloc (e : ClassSel) (size : Nat) : Option Nat :=
  match e with
  | .sizeClass .reqSize k => getSizeClass (size + k)
  | _ => none

/-- The class a selection term denotes inside `Free(a)` in state `s`: the class byte of the header of the
page containing `a`, or `getSizeClass(Cap + k)` of the slice header stored in the slot. -/
def selFree (e : ClassSel) (s : State V) (a : Addr) : Option Nat :=
  match e, a with
  | .pageHeader, .sh p _ => (s.pages.get? p).map (·.cls)
  | .sizeClass .slotCap k, a => (s.mem.get? a).bind fun m => getSizeClass (m.cap + k)
  | _, _ => none

/-- Selection terms for which `Malloc` is known to pick the class of the model's step. -/
def goodMallocSel (e : ClassSel) : Bool := e == .sizeClass .reqSize sliceHdrLen

/-- Selection terms for which `Free` is known to pick the class of the page that holds the slot: the page
header's class byte, or `getSizeClass(Cap + sliceHdrLen)` (a slot's Cap + 24 is its class's slot size). -/
def goodFreeSel (e : ClassSel) : Bool := e == .pageHeader || e == .sizeClass .slotCap sliceHdrLen

end GocoinV.Alloc
