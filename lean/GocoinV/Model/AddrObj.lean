/-
  Model.AddrObj — ONE `btc.BtcAddr` object used over time (lib/btc/addr.go), as the callers that re-point an
  existing object do (client/usif/textui/wallet.go list_unspent, tools/tap2old: `ad.Enc58str = ""` followed by
  `ad.SegwitProg = &btc.SegwitProg{…}` between calls of `OutScript()` / `String()`).

  `Obj` carries exactly the EXPORTED fields that `String()` / `OutScript()` read or write. That the struct has no
  further (unexported) state that these two methods consult is part of the model: here both are functions of an
  `Obj`, so two objects with equal exported fields give equal results, whatever was called on them before. The
  correspondence harness (go/cmd/c15/history.go) checks this of the real code on every run, by comparing every call
  on a re-used object with the same call on a new object built from the re-used one's exported fields, and with
  `Obj.trace` below (oracle op `hist`).
  Core Lean only.
-/
import GocoinV.Model.Addr
namespace GocoinV.Addr

/-- the exported fields of `btc.BtcAddr` that `String()` / `OutScript()` use -/
structure Obj where
  seg : Option (Bytes × Nat × Bytes)   -- *SegwitProg (nil = none): (HRP, Version, Program)
  enc : Bytes                          -- Enc58str ("" = [])
  cksum : Option Bytes                 -- Checksum (nil = none)
  ver : UInt8                          -- Version
  h160 : Bytes                         -- Hash160 ([20]byte in Go)
  deriving Repr, DecidableEq

/-- `new(BtcAddr)` -/
def Obj.zero : Obj := ⟨none, [], none, 0, List.replicate 20 0⟩

/-- `copy(dst4, c)` into a zeroed 4-byte destination: at most 4 bytes are taken, missing ones stay 0 -/
def copy4 (c : Bytes) : Bytes := c.take 4 ++ List.replicate (4 - (c.take 4).length) 0

/-- the destination the exported fields denote: `SegwitProg != nil` wins, otherwise (Version, Hash160) -/
def Obj.dest (o : Obj) : Addr :=
  match o.seg with
  | some (hrp, v, p) => .segwit hrp v p
  | none => .b58 o.ver o.h160 none

/-- `(*BtcAddr).String()`: result and the object afterwards. `Enc58str` is returned when it is not empty; otherwise
    it is computed, STORED, and returned; on the Base58 path `Checksum` is used when it is not nil, otherwise
    computed and STORED. -/
def Obj.string (H : Hashes) (o : Obj) : Bytes × Obj :=
  if o.enc ≠ [] then (o.enc, o)
  else match o.seg with
    | some (hrp, v, p) =>
      let s := (Bech32.segwitEncode hrp v p).getD []     -- SegwitProg.String(); "" when not encodable
      (s, { o with enc := s })
    | none =>
      let ad := o.ver :: o.h160
      let ck := match o.cksum with
        | some c => c
        | none => copy4 ((H.sha2sum ad).take 4)          -- make([]byte,4); copy(a.Checksum, sh[:4])
      let s := Base58.encode (ad ++ copy4 ck)             -- copy(ad[21:25], a.Checksum[:])
      (s, { o with enc := s, cksum := some ck })

/-- `(*BtcAddr).OutScript()`; `none` = Go panic. Reads SegwitProg, Version, Hash160; writes nothing. -/
def Obj.outScript (o : Obj) : Option Bytes := Addr.outScript o.dest

/-- one thing a caller does with the object: assign an exported field, or call a method -/
inductive Op where
  | setSeg (s : Option (Bytes × Nat × Bytes))
  | setEnc (s : Bytes)
  | setCksum (c : Option Bytes)
  | setVer (v : UInt8)
  | setHash (h : Bytes)
  | callString
  | callOutScript
  deriving Repr, DecidableEq

def Op.isCall : Op → Bool
  | .callString | .callOutScript => true
  | _ => false

inductive Res where
  | str (s : Bytes)
  | script (s : Option Bytes)
  deriving Repr, DecidableEq

/-- the object after `op` -/
def Obj.apply (H : Hashes) (o : Obj) : Op → Obj
  | .setSeg s => { o with seg := s }
  | .setEnc s => { o with enc := s }
  | .setCksum c => { o with cksum := c }
  | .setVer v => { o with ver := v }
  | .setHash h => { o with h160 := h }
  | .callString => (o.string H).2
  | .callOutScript => o

/-- what the caller sees of `op` (calls only) -/
def Obj.result (H : Hashes) (o : Obj) : Op → Option Res
  | .callString => some (.str (o.string H).1)
  | .callOutScript => some (.script o.outScript)
  | _ => none

/-- the object after a history -/
def Obj.exec (H : Hashes) : List Op → Obj → Obj
  | [], o => o
  | op :: ops, o => Obj.exec H ops (o.apply H op)

/-- the results of all calls of a history, in order -/
def Obj.trace (H : Hashes) : List Op → Obj → List Res
  | [], _ => []
  | op :: ops, o => (o.result H op).toList ++ Obj.trace H ops (o.apply H op)

/-- a destination a caller points an object to -/
inductive Dest where
  | segwit (hrp : Bytes) (v : Nat) (p : Bytes)
  | legacy (ver : UInt8) (h : Bytes)
  deriving Repr, DecidableEq

def Dest.addr : Dest → Addr
  | .segwit hrp v p => .segwit hrp v p
  | .legacy ver h => .b58 ver h none

/-- the re-use idiom of the existing callers, as steps:
    `point (.segwit …)` is `ad.Enc58str = ""; ad.SegwitProg = &btc.SegwitProg{HRP, Version, Program}` (list_unspent,
    tap2old); `point (.legacy …)` is the same discipline for the Base58 form — both caches reset
    (`Enc58str = ""`, `Checksum = nil`), `SegwitProg = nil`, Version and Hash160 assigned; `dropSegwit` is
    `ad.Enc58str = ""; ad.SegwitProg = nil` (back to the Base58 form the object still carries). -/
inductive Reuse where
  | point (d : Dest)
  | dropSegwit
  | string
  | outScript
  deriving Repr, DecidableEq

def Reuse.ops : Reuse → List Op
  | .point (.segwit hrp v p) => [.setEnc [], .setSeg (some (hrp, v, p))]
  | .point (.legacy ver h) => [.setEnc [], .setCksum none, .setSeg none, .setVer ver, .setHash h]
  | .dropSegwit => [.setEnc [], .setSeg none]
  | .string => [.callString]
  | .outScript => [.callOutScript]

def Reuse.isCall : Reuse → Bool
  | .string | .outScript => true
  | _ => false

/-- `String()` of a NEW object denoting the same destination ("" when not encodable) -/
def Obj.fresh (H : Hashes) (o : Obj) : Bytes := (Addr.toString H o.dest).getD []

/-- the two caches are empty or hold what `String()` would compute from the other fields -/
def Obj.Coherent (H : Hashes) (o : Obj) : Prop :=
  (o.enc = [] ∨ o.enc = o.fresh H) ∧
  (o.cksum = none ∨ o.cksum = some ((H.sha2sum (o.ver :: o.h160)).take 4))

end GocoinV.Addr
