/-
  Model.ConnectTrust — the configuration "chain.TrustedTxChecker is installed" (lib/chain/chain_accept.go, commitTxs):

      for i, tx := range bl.Txs {
          …
          if i > 0 {
              tx_trusted := bl.Trusted.Get()
              if !tx_trusted {
                  if TrustedTxChecker != nil && TrustedTxChecker(tx) { tx_trusted = true } else { tx.Spent_outputs = … }
              }
              … (input loop: look-ups, maturity, amounts, sigops — ALWAYS run) …
              if !tx_trusted { for j := range tx.TxIn { go … VerifyTxScript … atomic.AddUint32(&ver_err_cnt, 1) } }

  The hook is the client's memory-pool verification cache; plain library use leaves it nil.  A transaction for which
  `tx_trusted` holds gets no `Spent_outputs` and no verification goroutine, so its inputs add nothing to `ver_err_cnt`:
  for the rest of commitTxs it is as if each of its VerifyTxScript calls had returned true (`skipScripts`).  Everything
  else — existence, double spends, maturity, amounts, sigops — is evaluated for it like for any other transaction.

  WHERE the flag lives is a structural matter of the source and is regenerated from it on every run
  (`Gen.C04Facts.txTrustedPerTx`, go/cmd/gen_c04): declared inside the body of the transaction loop it is a fresh
  variable per transaction (`trustPerTx`); declared once before the loop, the assignment `tx_trusted = true` made for one
  pool-known transaction would stay in force for every later transaction of the block (`trustSticky`).
  `bl.Trusted` (blocks below the client's trusted checkpoint) is `false` throughout: not modelled.  Core-only.
-/
import GocoinV.Model.Connect
import GocoinV.Gen.C04Facts
namespace GocoinV.Connect

/-- `chain.TrustedTxChecker`: `none` = not installed, `some f` = the pool's answer for each transaction -/
abbrev TxChecker := Option (Tx → Bool)

/-- `TrustedTxChecker != nil && TrustedTxChecker(tx)` -/
def TxChecker.says (chk : TxChecker) (tx : Tx) : Bool :=
  match chk with
  | some f => f tx
  | none => false

/-- no `Spent_outputs`, no VerifyTxScript goroutines for this transaction -/
def skipScripts (tx : Tx) : Tx := { tx with ins := tx.ins.map fun i => { i with scriptOk := true } }

/-- the flag is a variable of the loop BODY: each transaction starts from `bl.Trusted.Get()` = false -/
def trustPerTx (chk : TxChecker) : List Tx → List Tx
  | [] => []
  | tx :: r => (if chk.says tx then skipScripts tx else tx) :: trustPerTx chk r

/-- the flag is declared ONCE before the loop: `t` is its value when the pass for `tx` starts -/
def trustSticky (chk : TxChecker) : Bool → List Tx → List Tx
  | _, [] => []
  | t, tx :: r =>
    let t' := t || chk.says tx
    (if t' then skipScripts tx else tx) :: trustSticky chk t' r

/-- the block as the script section of commitTxs sees it; the coinbase (`i == 0`) never consults the hook -/
def effBlock (perTx : Bool) (chk : TxChecker) (b : Block) : Block :=
  match b.txs with
  | [] => b
  | cb :: rest => { b with txs := cb :: (if perTx then trustPerTx chk rest else trustSticky chk false rest) }

/-- `connect` with the hook installed; the shape of the flag is the one the source has NOW -/
def connectT (cfg : Cfg) (chk : TxChecker) (db : DB) (b : Block) : Except Err (DB × Nat) :=
  connect cfg db (effBlock Gen.C04Facts.txTrustedPerTx chk b)

/-- `acceptBlock` with the hook installed (what the oracle runs for op `blockv`) -/
def acceptBlockT (cfg : Cfg) (chk : TxChecker) (c : Chain) (b : Block) : Chain × Except Err Nat :=
  acceptBlock cfg c (effBlock Gen.C04Facts.txTrustedPerTx chk b)

/-- the hook as the harness states it: one answer per transaction of the block, by position -/
def checkerOfBits (b : Block) (bits : List Bool) : TxChecker :=
  some fun tx => ((b.txs.zip bits).any fun (t, v) => v && t.txid == tx.txid)

end GocoinV.Connect
