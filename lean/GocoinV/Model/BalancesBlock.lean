/-
  Model.BalancesBlock — the BLOCK layer over Model.Balances: one `UnspentDB.CommitBlockTxs(changes, hash)` as
  `Chain.CommitBlock` (a block from the network: `changes.LastKnownHeight = bl.LastKnownHeight`, which the client sets to
  `network.LastCommitedHeader.Height`, the height of the best header it knows) and `Chain.ParseTillBlock` (a
  reorganisation: `LastKnownHeight = end.Height`) issue it, one `UnspentDB.UndoBlockTxs`, and the index's own events in
  between.

  A block connection carries, besides the records it removes / creates, WHERE THE NODE IS while it connects the block:
  the block's height and the height of the best known header. lib/chain + lib/utxo use that position for ONE thing — whether
  undo data is kept (`chain.commitTxs`: `if changes.Height+ch.Unspent.UnwindBufLen >= changes.LastKnownHeight
  { changes.UndoData = … }`, uint32 arithmetic; CommitBlockTxs writes the undo file only then). A block connected while the
  node is more than UnwindBufLen (2560) blocks behind the best known header cannot be disconnected again; every other
  effect — the change of the unspent set AND the calls of the index callbacks — is the same in every sync state.

  `connectBlock` says exactly that: the worker steps (`Ev.add` / `Ev.del`, in the order the schedule ran them) go through
  `Balances.step`, which runs the callback whenever it is installed (`s.on`). That nothing else decides about the calls
  is the generated source fact `Gen.UtxoNotifyFacts.notifyAddGuards / notifyDelGuards` (go/cmd/gen_c17/guards.go,
  regenerated from /repo/lib/utxo on every run; restated in Proofs.C17Block.notify_facts): through CommitBlockTxs the
  conditions guarding `CB.NotifyTxAdd(rec)` depend on `UnspentDB.CB.NotifyTxAdd` (installed?) and `BlockChanges.AddList`
  (the records), those guarding `CB.NotifyTxDel(rec, outs)` on `UnspentDB.CB.NotifyTxDel`, `BlockChanges.DeledTxs` and the
  stored record (`UnspentDB.HashMap`, compared with the txid) — not on Height, LastKnownHeight, UnwindBufLen, UndoData.
  Core-only.
-/
import GocoinV.Model.Balances
import GocoinV.Gen.UtxoNotifyFacts
namespace GocoinV.Model.BalancesBlock
open GocoinV GocoinV.Model.Balances

def U32 : Nat := 2 ^ 32

/-- `utxo.BlockChanges` as CommitBlockTxs receives it -/
structure BlockCh where
  /-- `changes.Height` -/
  height : Nat
  /-- `changes.LastKnownHeight`: the best header the node knows (CommitBlock: `bl.LastKnownHeight`; ParseTillBlock:
      `end.Height`); 0 when the caller does not use the feature -/
  lastKnown : Nat
  /-- commit's do_del / do_add worker steps in the order the schedule ran them (`Ev.del` / `Ev.add`) -/
  work : List Ev
deriving Repr

/-- `chain.commitTxs`: undo data is collected (and CommitBlockTxs writes undo/<height>) iff
    `changes.Height + UnwindBufLen >= changes.LastKnownHeight` (uint32) -/
def keepsUndo (unwind : Nat) (b : BlockCh) : Bool :=
  decide (b.lastKnown ≤ (b.height + unwind) % U32)

/-- the node is more than `unwind` blocks behind the best known header while it connects `b` ("syncing") -/
def farBehind (unwind : Nat) (b : BlockCh) : Bool := !keepsUndo unwind b

/-- `CommitBlockTxs(changes)` on the node state: the worker steps, each through `Balances.step` (HashMap updated, the index
    callback run when installed) — in every sync state -/
def connectBlock (H : Bytes → Nat) (s : State) (b : BlockCh) : State := run H s b.work

/-- block-level events of a node's life -/
inductive BEv where
  /-- Chain.CommitBlock / one block of Chain.ParseTillBlock -/
  | connect (b : BlockCh)
  /-- Chain.UndoLastBlock: UndoBlockTxs' `Ev.undoDel`s, then its `Ev.undoAdd`s -/
  | disconnect (work : List Ev)
  /-- enable / disable / reload: the index's own events (wallet on, wallet off, restart through the cache) -/
  | ctl (e : Ev)
deriving Repr

def BEv.evs : BEv → List Ev
  | .connect b => b.work
  | .disconnect w => w
  | .ctl e => [e]

def stepB (H : Bytes → Nat) (s : State) : BEv → State
  | .connect b => connectBlock H s b
  | .disconnect w => run H s w
  | .ctl e => step H s e

def runB (H : Bytes → Nat) (s : State) (h : List BEv) : State := h.foldl (stepB H) s

/-- the record-level change stream of a block-level history -/
def flat : List BEv → List Ev
  | [] => []
  | e :: rest => e.evs ++ flat rest

/-- the same block in another sync state -/
def BlockCh.inState (b : BlockCh) (height lastKnown : Nat) : BlockCh := { b with height := height, lastKnown := lastKnown }

end GocoinV.Model.BalancesBlock
