/-
  Model.WireBlockObj — the STATEFUL side of block decoding: one `btc.Block` object (lib/btc/block.go) driven through
  a history of calls. `Wire.decodeBlock` is a pure function of the bytes; the Go object keeps `Raw`, `TxCount`,
  `TxOffset`, `Txs`, `BlockWeight`, `TotalInputs` between calls, and `BuildTxListExt` reads some of them
  (`if bl.TxCount == 0 { … parse the count … }`). This file mirrors, statement by statement,

    NewBlock / NewBlockX      → `newBlock`
    Block.UpdateContent       → `updateContent`   (as fixed by /repo commit c07f5ce9: a bare 80-byte header resets
                                                   TxCount/TxOffset; before, the stale pair made BuildTxList panic)
    Block.BuildTxListExt(b)   → `buildTxListExt`  (`BuildTxList()` = `buildTxListExt true`)
    Block.Clean               → `clean`
    the client's hand-made reset of a Block whose data turned out corrupt (client/network/data.go:
    `Raw = prev; BlockWeight, TotalInputs = 0, 0; TxCount, TxOffset = 0, 0; Txs = nil`; on a fresh header-only
    object the same statement list is the plain `b2g.Block.Raw = b` of netBlockReceived) → `discard`

  and gives the pure reference `decodeBlockExt H dohash raw` (= `decodeBlock H raw` for `dohash = true`).
  Core-only.
-/
import GocoinV.Model.Wire
namespace GocoinV.Wire
open GocoinV.CompactSize

/-- what a transaction built by `BuildTxListExt(false)` carries: `Hash`, `wTxID` stay the zero value,
    `Size = len(Raw)`, `NoWitSize` as NewTx left it -/
def blockTxIdsNoHash (d : Decoded) (raw : Bytes) : Ids :=
  { hash := List.replicate 32 0, wtxid := List.replicate 32 0, size := raw.length % 2^32, noWitSize := d.noWitSize }

/-- `bl.Txs` after the parse loop of `BuildTxListExt(dohash)` -/
def mkBlockTxsExt (H : Bytes → Bytes) (dohash : Bool) (l : List (Decoded × Bytes)) : List BlockTx :=
  if dohash then mkBlockTxs H true l
  else l.map fun p => { tx := p.1.tx, raw := p.2, ids := blockTxIdsNoHash p.1 p.2 }

/-- `bl.BlockWeight` after `BuildTxListExt`: `4*(80+VLenSize(TxCount))` plus, per built transaction, the uint32
    expression `3*tx.NoWitSize + tx.Size`, summed in a 64-bit accumulator -/
def blockWeightOf (cnt : Nat) (txs : List BlockTx) : Nat :=
  (4 * (80 + vlenSize cnt) + (txs.map fun t => (3 * t.ids.noWitSize + t.ids.size) % 2^32).sum) % 2^64

/-- Pure reference: a fresh `NewBlock(raw)` followed by ONE `BuildTxListExt(dohash)`. -/
def decodeBlockExt (H : Bytes → Bytes) (dohash : Bool) (raw : Bytes) : BlockRes :=
  if raw.length < 80 then { err := some .tooShort, txCount := 0, txs := [], weight := 0 } else
  match vlenWire (raw.drop 80) with
  | none => { err := some .badCount, txCount := 0, txs := [], weight := 0 }
  | some (cnt, rest) =>
    if cnt = 0 then { err := some .badCount, txCount := 0, txs := [], weight := 0 } else
    let p := decodeTxs cnt rest
    let txs := mkBlockTxsExt H dohash p.1
    { err := if p.2 then none else some .txFailed, txCount := cnt, txs := txs, weight := blockWeightOf cnt txs }

/-! ### the object -/

structure BlockObj where
  raw : Bytes
  txCount : Nat
  txOffset : Nat
  /-- `bl.Txs`; `none` = nil -/
  txs : Option (List BlockTx)
  weight : Nat
  /-- `bl.TotalInputs` (`+=` on every build: accumulates over repeated calls — a capacity hint in the client,
      not one of the property's observables) -/
  totalInputs : Nat

/-- result of one call: `ok` = nil error; `panic` = a Go run-time panic (index/slice out of range) -/
inductive Outcome | ok | tooShort | badCount | txFailed | panic
deriving DecidableEq, Repr

/-- Go's `vlenWire` return pair `(le, n)`: `(0, 0)` on failure -/
def vlenWireGo (b : Bytes) : Nat × Nat :=
  match vlenWire b with
  | none => (0, 0)
  | some (v, r) => (v, b.length - r.length)

/-- `Block.UpdateContent(data)` -/
def updateContent (data : Bytes) (s : BlockObj) : BlockObj × Outcome :=
  if data.length < 80 then (s, .tooShort) else
  let s := { s with raw := data }
  if data.length > 80 then
    let p := vlenWireGo (data.drop 80)
    if p.2 = 0 then ({ s with txCount := p.1, txOffset := p.2 }, .badCount)
    else ({ s with txCount := p.1, txOffset := p.2 + 80 }, .ok)
  else ({ s with txCount := 0, txOffset := 0 }, .ok)

/-- `new(Block)` -/
def emptyObj : BlockObj := { raw := [], txCount := 0, txOffset := 0, txs := none, weight := 0, totalInputs := 0 }

/-- `btc.NewBlock(data)`: `none` = no object (nil data / shorter than a header); otherwise the object and the
    error of `UpdateContent` (NewBlockX returns the object together with a count error) -/
def newBlock (data : Bytes) : Option (BlockObj × Outcome) :=
  if data.length < 80 then none else some (updateContent data emptyObj)

/-- `Block.BuildTxListExt(dohash)`. The slice expression `bl.Raw[offs:]` of the first loop iteration panics when
    `TxOffset > len(Raw)`; that needs a `TxCount/TxOffset` pair that does not belong to `Raw`
    (`build_never_panics`: unreachable through the operations of this file). The state recorded for that case
    (`Txs` = the fresh slice, here the empty list) is therefore never observed. -/
def buildTxListExt (H : Bytes → Bytes) (dohash : Bool) (s : BlockObj) : BlockObj × Outcome :=
  let parse := s.txCount = 0
  let p := vlenWireGo (s.raw.drop 80)
  let s1 : BlockObj := if parse then { s with txCount := p.1, txOffset := p.2 } else s
  if parse ∧ (p.1 = 0 ∨ p.2 = 0) then (s1, .badCount) else
  let s2 : BlockObj := if parse then { s1 with txOffset := s1.txOffset + 80 } else s1
  if s2.txOffset > s2.raw.length then ({ s2 with txs := some [] }, .panic) else
  let q := decodeTxs s2.txCount (s2.raw.drop s2.txOffset)
  let txs := mkBlockTxsExt H dohash q.1
  ({ s2 with txs := some txs, weight := blockWeightOf s2.txCount txs,
             totalInputs := s2.totalInputs + (q.1.map fun d => d.1.tx.ins.length).sum },
   if q.2 then .ok else .txFailed)

/-- `Block.Clean()`: `for _, t := range bl.Txs[1:] { t.Clean() }` — `Txs[1:]` of an empty (or nil) slice panics;
    `Tx.Clean` drops the script-verification cache only (not modelled: none of the observables). -/
def clean (s : BlockObj) : BlockObj × Outcome :=
  match s.txs with
  | none => (s, .panic)
  | some [] => (s, .panic)
  | some (_ :: _) => (s, .ok)

/-- the client's reset (see the header of this file) -/
def discard (raw : Bytes) (_ : BlockObj) : BlockObj × Outcome :=
  ({ raw := raw, txCount := 0, txOffset := 0, txs := none, weight := 0, totalInputs := 0 }, .ok)

inductive Op
  | update (data : Bytes)
  | build (dohash : Bool)
  | clean
  | discard (raw : Bytes)
deriving Repr

def step (H : Bytes → Bytes) (op : Op) (s : BlockObj) : BlockObj × Outcome :=
  match op with
  | .update d => updateContent d s
  | .build b => buildTxListExt H b s
  | .clean => clean s
  | .discard r => discard r s

/-- a history: the state after all operations (outcomes are returned to the caller and otherwise forgotten,
    as in Go; a recovered panic leaves the fields as they were at that point) -/
def run (H : Bytes → Bytes) : List Op → BlockObj → BlockObj
  | [], s => s
  | op :: ops, s => run H ops (step H op s).1

/-- the content a history leaves in `Raw` -/
def currentRaw : List Op → Bytes → Bytes
  | [], r => r
  | .update d :: ops, r => currentRaw ops (if d.length < 80 then r else d)
  | .discard d :: ops, _ => currentRaw ops d
  | _ :: ops, r => currentRaw ops r

/-- `discard` is handed a former `Raw` of the object: at least a header -/
def Op.WF : Op → Prop
  | .discard r => 80 ≤ r.length
  | _ => True

/-- trace for the oracle: state and outcome after every operation -/
def trace (H : Bytes → Bytes) : List Op → BlockObj → List (BlockObj × Outcome)
  | [], _ => []
  | op :: ops, s => let r := step H op s; r :: trace H ops r.1

end GocoinV.Wire
