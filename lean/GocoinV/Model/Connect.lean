/-
  Model.Connect — how gocoin connects a block to the UTXO set.  Mirrors, statement by statement:
    lib/chain/chain_accept.go   Chain.commitTxs, Chain.CommitBlock (unlink on error), AcceptHeader
    lib/chain/block_check.go    the coinbase-position tests of PostCheckBlock + CheckTransactions
    lib/btc/tx.go               Tx.CheckTransaction, Tx.IsFinal, Tx.IsCoinBase, GetLegacySigOpCount, CountWitnessSigOps
    lib/btc/funcs.go            GetOpcode, GetSigOpCount (with its OP_RETURN break), GetP2SHSigOpCount,
                                IsWitnessProgram, WitnessSigOps, IsPushOnly, IsP2SH
    lib/btc/block.go            GetBlockReward
    lib/utxo/unspent_db.go      UnspentGet, del, commit (record level; the map is keyed by the first 8 txid bytes)
  Numbers are `Nat`; Go's fixed-width wrap-around is explicit (`u64`, `u32`).  Script verification is an oracle
  `Bool` per input (`TxIn.scriptOk`).  The record *serialisation* is property C10's subject: a record here is the
  decoded `UtxoRec`.  `Cfg` selects the code before / after the two `fix:` commits of this property
  (`Cfg.current` is what /repo contains now and what the oracle executes; `Cfg.orig` is the pinned snapshot).
  Core-only.
-/
import GocoinV.Base.Bytes
namespace GocoinV.Connect

/-! ## association lists (Go maps) -/

def aGet {κ β : Type} [DecidableEq κ] : List (κ × β) → κ → Option β
  | [], _ => none
  | (k', v) :: r, k => if k' = k then some v else aGet r k

/-- `m[k] = v` (replaces in place, else appends) -/
def aSet {κ β : Type} [DecidableEq κ] : List (κ × β) → κ → β → List (κ × β)
  | [], k, v => [(k, v)]
  | (k', v') :: r, k, v => if k' = k then (k, v) :: r else (k', v') :: aSet r k v

/-- `delete(m, k)` -/
def aDel {κ β : Type} [DecidableEq κ] : List (κ × β) → κ → List (κ × β)
  | [], _ => []
  | (k', v') :: r, k => if k' = k then aDel r k else (k', v') :: aDel r k

/-! ## data -/

def u64 (n : Nat) : Nat := n % 2^64
def u32 (n : Nat) : Nat := n % 2^32

/-- Go `a - b` on uint64 -/
def sub64 (a b : Nat) : Nat := (a % 2^64 + 2^64 - b % 2^64) % 2^64
/-- Go `a - b` on uint32 -/
def sub32 (a b : Nat) : Nat := (a % 2^32 + 2^32 - b % 2^32) % 2^32

def COIN : Nat := 100000000
def MAX_MONEY : Nat := 21000000 * COIN
def COINBASE_MATURITY : Nat := 100
def MAX_BLOCK_SIGOPS_COST : Nat := 80000
def WITNESS_SCALE_FACTOR : Nat := 4
def MAX_PUBKEYS_PER_MULTISIG : Nat := 20
def MAX_BLOCK_WEIGHT : Nat := 4000000
def LOCKTIME_THRESHOLD : Nat := 500000000
def UtxoIdxLen : Nat := 8

structure OutPoint where
  hash : Bytes      -- 32 bytes
  vout : Nat        -- uint32
  deriving DecidableEq, Repr, Inhabited

structure TxOut where
  value : Nat       -- uint64
  script : Bytes
  deriving DecidableEq, Repr, Inhabited

structure TxIn where
  prev : OutPoint
  scriptSig : Bytes
  sequence : Nat    -- uint32
  witness : List Bytes
  scriptOk : Bool   -- oracle: result of script.VerifyTxScript for this input
  deriving DecidableEq, Repr, Inhabited

structure Tx where
  txid : Bytes
  version : Nat
  ins : List TxIn
  outs : List TxOut
  lockTime : Nat
  noWitSize : Nat   -- Tx.NoWitSize
  deriving DecidableEq, Repr, Inhabited

/-- a candidate block as CheckBlock leaves it: height, header time, median time past of the parent,
    the three VerifyFlags bits read by commitTxs / PostCheckBlock, the parsed transactions -/
structure Block where
  hash : Bytes
  height : Nat
  time : Nat
  mtp : Nat
  p2sh : Bool
  witness : Bool
  csv : Bool
  txs : List Tx
  deriving Repr, Inhabited

/-- decoded `utxo.UtxoRec` -/
structure Rec where
  txid : Bytes
  height : Nat                -- InBlock
  coinbase : Bool
  outs : List (Option TxOut)
  deriving DecidableEq, Repr, Inhabited

/-- `UnspentDB.HashMap`: key = first `UtxoIdxLen` bytes of the txid -/
abbrev DB := List (Bytes × Rec)

def key8 (h : Bytes) : Bytes := h.take UtxoIdxLen

/-- which code is modelled: `fullTxid` = UnspentGet/del compare the stored 32-byte txid (commit bd8dba45);
    `moneyRange` = value-range checks of commit e713bf9d -/
structure Cfg where
  fullTxid : Bool
  moneyRange : Bool
  deriving DecidableEq, Repr

def Cfg.current : Cfg := ⟨true, true⟩
def Cfg.orig : Cfg := ⟨false, false⟩

inductive Err
  | cbMissing | cbMultiple                                   -- PostCheckBlock
  | vinEmpty | voutEmpty | oversize | voutTooLarge | txoutTotal | cbLength | prevoutNull | nonFinal
  | cbScriptLen | voutTooBig | doubleSpend | unknownInput | voutTooBig2 | alreadySpent | ownCoinbase
  | immature | inputRange | moreSpent | feeRange | scripts | cbTooMuch | sigops
  deriving DecidableEq, Repr

/-! ## lib/btc/block.go -/

/-- `50e8 >> (height / 210000)`; a Go shift by ≥ 64 gives 0 (and so does `Nat` shift here) -/
def getBlockReward (height : Nat) : Nat := u64 (5000000000 >>> (height / 210000))

/-! ## lib/btc/funcs.go — script tokeniser and sigop counters -/

/-- `GetOpcode(b)`: `some (opcode, pushed data, bytes consumed)`, `none` = error -/
def getOpcode (b : Bytes) : Option (Nat × Bytes × Nat) :=
  match b with
  | [] => none
  | op :: t =>
    let opcode := op.toNat
    if opcode ≤ 0x4e then
      let hdr : Option (Nat × Nat) :=      -- (size, header bytes after the opcode)
        if opcode < 0x4c then some (opcode, 0)
        else if opcode = 0x4c then (if t.length < 1 then none else some (leVal (t.take 1), 1))
        else if opcode = 0x4d then (if t.length < 2 then none else some (leVal (t.take 2), 2))
        else (if t.length < 4 then none else some (leVal (t.take 4), 4))
      match hdr with
      | none => none
      | some (size, hl) =>
        if 1 + hl + size > b.length then none
        else some (opcode, (t.drop hl).take size, 1 + hl + size)
    else some (opcode, [], 1)

def decodeOP_N (opcode : Nat) : Nat := if opcode = 0 then 0 else opcode - 0x50

/-- `GetSigOpCount(scr, fAccurate)`; the loop stops at a parse error AND at OP_RETURN (0x6a). `fuel` ≥ length. -/
def sigOpLoop (accurate : Bool) : Nat → Bytes → Nat → Nat → Nat
  | 0, _, _, n => n
  | fuel+1, scr, last, n =>
    if scr.isEmpty then n else
    match getOpcode scr with
    | none => n
    | some (opcode, _, le) =>
      if opcode = 0x6a then n else
      let n' :=
        if opcode = 0xac ∨ opcode = 0xad then n + 1
        else if opcode = 0xae ∨ opcode = 0xaf then
          (if accurate ∧ 0x51 ≤ last ∧ last ≤ 0x60 then n + decodeOP_N last else n + MAX_PUBKEYS_PER_MULTISIG)
        else n
      sigOpLoop accurate fuel (scr.drop le) opcode n'

def getSigOpCount (scr : Bytes) (accurate : Bool) : Nat := sigOpLoop accurate scr.length scr 0xff 0

def isP2SH (d : Bytes) : Bool :=
  d.length = 23 ∧ d.getD 0 0 = 0xa9 ∧ d.getD 1 0 = 20 ∧ d.getD 22 0 = 0x87

/-- walks the whole scriptSig; `none` = `return 0`; else the data of the last opcode -/
def lastPush : Nat → Bytes → Bytes → Option Bytes
  | 0, _, data => some data
  | fuel+1, scr, data =>
    if scr.isEmpty then some data else
    match getOpcode scr with
    | none => none
    | some (opcode, d, le) => if opcode > 0x60 then none else lastPush fuel (scr.drop le) d

def getP2SHSigOpCount (scr : Bytes) : Nat :=
  match lastPush scr.length scr [] with
  | none => 0
  | some data => getSigOpCount data true

/-- `IsWitnessProgram`: `some (version, program)` when `program != nil` -/
def isWitnessProgram (scr : Bytes) : Option (Nat × Bytes) :=
  if scr.length < 4 ∨ scr.length > 42 then none else
  let b0 := (scr.getD 0 0).toNat
  if b0 ≠ 0 ∧ (b0 < 0x51 ∨ b0 > 0x60) then none else
  if (scr.getD 1 0).toNat + 2 = scr.length then some (decodeOP_N b0, scr.drop 2) else none

def witnessSigOps (ver : Nat) (prog : Bytes) (witness : List Bytes) : Nat :=
  if ver = 0 then
    if prog.length = 20 then 1
    else if prog.length = 32 ∧ witness.length > 0 then getSigOpCount (witness.getLastD []) true
    else 0
  else 0

def isPushOnly (scr : Bytes) : Bool := (lastPush scr.length scr []).isSome

/-- `Tx.CountWitnessSigOps(inp, scriptPubKey)` -/
def countWitnessSigOps (inp : TxIn) (pk : Bytes) : Nat :=
  match isWitnessProgram pk with
  | some (v, p) => witnessSigOps v p inp.witness
  | none =>
    if isP2SH pk ∧ isPushOnly inp.scriptSig then
      match lastPush inp.scriptSig.length inp.scriptSig [] with
      | some data =>
        (match isWitnessProgram data with
         | some (v, p) => witnessSigOps v p inp.witness
         | none => 0)
      | none => 0
    else 0

/-- `Tx.GetLegacySigOpCount` -/
def legacySigOps (tx : Tx) : Nat :=
  (tx.ins.map fun i => getSigOpCount i.scriptSig false).sum + (tx.outs.map fun o => getSigOpCount o.script false).sum

/-! ## lib/btc/tx.go — context-free checks -/

def OutPoint.isNull (p : OutPoint) : Bool := p.hash.all (· = 0) ∧ p.vout = 0xffffffff

def Tx.isCoinBase (tx : Tx) : Bool :=
  match tx.ins with
  | [i] => i.prev.isNull
  | _ => false

/-- the output-value loop added to CheckTransaction by the MoneyRange fix; `tot` is a uint64 -/
def checkOutValues : List TxOut → Nat → Except Err Unit
  | [], _ => .ok ()
  | o :: r, tot =>
    if o.value > MAX_MONEY then .error .voutTooLarge
    else
      let tot' := u64 (tot + o.value)
      if tot' > MAX_MONEY then .error .txoutTotal else checkOutValues r tot'

def checkTransaction (cfg : Cfg) (tx : Tx) : Except Err Unit := do
  if tx.ins.isEmpty then throw .vinEmpty
  if tx.outs.isEmpty then throw .voutEmpty
  if u32 (tx.noWitSize * 4) > MAX_BLOCK_WEIGHT then throw .oversize
  if cfg.moneyRange then checkOutValues tx.outs 0
  if tx.isCoinBase then
    let l := (tx.ins.headD default).scriptSig.length
    if l < 2 ∨ l > 100 then throw .cbLength
  else
    if tx.ins.any (·.prev.isNull) then throw .prevoutNull

def isFinal (tx : Tx) (height ts : Nat) : Bool :=
  if tx.lockTime = 0 then true
  else if tx.lockTime < LOCKTIME_THRESHOLD ∧ tx.lockTime < height then true
  else if tx.lockTime ≥ LOCKTIME_THRESHOLD ∧ tx.lockTime < ts then true
  else tx.ins.all (·.sequence = 0xffffffff)

/-- the part of `PostCheckBlock` that concerns the transactions (merkle / witness commitment / weight: C05) -/
def checkBlockTxs (cfg : Cfg) (b : Block) : Except Err Unit := do
  match b.txs with
  | [] => throw .cbMissing
  | cb :: rest =>
    if !cb.isCoinBase then throw .cbMissing
    if rest.any (·.isCoinBase) then throw .cbMultiple
  let bt := if b.csv then b.mtp else b.time
  b.txs.forM fun tx => do
    checkTransaction cfg tx
    if !isFinal tx b.height bt then throw .nonFinal

/-! ## lib/utxo — record level -/

/-- what `OneUtxoRec` returns (a `btc.TxOut` with the record's header fields) -/
structure Found where
  value : Nat
  script : Bytes
  height : Nat
  voutCount : Nat
  coinbase : Bool
  deriving Repr

def unspentGet (cfg : Cfg) (db : DB) (po : OutPoint) : Option Found :=
  match aGet db (key8 po.hash) with
  | none => none
  | some r =>
    if cfg.fullTxid ∧ r.txid ≠ po.hash then none else
    match r.outs.getD po.vout none with
    | none => none
    | some o => some ⟨o.value, o.script, r.height, r.outs.length, r.coinbase⟩

def clearOuts : List (Option TxOut) → List Bool → List (Option TxOut)
  | o :: os, rm :: rms => (if rm then none else o) :: clearOuts os rms
  | os, [] => os
  | [], _ => []          -- Go: index out of range (never: the map has the record's length)

/-- `UnspentDB.del` -/
def dbDel (cfg : Cfg) (db : DB) (h : Bytes) (outs : List Bool) : DB :=
  match aGet db (key8 h) with
  | none => db
  | some r =>
    if cfg.fullTxid ∧ r.txid ≠ h then db else
    let outs' := clearOuts r.outs outs
    if outs'.any Option.isSome then aSet db (key8 h) { r with outs := outs' } else aDel db (key8 h)

/-- `do_add` of `UnspentDB.commit` -/
def dbAdd (db : DB) (r : Rec) : DB := aSet db (key8 r.txid) r

/-! ## lib/chain/chain_accept.go — commitTxs -/

/-- the locals of commitTxs that survive one loop iteration -/
structure St where
  deled : List (Bytes × List Bool)                       -- changes.DeledTxs (key: FULL hash)
  blUnsp : List (Bytes × (Bool × List (Option TxOut)))   -- blUnsp (key: full hash; Bool = WasCoinbase of the outs)
  sigops : Nat                                           -- sigopscost (uint32)
  sumIn : Nat                                            -- sumblockin
  sumOut : Nat                                           -- sumblockout
  fees : Nat                                             -- totalfees (fixed code only)
  scriptBad : Bool                                       -- ver_err_cnt > 0
  deriving Repr

/-- `spent_map, was_spent := changes.DeledTxs[inp.Hash]` and the two tests that follow -/
def earlyCheck (spent : Option (List Bool)) (v : Nat) : Option Err :=
  match spent with
  | some m => if v ≥ m.length then some .voutTooBig else if m.getD v false then some .doubleSpend else none
  | none => none

/-- `tout == nil`: the coin must have been created earlier in this block (`blUnsp`) -/
def fromBlock (s : St) (h : Bytes) (v : Nat) : Except Err (St × Nat × Bytes) :=
  match aGet s.blUnsp h with
  | none => .error .unknownInput
  | some (cb, t) =>
    if v ≥ t.length then .error .voutTooBig2
    else match t.getD v none with
      | none => .error .alreadySpent
      | some o =>
        if cb then .error .ownCoinbase
        else .ok ({ s with blUnsp := aSet s.blUnsp h (cb, t.set v none) }, o.value, o.script)

/-- `tout != nil`: a confirmed coin; maturity, then the mark in DeledTxs -/
def fromDb (b : Block) (s : St) (h : Bytes) (v : Nat) (tout : Found) : Except Err (St × Nat × Bytes) :=
  if tout.coinbase ∧ sub32 b.height tout.height < COINBASE_MATURITY then .error .immature
  else
    let m := match aGet s.deled h with
      | some m => m
      | none => List.replicate tout.voutCount false
    .ok ({ s with deled := aSet s.deled h (m.set v true) }, tout.value, tout.script)

/-- the first half of one pass of the `for j := range tx.TxIn` loop: double-spend map, UnspentGet, else blUnsp;
    returns the updated locals, the value and the pk script of the coin being spent -/
def resolve (cfg : Cfg) (db : DB) (b : Block) (inp : TxIn) (s : St) : Except Err (St × Nat × Bytes) :=
  match earlyCheck (aGet s.deled inp.prev.hash) inp.prev.vout with
  | some e => .error e
  | none =>
    match unspentGet cfg db inp.prev with
    | none => fromBlock s inp.prev.hash inp.prev.vout
    | some tout => fromDb b s inp.prev.hash inp.prev.vout tout

/-- one pass of the `for j := range tx.TxIn` loop; `txinsum` is threaded separately -/
def procInput (cfg : Cfg) (db : DB) (b : Block) (inp : TxIn) (s : St) (txinsum : Nat) : Except Err (St × Nat) :=
  match resolve cfg db b inp s with
  | .error e => .error e
  | .ok (s1, value, pk) =>
    let so1 := if b.p2sh ∧ isP2SH pk then u32 (s1.sigops + u32 (WITNESS_SCALE_FACTOR * getP2SHSigOpCount inp.scriptSig)) else s1.sigops
    let so2 := if b.witness then u32 (so1 + u32 (countWitnessSigOps inp pk)) else so1
    let txinsum' := u64 (txinsum + value)
    if cfg.moneyRange ∧ (value > MAX_MONEY ∨ txinsum' > MAX_MONEY) then .error .inputRange
    else .ok ({ s1 with sigops := so2 }, txinsum')

def procInputs (cfg : Cfg) (db : DB) (b : Block) : List TxIn → St → Nat → Except Err (St × Nat)
  | [], s, a => .ok (s, a)
  | i :: r, s, a =>
    match procInput cfg db b i s a with
    | .error e => .error e
    | .ok (s', a') => procInputs cfg db b r s' a'

def sumOuts (outs : List TxOut) : Nat := outs.foldl (fun a o => u64 (a + o.value)) 0

/-- the input half of one pass of the `for i, tx := range bl.Txs` loop: legacy sigops, then either the coinbase
    script-length test or the input loop; returns the locals and `txinsum` -/
def txInputs (cfg : Cfg) (db : DB) (b : Block) (isCb : Bool) (tx : Tx) (s : St) : Except Err (St × Nat) :=
  let s0 := { s with sigops := u32 (s.sigops + u32 (WITNESS_SCALE_FACTOR * legacySigOps tx)) }
  if isCb then
    let l := (tx.ins.headD default).scriptSig.length
    if l < 2 ∨ l > 100 then .error .cbScriptLen else .ok (s0, 0)
  else
    match procInputs cfg db b tx.ins s0 0 with
    | .error e => .error e
    | .ok (s', a) => .ok ({ s' with scriptBad := s'.scriptBad || tx.ins.any (fun i => !i.scriptOk) }, a)

/-- the amount half: fee test and block totals (two shapes: before / after the MoneyRange fix) -/
def settle (cfg : Cfg) (isCb : Bool) (s1 : St) (txinsum txoutsum : Nat) : Except Err St :=
  if cfg.moneyRange then
    if isCb then .ok { s1 with sumOut := txoutsum }
    else if txoutsum > txinsum then .error .moreSpent
    else
      let fees := u64 (s1.fees + sub64 txinsum txoutsum)
      if fees > MAX_MONEY then .error .feeRange else .ok { s1 with fees := fees }
  else
    let s' := { s1 with sumIn := u64 (s1.sumIn + txinsum), sumOut := u64 (s1.sumOut + txoutsum) }
    if !isCb ∧ txoutsum > txinsum then .error .moreSpent else .ok s'

/-- one pass of the `for i, tx := range bl.Txs` loop -/
def procTx (cfg : Cfg) (db : DB) (b : Block) (isCb : Bool) (tx : Tx) (s : St) : Except Err St :=
  match txInputs cfg db b isCb tx s with
  | .error e => .error e
  | .ok (s1, txinsum) =>
    match settle cfg isCb s1 txinsum (sumOuts tx.outs) with
    | .error e => .error e
    | .ok s2 => .ok { s2 with blUnsp := aSet s2.blUnsp tx.txid (isCb, tx.outs.map some) }

def procTxs (cfg : Cfg) (db : DB) (b : Block) : Bool → List Tx → St → Except Err St
  | _, [], s => .ok s
  | first, tx :: r, s =>
    match procTx cfg db b first tx s with
    | .error e => .error e
    | .ok s' => procTxs cfg db b false r s'

def St.init (b : Block) : St :=
  { deled := [], blUnsp := [], sigops := 0, sumIn := getBlockReward b.height, sumOut := 0, fees := 0, scriptBad := false }

/-- `changes.AddList` -/
def addList (b : Block) (s : St) : List Rec :=
  s.blUnsp.filterMap fun (k, (cb, outs)) =>
    if outs.any Option.isSome then some { txid := k, height := b.height, coinbase := cb, outs := outs } else none

/-- the three tests after the loop: script failures, `sumblockin < sumblockout`, sigop cost -/
def finalChecks (cfg : Cfg) (s : St) : Except Err St :=
  if s.scriptBad then .error .scripts
  else if (if cfg.moneyRange then u64 (s.sumIn + s.fees) else s.sumIn) < s.sumOut then .error .cbTooMuch
  else if s.sigops > MAX_BLOCK_SIGOPS_COST then .error .sigops
  else .ok s

/-- `commitTxs`: final state of the locals (DeledTxs, blUnsp, sigopscost), or the error -/
def commitTxs (cfg : Cfg) (db : DB) (b : Block) : Except Err St :=
  match procTxs cfg db b true b.txs (St.init b) with
  | .error e => .error e
  | .ok s => finalChecks cfg s

/-- `UnspentDB.commit`: the deletions, then the additions (the goroutines touch disjoint keys unless two
    txids of the block / the set share their first 8 bytes) -/
def applyChanges (cfg : Cfg) (db : DB) (b : Block) (s : St) : DB :=
  let db1 := s.deled.foldl (fun d (kv : Bytes × List Bool) => dbDel cfg d kv.1 kv.2) db
  (addList b s).foldl dbAdd db1

/-- `CheckBlock` (transaction part) + `commitTxs` + `CommitBlockTxs`: new set and `cur.SigopsCost` -/
def connect (cfg : Cfg) (db : DB) (b : Block) : Except Err (DB × Nat) := do
  checkBlockTxs cfg b
  let s ← commitTxs cfg db b
  pure (applyChanges cfg db b s, s.sigops)

/-! ## Chain.AcceptBlock / CommitBlock on the head of the chain -/

/-- the observable chain state: unspent set, tip (`LastBlock()`), block index -/
structure Chain where
  db : DB
  tip : Bytes
  index : List Bytes
  deriving Repr

/-- `AcceptHeader` links the node into the index (`ch.BlockIndex[hash] = cur`); `CommitBlock` either applies the
    block and advances the head, or unlinks the node again (`delChild` + `delete(ch.BlockIndex, hash)`) and leaves
    everything else alone.  The index is a Go map: linking a hash twice keeps one entry, deleting removes it. -/
def acceptBlock (cfg : Cfg) (c : Chain) (b : Block) : Chain × Except Err Nat :=
  let linked := if b.hash ∈ c.index then c.index else b.hash :: c.index
  match connect cfg c.db b with
  | .ok (db', so) => ({ db := db', tip := b.hash, index := linked }, .ok so)
  | .error e => ({ c with index := linked.filter (· ≠ b.hash) }, .error e)

end GocoinV.Connect
