/-
  Model.ConnectScratch — the scratch pools of the compressed record serializer (lib/utxo/unspent_recc.go, SerializeC):

      var comp_val []uint64; var comp_scr [][]byte          // package level, indexed by OUTPUT INDEX
      pass 1   for i, r := range rec.Outs { if r != nil { comp_val[i] = CompressAmount(r.Value); comp_scr[i] = CompressScript(r.PKScr); le += … } }
      pass 2   for i, r := range rec.Outs { if r != nil { PutULe(i); PutULe(comp_val[i]); copy(comp_scr[i] …) } }

  UnspentDB.CommitBlockTxs serializes records from several goroutines at once (the undo writer, do_del, do_add); the
  pools are ONE pair of arrays for all of them.  Whether two serializations can interleave is a structural fact of the
  source (the scope of comp_pool_mutex inside SerializeC), regenerated on every run: `Gen.C04Facts.scratchUnderLock`.
  The model is generic in the element type (`β` = compressed amount × compressed script) and in the compressor `f`.
  Core-only.
-/
import GocoinV.Gen.C04Facts
namespace GocoinV.Scratch

/-- pass 1 from output index `i` on: every present output writes slot `i` of the pool -/
def pass1 {α β : Type} (f : α → β) : List (Option α) → Nat → List β → List β
  | [], _, pool => pool
  | none :: r, i, pool => pass1 f r (i + 1) pool
  | some a :: r, i, pool => pass1 f r (i + 1) (pool.set i (f a))

/-- pass 2: every present output reads slot `i` back -/
def pass2 {α β : Type} (d : β) : List (Option α) → Nat → List β → List (Nat × β)
  | [], _, _ => []
  | none :: r, i, pool => pass2 d r (i + 1) pool
  | some _ :: r, i, pool => (i, pool.getD i d) :: pass2 d r (i + 1) pool

/-- what the record must contain: (index, compressed output) for every present output -/
def expected {α β : Type} (f : α → β) : List (Option α) → Nat → List (Nat × β)
  | [], _ => []
  | none :: r, i => expected f r (i + 1)
  | some a :: r, i => (i, f a) :: expected f r (i + 1)

/-- the steps of two concurrent serializations A and B -/
inductive Step
  | a1 | a2 | b1 | b2
  deriving DecidableEq, Repr

structure St (β : Type) where
  pool : List β
  outA : List (Nat × β)
  outB : List (Nat × β)

def exec {α β : Type} (f : α → β) (d : β) (A B : List (Option α)) (s : St β) : Step → St β
  | .a1 => { s with pool := pass1 f A 0 s.pool }
  | .a2 => { s with outA := pass2 d A 0 s.pool }
  | .b1 => { s with pool := pass1 f B 0 s.pool }
  | .b2 => { s with outB := pass2 d B 0 s.pool }

def run {α β : Type} (f : α → β) (d : β) (A B : List (Option α)) (pool : List β) (sched : List Step) : St β :=
  sched.foldl (exec f d A B) ⟨pool, [], []⟩

/-- the six ways two two-step tasks can interleave -/
def interleavings : List (List Step) :=
  [[.a1, .a2, .b1, .b2], [.b1, .b2, .a1, .a2], [.a1, .b1, .a2, .b2], [.a1, .b1, .b2, .a2], [.b1, .a1, .a2, .b2], [.b1, .a1, .b2, .a2]]

/-- schedules the source allows: with the mutex held over both passes a serialization is atomic -/
def permitted (locked : Bool) (sched : List Step) : Bool :=
  if locked then sched = [.a1, .a2, .b1, .b2] || sched = [.b1, .b2, .a1, .a2] else interleavings.contains sched

end GocoinV.Scratch
