/-
  Model.PersistIdx — two small layers added in the round-4 pass, both parametrised by facts regenerated from the source
  (Gen/C07Facts.lean, go/cmd/gen_c07).  Core-only, executable (oracle_c07 ops `idx`, `closeg`).

  (1) THE INDEX FILE blockchain.new AS A FILE OF 136-BYTE RECORDS WITH POSITIONS.  Of a record the model keeps byte 0 (the flag
      byte) and bytes [28:32] (the data-file number, meaningful when BLOCK_INDEX is set).  Mirrors lib/chain/blockdb.go:
        LoadBlockIndex : maxidxfilepos = 0; for every complete record, in file order:
                           flagged BLOCK_INVALID  -> (maxidxfilepos += 136 — fact invalidRecordAdvances) ; continue
                           otherwise              -> ob.ipos = maxidxfilepos; the booleans / datfileidx decoded from the flag byte;
                                                     blockIndex[hash] = ob; maxidxfilepos += 136
                         blockindx.Seek(maxidxfilepos)             -- where the next record is written
        writeOne       : blockindx.Write(record) at the handle's position (= maxidxfilepos); rec.ipos = that position; += 136
        setBlockFlag   : b := byte read from the file at cur.ipos (fact flagRewriteSource = disk) | rebuilt from cur (memory);
                         b |= fl; WriteAt(b, cur.ipos)
      Histories: append / flag rewrite of a record the node holds / restart (= load).  What is proved (Proofs/C07Idx.lean):
      with the facts as the code has them, every record keeps every bit it was written with except that flags are added, keeps
      its data-file number, and after any restart the node's ipos of every valid record and its append position are the real ones.

  (2) WHAT Chain.Close LEAVES IN UTXO.db.  State: the block and height in memory, the dirty flag, the block and height of UTXO.db.
      Mirrors lib/utxo/unspent_db.go: CommitBlockTxs / UndoBlockTxs set DirtyDB; save() clears it and sets CurrentHeightOnDisk;
      Idle saves when dirty && LastBlockHeight - CurrentHeightOnDisk (uint32) > UTXO_SKIP_SAVE_BLOCKS; Close saves under the
      regenerated guard closeSaveGuard; a restart comes up at UTXO.db's block.
-/
import GocoinV.Gen.C07Facts
namespace GocoinV.Persist.Idx
open GocoinV.Gen.C07Facts

/-! ## (1) index file -/

structure IRec where
  flags : Nat
  file : Nat
deriving Repr, DecidableEq

def fTrusted : Nat := 1
def fInvalid : Nat := 2
def fComprsd : Nat := 4
def fSnapped : Nat := 8
def fLength : Nat := 16
def fIndex : Nat := 32

/-- what the node keeps in memory of a record (oneBl), as far as setBlockFlag and BlockGet use it -/
structure IMem where
  ipos : Nat
  trusted : Bool
  compressed : Bool
  snappied : Bool
  hasLen : Bool
  datfile : Nat
deriving Repr, DecidableEq

def isInvalid (r : IRec) : Bool := r.flags &&& fInvalid != 0

/-- the data file BlockGet opens for a record: bytes [28:32] when BLOCK_INDEX is set, else file 0 -/
def dataFileOf (r : IRec) : Nat := if r.flags &&& fIndex != 0 then r.file else 0

def memOf (pos : Nat) (r : IRec) : IMem :=
  { ipos := pos, trusted := r.flags &&& fTrusted != 0, compressed := r.flags &&& fComprsd != 0,
    snappied := r.flags &&& fSnapped != 0, hasLen := r.flags &&& fLength != 0, datfile := dataFileOf r }

/-- LoadBlockIndex's loop from position `pos`: (final position, records that enter the index, in file order) -/
def loadFrom (adv : Bool) : List IRec → Nat → Nat × List IMem
  | [], pos => (pos, [])
  | r :: rs, pos =>
    if isInvalid r then loadFrom adv rs (if adv then pos + 136 else pos)
    else ((loadFrom adv rs (pos + 136)).1, memOf pos r :: (loadFrom adv rs (pos + 136)).2)

/-- the flag byte rebuilt from the in-memory record (what a `memory` rewrite writes) -/
def memFlags (m : IMem) : Nat :=
  (if m.trusted then fTrusted else 0) ||| (if m.compressed then fComprsd else 0) |||
  (if m.snappied then fSnapped else 0) ||| (if m.hasLen then fLength else 0)

def modAt (f : IRec → IRec) : List IRec → Nat → List IRec
  | [], _ => []
  | r :: rs, 0 => f r :: rs
  | r :: rs, n + 1 => r :: modAt f rs n

/-- setBlockFlag -/
def rewriteAt (src : FlagSource) (idx : List IRec) (m : IMem) (fl : Nat) : List IRec :=
  modAt (fun r => { r with flags := (match src with | .disk => r.flags | .memory => memFlags m) ||| fl }) idx (m.ipos / 136)

/-- a write of one record through the file handle positioned at byte `pos`: replaces the record there, appends at the end -/
def writeAt (idx : List IRec) (pos : Nat) (r : IRec) : List IRec :=
  if pos / 136 < idx.length then modAt (fun _ => r) idx (pos / 136) else idx ++ [r]

structure ISt where
  disk : List IRec := []
  mems : List IMem := []   -- the records the node holds, in the order it got them
  pos : Nat := 0           -- maxidxfilepos = position of the index file handle
deriving Repr, DecidableEq

inductive IOp where
  | append (r : IRec)          -- writeOne
  | flag (i : Nat) (fl : Nat)  -- setBlockFlag on the i-th record the node holds
  | restart                    -- kill or clean shutdown, then LoadBlockIndex
deriving Repr, DecidableEq

def iopen (adv : Bool) (d : List IRec) : ISt :=
  { disk := d, mems := (loadFrom adv d 0).2, pos := (loadFrom adv d 0).1 }

def istep (src : FlagSource) (adv : Bool) (s : ISt) : IOp → ISt
  | .append r => { disk := writeAt s.disk s.pos r, mems := s.mems ++ [memOf s.pos r], pos := s.pos + 136 }
  | .flag i fl =>
    match s.mems[i]? with
    | none => s
    | some m => { s with disk := rewriteAt src s.disk m fl }
  | .restart => iopen adv s.disk

def irun (src : FlagSource) (adv : Bool) (d : List IRec) (ops : List IOp) : ISt :=
  ops.foldl (istep src adv) (iopen adv d)

/-- the bits of a record that no flag rewrite may touch, and its data-file number -/
def core (r : IRec) : Nat × Nat := (r.flags &&& (fComprsd ||| fSnapped ||| fLength ||| fIndex), r.file)

/-- positions (byte offsets from `pos`) of the records not flagged invalid -/
def validPos : List IRec → Nat → List Nat
  | [], _ => []
  | r :: rs, pos => if isInvalid r then validPos rs (pos + 136) else pos :: validPos rs (pos + 136)

/-- with the regenerated facts -/
def run (d : List IRec) (ops : List IOp) : ISt := irun flagRewriteSource invalidRecordAdvances d ops

/-! ## (2) what Close leaves in UTXO.db -/

structure CSt where
  tip : Nat := 0
  height : Nat := 0
  dirty : Bool := false
  dTip : Nat := 0
  dHeight : Nat := 0
deriving Repr, DecidableEq

inductive COp where
  | commit (b : Nat)        -- CommitBlockTxs of block b on the tip
  | undo (parent : Nat)     -- UndoBlockTxs: back to `parent`
  | idle (skip : Nat)       -- UnspentDB.Idle with UTXO_SKIP_SAVE_BLOCKS = skip (the snapshot it starts is completed)
  | restart                 -- Chain.Close, then NewChainExt
deriving Repr, DecidableEq

def saveNow (s : CSt) : CSt := { s with dTip := s.tip, dHeight := s.height, dirty := false }

/-- LastBlockHeight - CurrentHeightOnDisk in uint32 -/
def hdiff (s : CSt) : Nat := (s.height + 4294967296 - s.dHeight % 4294967296) % 4294967296

def closeWrites (g : CloseGuard) (s : CSt) : Bool :=
  match g with
  | .dirty => s.dirty
  | .dirtyAndHeightDiffers => s.dirty && hdiff s > 0

/-- `cd` / `ud`: CommitBlockTxs / UndoBlockTxs mark the set dirty (regenerated facts commitSetsDirty / undoSetsDirty) -/
def cstep (g : CloseGuard) (cd ud : Bool) (s : CSt) : COp → CSt
  | .commit b => { s with tip := b, height := s.height + 1, dirty := s.dirty || cd }
  | .undo p => { s with tip := p, height := s.height - 1, dirty := s.dirty || ud }
  | .idle skip => if s.dirty && hdiff s > skip then saveNow s else s
  | .restart =>
    let s := if closeWrites g s then saveNow s else s
    { s with tip := s.dTip, height := s.dHeight, dirty := false }

def crun (g : CloseGuard) (cd ud : Bool) (s : CSt) (ops : List COp) : CSt := ops.foldl (cstep g cd ud) s

/-- the states right BEFORE and right AFTER every restart of a history (what the harness compares: block and height) -/
def restartPairs (g : CloseGuard) (cd ud : Bool) : CSt → List COp → List ((Nat × Nat) × (Nat × Nat))
  | _, [] => []
  | s, .restart :: ops => ((s.tip, s.height), ((cstep g cd ud s .restart).tip, (cstep g cd ud s .restart).height)) :: restartPairs g cd ud (cstep g cd ud s .restart) ops
  | s, op :: ops => restartPairs g cd ud (cstep g cd ud s op) ops

end GocoinV.Persist.Idx
