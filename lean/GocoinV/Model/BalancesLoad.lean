/-
  Model.BalancesLoad — the byte-level path of wallet.LoadBalancesFromUtxo (client/wallet/onoff.go):
    * `utxo.NewUtxoRecStatic` (lib/utxo/unspent_rec.go): the decoder that REUSES one static record and two
      static arrays for every record of the scan: `rec_outs []*UtxoTxOut` (the slots handed out as `rec.Outs`),
      `rec_pool []UtxoTxOut` (the objects the slots point to) and `rec_idx` (next free pool object).
      `OutsList(cnt)` re-allocates both arrays when they are too short, resets `rec_idx` and nils the first
      `cnt` slots; `OneOut()` returns `&rec_pool[rec_idx]; rec_idx++`.  The static state is explicit here
      (`Static`) and is threaded through the whole load and from one load to the next (package-level variables).
      What the caller sees as `rec.Outs` is `Static.view`: the first `cnt` slots, each nil or the CURRENT content
      of the pool object it points to — so a slot that kept a pointer from an earlier record would show up as a
      phantom output (aliasing included).
    * both record formats: `NewUtxoRecOwnU` / `NewUtxoRecOwnC` with `cbs != nil`. The per-output parsing is
      C10's (imported, not copied): `vule`, `vlen`, `decScrC`, `AmountCompress.decompress`.
    * the scan loop with `FetchingBalanceTick` (abort path): `tick n` is the callback's answer after the n-th
      record; on abort `InitMaps(true)` empties the maps, the callbacks are not installed and WalletON stays false.
  All panics of the Go code (index out of range on slots / pool / record bytes) are the single outcome `panic`
  (`none` at load level): the order in which two panicking statements of one loop pass are written is not observable.
  Core-only.
-/
import GocoinV.Model.Balances
import GocoinV.Model.UtxoRec
namespace GocoinV.Model.BalancesLoad
open GocoinV GocoinV.CompactSize GocoinV.Model.Balances
open GocoinV.UtxoRec (Res decHeader decScrC maxOuts)

abbrev UOut := GocoinV.UtxoRec.Out
abbrev URec := GocoinV.UtxoRec.Rec

/-- one parsed output entry of a record body: (slot index, output, rest of the buffer); `none` = panic while parsing -/
abbrev Parser := Bytes → Option (Nat × UOut × Bytes)

/-- one pass of `NewUtxoRecOwnU`'s loop up to the stores -/
def entU : Parser := fun rest =>
  let a := vule rest
  let r1 := rest.drop a.2
  let b := vule r1
  let r2 := r1.drop b.2
  let c := vlen r2
  let r3 := r2.drop c.2
  if c.1 < 0 ∨ shorter r3 c.1.toNat then none
  else some (a.1, ⟨b.1, r3.take c.1.toNat⟩, r3.drop c.1.toNat)

/-- one pass of `NewUtxoRecOwnC`'s loop up to the stores -/
def entC (K : ScriptCompress.KeyOps) : Parser := fun rest =>
  let a := vule rest
  let r1 := rest.drop a.2
  let b := vule r1
  let r2 := r1.drop b.2
  match decScrC K r2 with
  | none => none
  | some (pk, nxt) => some (a.1, ⟨AmountCompress.decompress b.1, pk⟩, nxt)

/-- the decoding loop with `cbs == nil` (fresh `make([]*UtxoTxOut, n)`, `new(UtxoTxOut)`) over a parser -/
def genPure (P : Parser) : Nat → Bytes → List (Option UOut) → Res (List (Option UOut))
  | 0, rest, acc => if rest.isEmpty then .ok acc else .hang
  | f + 1, rest, acc =>
    if rest.isEmpty then .ok acc
    else match P rest with
      | none => .panic
      | some (i, o, nxt) =>
        if shorter acc (i + 1) then .panic else genPure P f nxt (acc.set i (some o))

/-- `NewUtxoRecOwn(dat, &rec, nil)` over a parser (= C10's `newRecU` / `newRecC`, proved in Proofs/C17Load) -/
def genRec (P : Parser) (dat : Bytes) : Res URec :=
  match decHeader dat with
  | none => .panic
  | some (txid, h, c, rest) =>
    if c / 2 > maxOuts then .panic
    else match genPure P rest.length rest (List.replicate (c / 2) none) with
      | .ok outs => .ok ⟨txid, h % 2 ^ 32, c % 2 == 1, outs⟩
      | .panic => .panic
      | .hang => .hang

/-! ### the static buffers -/

/-- `rec_outs` (nil or index of the pool object pointed to), `rec_pool`, `rec_idx`, `len(sta_rec.Outs)` -/
structure Static where
  slots : List (Option Nat)
  pool : List UOut
  idx : Nat
  cnt : Nat
deriving Repr

/-- package initialisation: `make(…, MAX_OUTS_SEEN)` -/
def Static.init (n : Nat) : Static := ⟨List.replicate n none, List.replicate n ⟨0, []⟩, 0, 0⟩

/-- `sta_cbs.OutsList(cnt)` -/
def outsList (st : Static) (cnt : Nat) : Static :=
  if st.slots.length < cnt then
    ⟨List.replicate cnt none, List.replicate cnt ⟨0, []⟩, 0, cnt⟩
  else
    ⟨List.replicate cnt none ++ st.slots.drop cnt, st.pool, 0, cnt⟩

/-- `rec.Outs[i] = cbs.OneOut(); rec.Outs[i].Value = …; rec.Outs[i].PKScr = …` (bounds checked by the caller) -/
def Static.put (st : Static) (i : Nat) (o : UOut) : Static :=
  { st with slots := st.slots.set i (some st.idx), pool := st.pool.set st.idx o, idx := st.idx + 1 }

/-- what `sta_rec.Outs` looks like to the caller -/
def Static.view (st : Static) : List (Option UOut) :=
  (st.slots.take st.cnt).map (fun p => p.bind (fun j => st.pool[j]?))

/-- the decoding loop with `cbs = &sta_cbs` -/
def genStatic (P : Parser) : Nat → Bytes → Static → Res Static
  | 0, rest, st => if rest.isEmpty then .ok st else .hang
  | f + 1, rest, st =>
    if rest.isEmpty then .ok st
    else match P rest with
      | none => .panic
      | some (i, o, nxt) =>
        if st.cnt < i + 1 then .panic                 -- rec.Outs[idx], len(rec.Outs) = cnt
        else if st.pool.length ≤ st.idx then .panic   -- &rec_pool[rec_idx]
        else genStatic P f nxt (st.put i o)

/-- `NewUtxoRecStatic(dat)`: the record as the caller sees it, and the static buffers afterwards -/
def staticDec (P : Parser) (dat : Bytes) (st : Static) : Res (URec × Static) :=
  match decHeader dat with
  | none => .panic
  | some (txid, h, c, rest) =>
    if c / 2 > maxOuts then .panic
    else match genStatic P rest.length rest (outsList st (c / 2)) with
      | .ok st' => .ok (⟨txid, h % 2 ^ 32, c % 2 == 1, st'.view⟩, st')
      | .panic => .panic
      | .hang => .hang

/-! ### LoadBalancesFromUtxo over the stored bytes -/

def toBalOut (o : UOut) : Out := ⟨o.value, o.pk⟩

/-- the record as `wallet.NewUTXO` reads it -/
def toBal (r : URec) : Rec := ⟨r.txid, r.inBlock, r.coinbase, r.outs.map (Option.map toBalOut)⟩

/-- the scan: `TxNotifyAdd(utxo.NewUtxoRecStatic(*v))`, then `FetchingBalanceTick()`; the 256 nested map loops are
    one list (the `aborted` flag leaves both). Result: maps, static buffers, aborted?  `none` = panic / hang. -/
def loadLoop (P : Parser) (cfg : Cfg) (H : Bytes → Nat) (tick : Nat → Bool) :
    List Bytes → Nat → Static → BalMap → Option (BalMap × Static × Bool)
  | [], _, st, bal => some (bal, st, false)
  | b :: rest, n, st, bal =>
    match staticDec P b st with
    | .ok (r, st') =>
      let bal' := newUTXO cfg H bal (toBal r)
      if tick (n + 1) then some (bal', st', true) else loadLoop P cfg H tick rest (n + 1) st' bal'
    | _ => none

/-- `wallet.LoadBalancesFromUtxo()` with the raw records of `Unspent.HashMap` in scan order -/
def loadFromUtxo (P : Parser) (H : Bytes → Nat) (tick : Nat → Bool) (s : State) (st : Static) (raw : List Bytes)
    (mn um : Nat) : Option (State × Static) :=
  if s.on then some (s, st)
  else
    let cfg : Cfg := { min := mn, useMapCnt := um }
    match loadLoop P cfg H tick raw 0 st [] with        -- InitMaps(false): empty maps
    | none => none
    | some (bal, st', aborted) =>
      if aborted then some ({ s with cfg := cfg, bal := [], on := false }, st')   -- InitMaps(true)
      else some ({ s with cfg := cfg, bal := bal, on := true }, st')

end GocoinV.Model.BalancesLoad
