/-
  Model.GroupApi (C08) — the byte-string API of lib/secp256k1 (ec.go: BaseMultiply / Multiply / BaseMultiplyAdd) with
  the glue below it (xy.go: set_b32_limit, XY.ParsePubkey, XY.GetPublicKey), statement by statement, over the limb
  models of Model.Group.

  The three functions report the point at infinity through their boolean result — the API's only carrier of the
  Infinity flag: `if r.Infinity { return false }` right after ECmultGen / ECmult / AddXY (the `fix:` commit for the
  findings api-basemultiply-identity / api-multiply-identity / api-basemultiplyadd-identity; before it they returned
  true and serialised the stale coordinates of the XYZ). `apiFinish` is that guard followed by SetXYZ + GetPublicKey.
  Core-only.
-/
import GocoinV.Model.Group
import GocoinV.Base.Secp

namespace GocoinV.C08
open GocoinV.Gen GocoinV.Gen.Field5x52

/-- `XY.GetPublicKey(out)` for `len(out) = 65` (`unc = true`: 04 ‖ X ‖ Y) resp. 33 (02/03 ‖ X): both coordinates are
    normalised first, the parity is read from the normalised Y -/
def XY.getPublicKey (pk : XY) (unc : Bool) : List Nat :=
  let x := normalize pk.x
  let y := normalize pk.y
  if unc then 4 :: (getB32 x ++ getB32 y)
  else (if isOdd y then 3 else 2) :: getB32 x

/-- `Field.set_b32_limit(a)` for a 32-byte slice: the limbs of `SetB32` and "the value is below p" -/
def setB32Limit (a : List Nat) : Fe × Bool := (setB32L a, decide (beVal a < P))

/-- `XY.ParsePubkey(pub)`: `none` = it returns false -/
def XY.parsePubkey (pub : List Nat) : Option XY :=
  let h := pub.headD 0
  if pub.length = 33 ∧ (h = 2 ∨ h = 3) then
    let (x, xok) := setB32Limit ((pub.drop 1).take 32)
    let e := XY.setXO x (h == 3)
    if !xok then none
    else if XY.isValid e then some e else none
  else if pub.length = 65 ∧ (h = 4 ∨ h = 6 ∨ h = 7) then
    let (x, xok) := setB32Limit ((pub.drop 1).take 32)
    let (y, yok) := setB32Limit ((pub.drop 33).take 32)
    let e : XY := { x := x, y := y, inf := false }
    if !xok || !yok then none
    else if (h = 6 ∨ h = 7) ∧ (isOdd y != (h == 7)) then none
    else if XY.isValid e then some e else none
  else none

/-- result of one API call: a Go panic, `false` (out untouched), or `true` with the bytes written to `out` -/
inductive ApiRes
  | panic
  | refused
  | ok (out : List Nat)
  deriving DecidableEq, Repr

/-- what the API must answer for the reference point `Q` (Base.Secp affine point, `none` = ∞): refuse the point at
    infinity, otherwise the SEC1 encoding of Q (02/03 ‖ x for a 33-byte buffer, 04 ‖ x ‖ y for a 65-byte one) -/
def apiRef (Q : Secp.Point) (unc : Bool) : ApiRes :=
  match Q with
  | none => .refused
  | some (x, y) => .ok (if unc then 4 :: (toB32 x ++ toB32 y) else (if y % 2 = 0 then 2 else 3) :: toB32 x)

/-- the common tail of the three functions: `if r.Infinity { return false }; pk.SetXYZ(&r); pk.GetPublicKey(out); return true` -/
def apiFinish (r : XYZ) (unc : Bool) : ApiRes :=
  if r.inf then .refused else .ok (XY.getPublicKey (XY.ofXYZ r) unc)

/-- `BaseMultiply(k, out)`; `k` = the value `Number.SetBytes` reads from the scalar bytes (any length) -/
def baseMultiply (k : Nat) (unc : Bool) : ApiRes := apiFinish (ecmultGen k) unc

/-- `if !pk.ParsePubkey(xy) { return false }` followed by the rest of the function -/
def withParsed (xy : List Nat) (f : XY → ApiRes) : ApiRes :=
  match XY.parsePubkey xy with
  | none => .refused
  | some pk => f pk

/-- `ECmult` panics (wNAF longer than 129 digits) or yields r -/
def withEcmult (o : Option XYZ) (f : XYZ → ApiRes) : ApiRes :=
  match o with
  | none => .panic
  | some r => f r

/-- `BaseMultiplyAdd(xy, k, out)`: out = k·G + xy -/
def baseMultiplyAdd (xy : List Nat) (k : Nat) (unc : Bool) : ApiRes :=
  withParsed xy fun pk => apiFinish (XYZ.addXY (ecmultGen k) pk) unc

/-- `Multiply(xy, k, out)`: out = k·xy (`ECmult(&xyz, &na, &nzero)`; a wNAF longer than 129 digits would panic) -/
def multiply (xy : List Nat) (k : Nat) (unc : Bool) : ApiRes :=
  withParsed xy fun pk => withEcmult (ecmult (XYZ.ofXY pk) (k : Int) 0) fun r => apiFinish r unc

end GocoinV.C08
