/-
  Model.Qdb — mirror of lib/others/qdb (db.go, db_disk.go, index.go, index_disk.go, membind.go)
  over an abstract file system. Core-only, total, executable (the oracle `oracle_c19` runs these
  definitions; the harness go/cmd/c19 compares them with the real package after every operation and at
  every crash point).

  What is modelled as what
  * The directory is `FS`: `<seq>.dat` files (association list seq ↦ bytes), `qdbidx.0`, `qdbidx.1`,
    `qdbidx.log`. Every change of the directory is an explicit `Effect` (= one completed system call that
    changes the directory: create/truncate, write at an offset, append, remove). The model state carries
    the list of effects emitted so far (`DB.effs`, each with the name of the `vhook.Point` that follows
    it in the Go code); a crash is "any prefix of that list applied to the initial directory".
    `fsync`, `close`, `seek`, `open` for reading change nothing in this crash model (process kill:
    completed syscalls survive, user-space buffers are lost) and emit nothing.
  * `bufio.Writer` (defrag's data writer and writedatfile's index writer, both 1 MiB) is modelled
    exactly (`bufWrite`/`bufFlush`): bytes reach the file only when the buffer overflows or is flushed.
    sync() writes records with direct `Write`s and the index log with ONE `Write` of a bytes.Buffer.
  * Go map iteration order (Index, PendingRecords) is the order of the association lists here; the
    harness only compares order-independent observations.
  * `os.Exit(1)` ("file … not found", "Database corrupt - missing file") and Go panics
    (nil `Slice()`, slice bounds in `load`) are the sticky `DB.failed`.
  * uint32 / uint64 fields wrap explicitly (`u32`, `add64`, `sub64`, `mul64`): `uint64(24+datlen)` is a uint32 addition,
    `uint64(perc)*DiskSpaceNeeded` a uint64 multiplication.
  * `DB.eager` is a GHOST field of the proofs: the real store and the oracle always have `eager = false` (then
    `ncOf eager = NO_CACHE` and every definition reads as the Go code). With `eager = true` the three places that
    test NO_CACHE (`freerec`, sync(), `load`) test a bit no 32-bit flag word has instead; Props/C19 relates the real
    run to that "eager ghost" run (same bytes written, every record kept in memory).
  * `load`'s slice `dat[pos:pos+len]` fails in the model when it exceeds the file's LENGTH (Go: its capacity — only
    more lenient; the path is proved unreachable).
  * BR_ABORT: a walk function is a list `w` of (key, result); `walkRes w k` is what it returns for k (0 for an unlisted
    key). When some entry of `w` carries BR_ABORT the ORDER of `w` says in which order Go's map iteration presents the
    listed keys: Browse visits the eligible listed keys (present, and browsable unless BrowseAll) up to and including the
    first one whose result carries BR_ABORT (`visitSet`), and nothing else — the aborting record included gets its
    browsing flags applied and is released (`freerec`) like every other visited record. Without a BR_ABORT entry every
    eligible record is visited and the order of `w` means nothing. Every visiting order / abort point Go can produce
    for a walk function is some `w`, and every `w` is one Go can produce.
  * Not modelled: the WalkFunction of NewDBExt (always nil here), membind wrappers
    (`membind_use_wrapper = false` in the build), `Flush()`, the statistics counters.
-/
import GocoinV.Base.Bytes
namespace GocoinV.Qdb

abbrev Key := Nat

def NO_BROWSE : Nat := 1
def NO_CACHE : Nat := 2
/-- a walk function's request to stop browsing after this record (see `visitSet`) -/
def BR_ABORT : Nat := 4
def YES_CACHE : Nat := 8
def YES_BROWSE : Nat := 16

/-- size of both bufio writers (`bufio.NewWriterSize(…, 0x100000)`) -/
def bufSize : Nat := 0x100000

def u32 (n : Nat) : Nat := n % 2^32
def add64 (a b : Nat) : Nat := (a + b) % 2^64
def sub64 (a b : Nat) : Nat := (a + 2^64 - b % 2^64) % 2^64
/-- `uint64(perc) * DiskSpaceNeeded` (wraps) -/
def mul64 (a b : Nat) : Nat := (a * b) % 2^64

def hasFlag (fl bit : Nat) : Bool := (fl / bit) % 2 == 1

/-- the flag bit that makes `freerec` / sync() / `load` drop or skip a record's data: NO_CACHE for the real store
    (`eager = false`); bit 40, which no 32-bit flag word has, for the eager ghost of the proofs -/
def ncOf (eager : Bool) : Nat := if eager then 2^40 else NO_CACHE
def setFlag (fl bit : Nat) : Nat := if hasFlag fl bit then fl else fl + bit
def clrFlag (fl bit : Nat) : Nat := if hasFlag fl bit then fl - bit else fl

/-! ## file system -/

structure FS where
  dats : List (Nat × Bytes) := []
  idx0 : Option Bytes := none
  idx1 : Option Bytes := none
  log  : Option Bytes := none
deriving Repr, DecidableEq

inductive Effect
  | createDat (seq : Nat)                    -- os.Create(<seq>.dat): create or truncate
  | writeDat (seq pos : Nat) (b : Bytes)     -- Write of b at file offset pos
  | removeDat (seq : Nat)
  | createIdx (i : Nat)                      -- os.Create(qdbidx.<i>)
  | appendIdx (i : Nat) (b : Bytes)
  | removeIdx (i : Nat)
  | createLog                                -- os.Create(qdbidx.log)
  | appendLog (b : Bytes)
  | removeLog
deriving Repr, DecidableEq

def dlookup (s : Nat) : List (Nat × Bytes) → Option Bytes
  | [] => none
  | (t, b) :: r => if t = s then some b else dlookup s r

def dset (s : Nat) (b : Bytes) : List (Nat × Bytes) → List (Nat × Bytes)
  | [] => [(s, b)]
  | (t, c) :: r => if t = s then (s, b) :: r else (t, c) :: dset s b r

def derase (s : Nat) : List (Nat × Bytes) → List (Nat × Bytes)
  | [] => []
  | (t, c) :: r => if t = s then derase s r else (t, c) :: derase s r

/-- write `b` at offset `pos` of `old` (zero fill when past the end, as a sparse file) -/
def writeAt (old : Bytes) (pos : Nat) (b : Bytes) : Bytes :=
  old.take pos ++ List.replicate (pos - old.length) 0 ++ b ++ old.drop (pos + b.length)

def FS.apply (fs : FS) : Effect → FS
  | .createDat s => { fs with dats := dset s [] fs.dats }
  | .writeDat s p b => match dlookup s fs.dats with
      | some old => { fs with dats := dset s (writeAt old p b) fs.dats }
      | none => fs
  | .removeDat s => { fs with dats := derase s fs.dats }
  | .createIdx i => if i = 0 then { fs with idx0 := some [] } else { fs with idx1 := some [] }
  | .appendIdx i b =>
      if i = 0 then { fs with idx0 := fs.idx0.map (· ++ b) } else { fs with idx1 := fs.idx1.map (· ++ b) }
  | .removeIdx i => if i = 0 then { fs with idx0 := none } else { fs with idx1 := none }
  | .createLog => { fs with log := some [] }
  | .appendLog b => { fs with log := fs.log.map (· ++ b) }
  | .removeLog => { fs with log := none }

def FS.applyAll (fs : FS) : List Effect → FS
  | [] => fs
  | e :: r => (fs.apply e).applyAll r

/-! ## records and state -/

structure Rec where
  data : Option Bytes     -- `oneIdx.data` (nil = not in memory)
  seq : Nat               -- DataSeq
  pos : Nat               -- datpos
  len : Nat               -- datlen
  flags : Nat
deriving Repr, DecidableEq

structure Opts where
  defragPerc : Nat := 50
  forcedPerc : Nat := 300
  maxPending : Nat := 2500
  maxPendingNoSync : Nat := 10000
deriving Repr, DecidableEq

structure DB where
  fs : FS
  effs : List (String × Effect) := []   -- every effect emitted so far, with the crash-point name after it
  index : List (Key × Rec) := []        -- Idx.Index
  pending : List Key := []              -- PendingRecords (a set)
  datOpen : Bool := false               -- db.LogFile != nil   (the open <DataSeq>.dat)
  lastPos : Nat := 0                    -- LastValidLogPos
  dataSeq : Nat := 0
  logOpen : Bool := false               -- Idx.file != nil     (the open qdbidx.log)
  datIdx : Nat := 0                     -- Idx.DatfileIndex
  verSeq : Nat := 0                     -- Idx.VersionSequence
  maxSeq : Nat := 0                     -- Idx.MaxDatfileSequence
  need : Nat := 0                       -- Idx.DiskSpaceNeeded
  extra : Nat := 0                      -- Idx.ExtraSpaceUsed
  noSync : Bool := false
  volatile : Bool := false
  opts : Opts := {}
  failed : Option String := none        -- "exit" (os.Exit(1)) or "panic"
  /-- GHOST field of the proofs, always `false` for the real store (the oracle never sets it): an "eager" store tests
      a flag bit that no 32-bit flag word has instead of NO_CACHE in `freerec`, sync() and `load`, i.e. it keeps every
      record's data in memory while writing exactly the same bytes. -/
  eager : Bool := false
deriving Repr

def emit (db : DB) (tag : String) (e : Effect) : DB :=
  { db with fs := db.fs.apply e, effs := db.effs ++ [(tag, e)] }

def fail (db : DB) (why : String) : DB :=
  match db.failed with
  | some _ => db
  | none => { db with failed := some why }

def ilookup {α : Type} (k : Key) : List (Key × α) → Option α
  | [] => none
  | (j, r) :: t => if j = k then some r else ilookup k t

def iset {α : Type} (k : Key) (r : α) : List (Key × α) → List (Key × α)
  | [] => [(k, r)]
  | (j, q) :: t => if j = k then (k, r) :: t else (j, q) :: iset k r t

def ierase {α : Type} (k : Key) : List (Key × α) → List (Key × α)
  | [] => []
  | (j, q) :: t => if j = k then t else (j, q) :: ierase k t

def padTo (n : Nat) (b : Bytes) : Bytes := b ++ List.replicate (n - b.length) 0

/-- `LoadData`: `make([]byte, datlen)`, Seek(datpos), one Read (a short read leaves zeros) -/
def readRec (file : Bytes) (r : Rec) : Bytes := padTo r.len ((file.drop r.pos).take r.len)

/-- the bytes a record stands for: its cached data, else what `loadrec` would read -/
def valueOf (fs : FS) (r : Rec) : Option Bytes :=
  match r.data with
  | some v => some v
  | none => (dlookup r.seq fs.dats).map (fun f => readRec f r)

/-! ## index in memory (index.go) -/

def memput (db : DB) (k : Key) (r : Rec) : DB :=
  let db := match ilookup k db.index with
    | some prv =>
      if db.volatile then db
      else { db with extra := add64 db.extra (u32 (24 + prv.len)), need := sub64 db.need (u32 (24 + prv.len)) }
    | none => db
  let db := { db with index := iset k r db.index }
  let db := if db.volatile then db else { db with need := add64 db.need (u32 (24 + r.len)) }
  if r.seq > db.maxSeq then { db with maxSeq := r.seq } else db

def memdel (db : DB) (k : Key) : DB :=
  match ilookup k db.index with
  | some cur =>
    let db := if db.volatile then db
      else { db with extra := add64 db.extra (u32 (12 + cur.len)), need := sub64 db.need (u32 (12 + cur.len)) }
    { db with index := ierase k db.index }
  | none => db

def applyBrowsingFlags (fl res : Nat) : Nat :=
  let fl := if hasFlag res NO_BROWSE then setFlag fl NO_BROWSE
            else if hasFlag res YES_BROWSE then clrFlag fl NO_BROWSE else fl
  if hasFlag res NO_CACHE then setFlag fl NO_CACHE
  else if hasFlag res YES_CACHE then clrFlag fl NO_CACHE else fl

/-- `freerec` drops the in-memory copy of a NO_CACHE record only when the record is on disk
    (`datpos != 0`). The shape of this guard is re-read from the source on every run
    (Gen/QdbFacts.freerecChecksDatpos, restated by Props.C19.model_matches_source_facts). -/
def freerec (eager : Bool) (r : Rec) : Rec :=
  if hasFlag r.flags (ncOf eager) && r.pos != 0 then { r with data := none } else r

/-! ## serialisation (index_disk.go) -/

def le32 (n : Nat) : Bytes := leBytes 4 n
def le64 (n : Nat) : Bytes := leBytes 8 n

/-- one 24-byte index record: key, datpos, datlen, DataSeq, flags -/
def encRec (k : Key) (r : Rec) : Bytes := le64 k ++ le32 r.pos ++ le32 r.len ++ le32 r.seq ++ le32 r.flags

def encDel (k : Key) : Bytes := le64 k ++ [0, 0, 0, 0]

def decRec (b : Bytes) : Key × Rec :=
  (leVal (b.take 8),
   { data := none, pos := leVal ((b.drop 8).take 4), len := leVal ((b.drop 12).take 4),
     seq := leVal ((b.drop 16).take 4), flags := leVal ((b.drop 20).take 4) })

/-- `read_and_check_file`: the sequence number when the file has the FFFFFFFF-seq-FINI trailer -/
def checkIdxFile (f : Option Bytes) : Option (Nat × Bytes) :=
  match f with
  | none => none
  | some d =>
    let le := d.length
    if le < 16 then none
    else if d.drop (le - 4) ≠ [0x46, 0x49, 0x4e, 0x49] then none
    else if leVal ((d.drop (le - 12)).take 4) ≠ 0xFFFFFFFF then none
    else
      let seq := leVal (d.take 4)
      if seq ≠ leVal ((d.drop (le - 8)).take 4) then none else some (seq, d)

/-- records of a snapshot body: `for pos:=4; pos+24<=len(d)-12; pos+=24` -/
def snapRecs : Nat → Bytes → List (Key × Rec)
  | 0, _ => []
  | n+1, b => decRec b :: snapRecs n (b.drop 24)

def snapshotRecs (d : Bytes) : List (Key × Rec) :=
  snapRecs ((d.length - 16) / 24) (d.drop 4)

inductive LogEntry
  | put (k : Key) (r : Rec)
  | del (k : Key)
deriving Repr, DecidableEq

/-- the loop of `loadlog` over the bytes after the 4-byte header -/
def parseLog : Nat → Bytes → List LogEntry
  | 0, _ => []
  | fuel+1, d =>
    if d.length < 12 then []
    else
      let k := leVal (d.take 8)
      let fpos := leVal ((d.drop 8).take 4)
      if fpos ≠ 0 then
        if d.length < 24 then []       -- "Unexpected END of file"
        else (LogEntry.put k (decRec d).2) :: parseLog fuel (d.drop 24)
      else LogEntry.del k :: parseLog fuel (d.drop 12)

/-! ## bufio.Writer -/

structure BufW where
  buf : Bytes := []
deriving Repr

/-- `bufio.Writer.Write(p)` in closed form; `sink` performs one Write syscall on the underlying file -/
def bufWrite (sink : DB → Bytes → DB) (db : DB) (w : BufW) (p : Bytes) : DB × BufW :=
  if p.length ≤ bufSize - w.buf.length then (db, { buf := w.buf ++ p })
  else if w.buf.isEmpty then (sink db p, w)                   -- large write, empty buffer: direct
  else
    let n := bufSize - w.buf.length
    let db := sink db (w.buf ++ p.take n)                     -- fill and flush
    let p := p.drop n
    if p.length > bufSize then (sink db p, { buf := [] })
    else (db, { buf := p })

def bufFlush (sink : DB → Bytes → DB) (db : DB) (w : BufW) : DB :=
  if w.buf.isEmpty then db else sink db w.buf

/-! ## disk part of the DB (db_disk.go) -/

/-- `DB.checklogfile`: create `<DataSeq>.dat` and write its 4-byte header -/
def checkDat (db : DB) : DB :=
  if db.datOpen then db
  else
    let db := emit db "qdb.checklogfile:created" (.createDat db.dataSeq)
    let db := emit db "qdb.checklogfile:header" (.writeDat db.dataSeq 0 (le32 db.dataSeq))
    { db with datOpen := true, lastPos := 4 }

/-- `QdbIndex.checklogfile`: create `qdbidx.log` and write the version sequence -/
def checkLog (db : DB) : DB :=
  if db.logOpen then db
  else
    let db := emit db "qdb.idx.checklogfile:created" .createLog
    let db := emit db "qdb.idx.checklogfile:header" (.appendLog (le32 db.verSeq))
    { db with logOpen := true }

/-- `loadrec` on one record: returns the record with its data in memory, or none (= os.Exit(1)) -/
def loadrec (fs : FS) (r : Rec) : Option Rec :=
  match r.data with
  | some _ => some r
  | none => match dlookup r.seq fs.dats with
    | none => none
    | some f => some { r with data := some (readRec f r) }

def insertSorted (s : Nat) : List Nat → List Nat
  | [] => [s]
  | t :: r => if s ≤ t then s :: t :: r else t :: insertSorted s r

def sortNat (l : List Nat) : List Nat := l.foldr insertSorted []

/-- `cleanupold`: remove every `<seq>.dat` that is neither the current one nor used
    (filepath.Walk visits names in lexical = numeric order) -/
def cleanupold (db : DB) (used : List Nat) : DB :=
  (sortNat (db.fs.dats.map (·.1))).foldl (fun db s =>
    if s ≠ db.dataSeq ∧ ¬ used.contains s then emit db "qdb.cleanupold:removed" (.removeDat s) else db) db

/-! ## writedatfile / defrag / sync (index_disk.go, db.go) -/

/-- a sequence of `Write` calls on one bufio.Writer -/
def bufWriteAll (sink : DB → Bytes → DB) (db : DB) (w : BufW) (ps : List Bytes) : DB × BufW :=
  ps.foldl (fun st p => bufWrite sink st.1 st.2 p) (db, w)

/-- the `binary.Write` / `Write` calls of writedatfile, in order -/
def idxWrites (index : List (Key × Rec)) (ver : Nat) : List Bytes :=
  [le32 ver] ++ index.flatMap (fun kr => [le64 kr.1, le32 kr.2.pos, le32 kr.2.len, le32 kr.2.seq, le32 kr.2.flags])
    ++ [[0xff, 0xff, 0xff, 0xff], le32 ver, [0x46, 0x49, 0x4e, 0x49]]

def idxSink (i : Nat) (db : DB) (b : Bytes) : DB := emit db "qdb.writedatfile:written" (.appendIdx i b)

def writedatfile (db : DB) : DB :=
  let db := { db with datIdx := 1 - db.datIdx, verSeq := u32 (db.verSeq + 1) }
  let i := db.datIdx
  let db := emit db "qdb.writedatfile:created" (.createIdx i)
  let st := bufWriteAll (idxSink i) db {} (idxWrites db.index db.verSeq)
  let db := bufFlush (idxSink i) st.1 st.2
  let db := { db with logOpen := false }
  let db := emit db "qdb.writedatfile:log-removed" .removeLog
  emit db "qdb.writedatfile:old-removed" (.removeIdx (1 - i))

/-- one step of defrag's browse: returns none when `loadrec` exits -/
def defragRec (sink : DB → Bytes → DB) (st : DB × BufW × List (Key × Rec)) (kr : Key × Rec) :
    DB × BufW × List (Key × Rec) :=
  let (db, w, acc) := st
  match db.failed with
  | some _ => st
  | none =>
    match loadrec db.fs kr.2 with
    | none => (fail db "exit", w, acc)
    | some r =>
      let fpos := db.lastPos
      let val := r.data.getD []
      let (db, w) := bufWrite sink db w val
      let db := { db with lastPos := db.lastPos + val.length }
      let r := freerec db.eager { r with pos := u32 fpos, seq := db.dataSeq }
      (db, w, acc ++ [(kr.1, r)])

/-- one Write syscall of defrag's bufio.Writer: the data file is written sequentially (from offset 4) -/
def defragSink (seq : Nat) (db : DB) (b : Bytes) : DB :=
  emit db "qdb.defrag:data-written" (.writeDat seq ((dlookup seq db.fs.dats).getD []).length b)

/-- the part of defrag after the browse: flush the data, write the index, clean up -/
def defragFinish (seq : Nat) (db : DB) (w : BufW) (recs : List (Key × Rec)) : DB :=
  let db := { db with index := recs }
  let db := bufFlush (defragSink seq) db w
  let db := writedatfile db
  let db := cleanupold db (if recs.isEmpty then [] else [seq])
  { db with extra := 0, pending := [] }

/-- the first step of defrag: next data file -/
def defragStart (db : DB) : DB := checkDat { db with dataSeq := u32 (db.dataSeq + 1), datOpen := false }

def defrag (db : DB) : DB :=
  let db := defragStart db
  let st := db.index.foldl (defragRec (defragSink db.dataSeq)) (db, ({} : BufW), [])
  match st.1.failed with
  | some _ => st.1
  | none => defragFinish db.dataSeq st.1 st.2.1 st.2.2

/-- sync() for one pending key whose record `rc` holds `val`: data to the dat file (direct Write),
    index entry to the bytes.Buffer, NO_CACHE data dropped -/
def syncRec (db : DB) (bidx : Bytes) (k : Key) (rc : Rec) (val : Bytes) : DB × Bytes :=
  let fpos := db.lastPos
  let seq := db.dataSeq
  let db := emit db "qdb.sync:data-written" (.writeDat seq fpos val)
  let rc := { rc with pos := u32 fpos, seq := seq }
  let rc' := if hasFlag rc.flags (ncOf db.eager) then { rc with data := none } else rc
  ({ db with lastPos := fpos + val.length, index := iset k rc' db.index }, bidx ++ encRec k rc)

/-- one pending key of sync() -/
def syncKey (st : DB × Bytes) (k : Key) : DB × Bytes :=
  match st.1.failed with
  | some _ => st
  | none =>
    match ilookup k st.1.index with
    | some rc =>
      match rc.data with
      | none => (fail st.1 "panic", st.2)          -- Slice() of a record without data: nil dereference
      | some val => syncRec st.1 st.2 k rc val
    | none => (st.1, st.2 ++ encDel k)

/-- the end of sync(): one Write of the collected index entries, then possibly a forced defrag -/
def syncFinish (db : DB) (bidx : Bytes) : DB :=
  let db := emit (checkLog db) "qdb.sync:log-written" (.appendLog bidx)
  let db := { db with pending := [] }
  if db.extra > mul64 db.opts.forcedPerc db.need / 100 then defrag db else db

def sync (db : DB) : DB :=
  if db.volatile then db
  else if db.pending.isEmpty then db
  else
    let st := db.pending.foldl syncKey (checkDat db, [])
    match st.1.failed with
    | some _ => st.1
    | none => syncFinish st.1 st.2

def syncneeded (db : DB) : Bool :=
  if db.volatile then false
  else if db.pending.length > db.opts.maxPendingNoSync then true
  else if !db.noSync && db.pending.length > db.opts.maxPending then true
  else false

/-! ## public operations (db.go) -/

def newRec (v : Bytes) (flags : Nat) : Rec :=
  { data := some v, seq := 0, pos := 0, len := u32 v.length, flags := flags }

/-- `db.PendingRecords[key] = true` -/
def addPending (db : DB) (k : Key) : DB :=
  if db.pending.contains k then db else { db with pending := db.pending ++ [k] }

def afterChange (db : DB) (k : Key) : DB :=
  if db.volatile then { db with noSync := true }
  else if syncneeded (addPending db k) then sync (addPending db k) else addPending db k

def putExt (db : DB) (k : Key) (v : Bytes) (flags : Nat) : DB :=
  if db.failed.isSome then db else afterChange (memput db k (newRec v flags)) k

def put (db : DB) (k : Key) (v : Bytes) : DB := putExt db k v 0

def del (db : DB) (k : Key) : DB :=
  if db.failed.isSome then db else afterChange (memdel db k) k

/-- `Get`: loadrec, YES_CACHE, hand out the slice -/
def get (db : DB) (k : Key) : DB × Option Bytes :=
  if db.failed.isSome then (db, none) else
  match ilookup k db.index with
  | none => (db, none)
  | some r =>
    match loadrec db.fs r with
    | none => (fail db "exit", none)
    | some r =>
      let r := { r with flags := applyBrowsingFlags r.flags YES_CACHE }
      ({ db with index := iset k r db.index }, r.data)

def walkRes (walk : List (Key × Nat)) (k : Key) : Nat :=
  match walk.find? (·.1 = k) with
  | some (_, f) => f
  | none => 0

/-- a record Browse (`all = false`) / BrowseAll (`all = true`) would hand to the walk function when it gets that far:
    the key is in the index and — for Browse — not flagged NO_BROWSE (flags at the start of the browse: a record's
    flags change only when it is visited itself) -/
def eligible {α : Type} (flagsOf : α → Nat) (all : Bool) (idx : List (Key × α)) (k : Key) : Bool :=
  match ilookup k idx with
  | some r => all || !hasFlag (flagsOf r) NO_BROWSE
  | none => false

/-- `none`: no live entry of the walk function asks for BR_ABORT — every eligible record is visited.
    `some l`: the keys visited before the browse stops — the eligible keys of `w`, in the order of `w`, up to and
    including the first whose result carries BR_ABORT. An entry is dead when its key is not eligible (the walk function
    is never asked about it) or was listed before (`walkRes` takes the first entry of a key). -/
def visitSetAux (el : Key → Bool) : List (Key × Nat) → List Key → Option (List Key)
  | [], _ => none
  | (k, f) :: t, seen =>
    if seen.contains k || !el k then visitSetAux el t seen
    else if hasFlag f BR_ABORT then some (k :: seen) else visitSetAux el t (k :: seen)

def visitSet {α : Type} (flagsOf : α → Nat) (all : Bool) (idx : List (Key × α)) (w : List (Key × Nat)) : Option (List Key) :=
  visitSetAux (eligible flagsOf all idx) w []

/-- the browse skips this record: flagged NO_BROWSE (Browse only), or the walk function has aborted before -/
def skipB (all : Bool) (vs : Option (List Key)) (fl : Nat) (k : Key) : Bool :=
  (!all && hasFlag fl NO_BROWSE) || (match vs with | none => false | some l => !l.contains k)

/-- the callback of `Browse` / `BrowseAll` for one index record, with a walk function that returns `walkRes walk k`
    for key k: loadrec, walk, aply_browsing_flags, freerec — for every visited record, the aborting one included
    (Gen/QdbFacts.browseAppliesBeforeAbort); `vs` is `visitSet` of the index the browse started on -/
def browseStep (all : Bool) (walk : List (Key × Nat)) (vs : Option (List Key))
    (st : DB × List (Key × Rec) × List (Key × Bytes))
    (kr : Key × Rec) : DB × List (Key × Rec) × List (Key × Bytes) :=
  let (db, acc, out) := st
  match db.failed with
  | some _ => st
  | none =>
    if skipB all vs kr.2.flags kr.1 then (db, acc ++ [kr], out)
    else match loadrec db.fs kr.2 with
      | none => (fail db "exit", acc ++ [kr], out)
      | some r =>
        let val := r.data.getD []
        let r := freerec db.eager { r with flags := applyBrowsingFlags r.flags (walkRes walk kr.1) }
        (db, acc ++ [(kr.1, r)], out ++ [(kr.1, val)])

def browseGen (all : Bool) (db : DB) (walk : List (Key × Nat)) : DB × List (Key × Bytes) :=
  if db.failed.isSome then (db, []) else
  let (db', idx, out) := db.index.foldl (browseStep all walk (visitSet Rec.flags all db.index walk)) (db, [], [])
  match db'.failed with
  | some _ => (db', out)
  | none => ({ db' with index := idx }, out)

def browse (db : DB) (walk : List (Key × Nat)) : DB × List (Key × Bytes) := browseGen false db walk

/-- `BrowseAll`: as Browse but NO_BROWSE records are visited too -/
def browseAll (db : DB) (walk : List (Key × Nat)) : DB × List (Key × Bytes) := browseGen true db walk

def applyFlags (db : DB) (k : Key) (fl : Nat) : DB :=
  if db.failed.isSome then db else
  match ilookup k db.index with
  | none => db
  | some r => { db with index := iset k { r with flags := applyBrowsingFlags r.flags fl } db.index }

def count (db : DB) : Nat := db.index.length

/-- `Defrag(force)`: returns whether a defragmentation was done -/
def defragOp (db : DB) (force : Bool) : DB × Bool :=
  if db.failed.isSome then (db, false) else
  if db.volatile then (db, false)
  else
    let doing := force || decide (db.extra > mul64 db.opts.defragPerc db.need / 100)
    if doing then (defrag db, true) else (db, false)

def noSyncOp (db : DB) : DB :=
  if db.failed.isSome then db else
  if db.volatile then db else { db with noSync := true }

def syncOp (db : DB) : DB :=
  if db.failed.isSome then db else
  if db.volatile then db else sync { db with noSync := false }

/-- `Close`: flush, then drop everything that is in memory -/
def close (db : DB) : DB :=
  if db.failed.isSome then db else
  let db := if db.volatile then (if db.noSync then defrag db else db) else sync db
  match db.failed with
  | some _ => db
  | none => { db with datOpen := false, logOpen := false, index := [], pending := [] }

/-! ## opening (NewDBExt, NewDBidx, loaddat, loadlog, load) -/

/-- `int32(s0 - s1) >= 0` -/
def seqNewerEq (s0 s1 : Nat) : Bool := (s0 + 2^32 - s1 % 2^32) % 2^32 < 2^31

/-- `loadneweridx`: which snapshot is used — (DatfileIndex, VersionSequence, content); the other file is removed -/
def pickIdx (fs : FS) : Option (Nat × Nat × Bytes) :=
  match checkIdxFile fs.idx0, checkIdxFile fs.idx1 with
  | none, none => none
  | some (s0, d0), some (s1, d1) => if seqNewerEq s0 s1 then some (0, s0, d0) else some (1, s1, d1)
  | none, some (s1, d1) => some (1, s1, d1)
  | some (s0, d0), none => some (0, s0, d0)

def memputAll (db : DB) (recs : List (Key × Rec)) : DB := recs.foldl (fun db kr => memput db kr.1 kr.2) db

def loaddat (db : DB) : DB × List Nat :=
  match pickIdx db.fs with
  | none => (db, [])
  | some (i, s, d) =>
    (memputAll { emit db "qdb.loadneweridx:removed" (.removeIdx (1 - i)) with datIdx := i, verSeq := s } (snapshotRecs d),
     (snapshotRecs d).map (·.2.seq))

def applyEntry (db : DB) : LogEntry → DB
  | .put k r => memput db k r
  | .del k => memdel db k

def applyLog (db : DB) (es : List LogEntry) : DB := es.foldl applyEntry db

def logSeqs (es : List LogEntry) : List Nat :=
  es.filterMap fun e => match e with | .put _ r => some r.seq | .del _ => none

/-- the header check of `loadlog`: `none` = the log is discarded. A log whose 4-byte header cannot be read
    is discarded too (`er != nil`; re-read from the source: Gen/QdbFacts.loadlogRejectsHeaderError). -/
def logBody (f : Bytes) (ver : Nat) : Option Bytes :=
  if f.length < 4 ∨ leVal (f.take 4) ≠ ver then none else some (f.drop 4)

def loadlog (db : DB) (used : List Nat) : DB × List Nat :=
  match db.fs.log with
  | none => (db, used)
  | some f =>
    match logBody f db.verSeq with
    | none => (emit db "qdb.loadlog:removed" .removeLog, used)
    | some body =>
      ({ applyLog db (parseLog body.length body) with logOpen := true }, used ++ logSeqs (parseLog body.length body))

/-- `QdbIndex.load(nil)` for one record: read the data of a record that is not NO_CACHE -/
def loadOne (st : DB × List (Key × Rec)) (kr : Key × Rec) : DB × List (Key × Rec) :=
  match st.1.failed with
  | some _ => st
  | none =>
    if hasFlag kr.2.flags (ncOf st.1.eager) then (st.1, st.2 ++ [kr])
    else match dlookup kr.2.seq st.1.fs.dats with
      | none => (fail st.1 "exit", st.2)                       -- "Database corrupt - missing file"
      | some f =>
        if u32 (kr.2.pos + kr.2.len) < kr.2.pos ∨ u32 (kr.2.pos + kr.2.len) > f.length then
          (fail st.1 "panic", st.2)                            -- slice bounds out of range
        else (st.1, st.2 ++ [(kr.1, { kr.2 with data := some ((f.drop kr.2.pos).take kr.2.len) })])

def loadAll (db : DB) : DB :=
  let st := db.index.foldl loadOne (db, [])
  match st.1.failed with
  | some _ => st.1
  | none => { st.1 with index := st.2 }

/-- `NewDBidx`: loaddat, loadlog, cleanupold (db.DataSeq is still 0 here) -/
def openIndex (db : DB) : DB :=
  let a := loaddat db
  let b := loadlog a.1 a.2
  cleanupold b.1 b.2

/-- `NewDBExt` on the directory `fs` -/
def openDB (fs : FS) (volatile load : Bool) (opts : Opts) (eager : Bool := false) : DB :=
  let db := openIndex { fs := fs, volatile := volatile, opts := opts, eager := eager }
  let db := if load then loadAll db else db
  { db with dataSeq := u32 (db.maxSeq + 1) }

/-! ## operations as data (the refinement / crash theorems quantify over lists of these) -/

inductive Op
  | put (k : Key) (v : Bytes)
  | putExt (k : Key) (v : Bytes) (flags : Nat)
  | del (k : Key)
  | get (k : Key)
  | browse (walk : List (Key × Nat))
  | applyFlags (k : Key) (fl : Nat)
  | defrag (force : Bool)
  | sync
  | noSync
  | reopen (volatile load : Bool) (opts : Opts)   -- Close, then NewDBExt on the same directory
deriving Repr, DecidableEq

def step (db : DB) : Op → DB
  | .put k v => put db k v
  | .putExt k v f => putExt db k v f
  | .del k => del db k
  | .get k => (get db k).1
  | .browse w => (browse db w).1
  | .applyFlags k f => applyFlags db k f
  | .defrag f => (defragOp db f).1
  | .sync => syncOp db
  | .noSync => noSyncOp db
  | .reopen vol load opts =>
    let c := close db
    match c.failed with
    | some _ => c
    | none => { openDB c.fs vol load opts c.eager with effs := c.effs ++ (openDB c.fs vol load opts c.eager).effs }

def run (db : DB) (ops : List Op) : DB := ops.foldl step db

/-- the directory after a crash that let exactly the first `n` effects of `db` complete -/
def crashFS (fs0 : FS) (db : DB) (n : Nat) : FS := fs0.applyAll ((db.effs.take n).map (·.2))

/-! ## histories that continue after a crash -/

/-- the file operations `op` performs in state `db`, in order -/
def opEffs (db : DB) (op : Op) : List Effect := ((step db op).effs.drop db.effs.length).map (·.2)

/-- the directory left by a process that died inside `op` after exactly `n` of its file operations
    (`n = 0`: before the first one; `n ≥` their number: after the last one) -/
def crashDir (db : DB) (op : Op) (n : Nat) : FS := db.fs.applyAll ((opEffs db op).take n)

/-- crashes inside successive recovery attempts: each NewDBExt(non-volatile, LoadData) on the directory dies after
    `m` of its own file operations (removal of the older index file, of a discarded log, of unused data files) -/
def recrash (opts : Opts) (F : FS) : List Nat → FS
  | [] => F
  | m :: t => recrash opts (F.applyAll (((openDB F false true opts).effs.map (·.2)).take m)) t

inductive HItem
  | op (o : Op)
  /-- the process dies inside `o` after `n` file operations; then recovery attempts that die inside NewDBExt after
      `ms` of its file operations; then NewDBExt(volatile or not, LoadData, opts) that completes -/
  | crash (o : Op) (n : Nat) (ms : List Nat) (vol : Bool) (opts : Opts)
deriving Repr

def hstep (db : DB) : HItem → DB
  | .op o => step db o
  | .crash o n ms vol opts => openDB (recrash opts (crashDir db o n) ms) vol true opts db.eager

def hrun (db : DB) (H : List HItem) : DB := H.foldl hstep db

end GocoinV.Qdb
