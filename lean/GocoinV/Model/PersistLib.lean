/-
  Model.PersistLib — three mechanisms of the start-up / snapshot path that Model/Persist.lean abstracts away, each as a small
  model of its own whose parameter is a FACT regenerated from the source by go/cmd/gen_c07 (Gen/C07Facts.lean):

    * the last step of NewChainExt in LIBRARY mode (DoNotRescan = false): "if <guard> { ParseTillBlock(end) }" with
      end = FindFarthestNode — `libraryTail`, parameter `ReapplyGuard` (the farthest block is strictly HIGHER than the
      snapshot's block | it merely DIFFERS from it). ParseTillBlock can only walk forward: FindPathTo panics when the target is
      not higher than, or not a descendant of, the current block.
    * the lock file <datadir>/.lock of the client's start-up path (client/init.go host_init → sys.LockDatabaseDir before
      NewChainExt; sys.UnlockDatabaseDir after a clean shutdown only) — `lockStart`, parameter `LockOpenMode`.
    * the snapshot writer WALKS the 256 maps of the unspent set while it holds the read locks of the maps it has walked; a
      goroutine that changes the set while a snapshot is being written changes what the writer still has to walk —
      `LSt`/`lstep`, parameters `undoAborts` / `commitAborts` (the mutator aborts the running snapshot first).
  Core-only, executable.
-/
import GocoinV.Model.PersistSpec
import GocoinV.Gen.C07Facts
namespace GocoinV.Persist
open GocoinV.Gen.C07Facts (ReapplyGuard LockOpenMode)

/-! ### NewChainExt's last step (library mode) -/

/-- does NewChainExt call ParseTillBlock(end)? -/
def reapplyWanted (g : ReapplyGuard) (s : St) : Bool :=
  match g with
  | .higher => (farthest s.n).2.1 > s.n.tipHeight
  | .differs => (farthest s.n).1 != s.n.tip

/-- `end, _ := FindFarthestNode(); if <guard> { if !DoNotRescan { ParseTillBlock(end) } }` with DoNotRescan = false.
    FindPathTo: "end block is not higher then current" / "unknown path to block". -/
def libraryTail (g : ReapplyGuard) (s : St) : St :=
  if !reapplyWanted g s then s
  else if (farthest s.n).2.1 ≤ s.n.tipHeight then s.fail "end block is not higher then current"
  else match pathUp s.n (fuelOf s.n) s.n.tip (farthest s.n).1 [] with
    | none => s.fail "unknown path to block"
    | some p => parsePath s p

/-- NewChainExt in library mode on a directory -/
def libraryOpen (g : ReapplyGuard) (d : Disk) (bigs : List Coin) : Except String St :=
  match openNode d bigs 0 with
  | .error e => .error e
  | .ok s =>
    let s' := libraryTail g s
    match s'.err with
    | some e => .error e
    | none => .ok s'

/-- Go's map iteration decides in which order loadBlockIndex attaches the children of a node, i.e. which of two equally high
    leaves FindFarthestNode meets first: the same node with its tree listed in another order -/
def withTree (s : St) (tree : List TNode) : St := { s with n := { s.n with tree := tree } }

/-- a directory with a stale sibling of the tip: block 1, A on it (snapshot), B1 on block 1 as well (stored aside), closed -/
def siblingOps : List Op := [.submit b1, .submit bA, .idle, .submit bB1, .idle, .close]

/-- what the stale-sibling directory shows: as loaded (index order: the tip before its sibling) both guards leave the node alone;
    with the tree listed the other way round FindFarthestNode returns the sibling: the "differs" guard calls ParseTillBlock, which
    panics; the "higher" guard still leaves the node alone -/
def siblingShows : Bool :=
  match openNode (run [] siblingOps).d [] 0 with
  | .ok s1 =>
    let r := withTree s1 s1.n.tree.reverse
    s1.n.tip == 2 && (farthest s1.n).1 == 2 && (farthest r.n).1 == 3 &&
    (libraryTail .differs s1).err == none && (libraryTail .higher s1).err == none &&
    (libraryTail .differs r).err == some "end block is not higher then current" &&
    (libraryTail .higher r).err == none && (libraryTail .higher r).n.tip == 2 && (libraryTail .higher r).es.length == s1.es.length
  | .error _ => false

/-! ### the lock file -/

inductive LEvent
  | start        -- a fresh process calls LockDatabaseDir (no other instance is alive)
  | crash        -- the process is killed: nothing is cleaned up
  | stop         -- clean shutdown: UnlockDatabaseDir removes the file
deriving Repr, DecidableEq

structure LockSt where
  file : Bool := false      -- <datadir>/.lock exists
  running : Bool := false
  refused : Bool := false   -- some start ended in "Could not lock the databse folder" (exit status 1)
deriving Repr, DecidableEq

/-- LockDatabaseDir of a process that is alone: does it get the lock? (flock succeeds: nobody holds the file) -/
def lockStart (m : LockOpenMode) (file : Bool) : Bool :=
  match m with
  | .openOrCreate => true          -- os.Open, else os.Create
  | .removeThenExcl => true        -- os.Remove, then O_CREATE|O_EXCL
  | .createExcl => !file           -- O_CREATE|O_EXCL on whatever is there

def lockStep (m : LockOpenMode) (s : LockSt) : LEvent → LockSt
  | .start => if s.running then s else
      if lockStart m s.file then { s with file := true, running := true } else { s with refused := true }
  | .crash => { s with running := false }
  | .stop => if s.running then { s with running := false, file := false } else s

def lockRun (m : LockOpenMode) (es : List LEvent) : LockSt := es.foldl (lockStep m) {}

/-! ### the snapshot writer walks the maps -/

/-- a record of the unspent set: the map it lives in (first byte of the txid) and its identity -/
structure LRec where
  map : Nat
  id : Nat
deriving Repr, DecidableEq

structure LSave where
  tip : Nat              -- header: block the snapshot is written for …
  count : Nat            -- … and its number of records, both fixed when the save starts
  next : Nat             -- maps < next have been walked (and stay read-locked until the writer returns)
  written : List LRec
deriving Repr, DecidableEq

structure LFile where
  tip : Nat
  count : Nat
  recs : List LRec
deriving Repr, DecidableEq

structure LSt where
  tip : Nat := 0
  recs : List LRec := []
  save : Option LSave := none
  db : Option LFile := none                  -- UTXO.db
  held : List (Nat × List LRec) := [(0, [])] -- ghost: every (tip, set) the node has held at an operation boundary
deriving Repr

inductive LOp
  | saveStart                                   -- UnspentDB.save: header written
  | saveStep                                    -- the writer walks the next map
  | saveFinish                                  -- it walks the remaining maps, the file is renamed to UTXO.db
  | commit (tip : Nat) (del add : List LRec)    -- CommitBlockTxs
  | undo (tip : Nat) (del add : List LRec)      -- UndoBlockTxs (del = the block's records, add = the undo file's)
deriving Repr

def walkMap (recs : List LRec) (m : Nat) : List LRec := recs.filter (·.map == m)

def walkFrom (recs : List LRec) (m : Nat) : Nat → List LRec
  | 0 => []
  | k + 1 => walkMap recs m ++ walkFrom recs (m + 1) k

def mutate (s : LSt) (aborts : Bool) (tip : Nat) (del add : List LRec) : LSt :=
  let s := if aborts then { s with save := none } else s       -- abortWriting: the tmp file is removed
  let recs := s.recs.filter (fun r => !del.contains r) ++ add
  -- a change of a map the writer has walked waits for the writer to return: it lands after the file is complete, so for the
  -- file only the maps still to be walked matter - they are read when the writer gets there
  { s with tip := tip, recs := recs, held := (tip, recs) :: s.held }

/-- `nmaps` = number of maps (256 in the code) -/
def lstep (nmaps : Nat) (undoAborts commitAborts : Bool) (s : LSt) : LOp → LSt
  | .saveStart => if s.save.isSome then s else
      { s with save := some { tip := s.tip, count := s.recs.length, next := 0, written := [] } }
  | .saveStep => match s.save with
      | none => s
      | some sv => if sv.next < nmaps then
          { s with save := some { sv with next := sv.next + 1, written := sv.written ++ walkMap s.recs sv.next } } else s
  | .saveFinish => match s.save with
      | none => s
      | some sv => { s with save := none, db := some { tip := sv.tip, count := sv.count, recs := sv.written ++ walkFrom s.recs sv.next (nmaps - sv.next) } }
  | .commit tip del add => mutate s commitAborts tip del add
  | .undo tip del add => mutate s undoAborts tip del add

def lrun (nmaps : Nat) (undoAborts commitAborts : Bool) (ops : List LOp) : LSt := ops.foldl (lstep nmaps undoAborts commitAborts) {}

/-- the walk of all `nmaps` maps of a set -/
def walkAll (recs : List LRec) (nmaps : Nat) : List LRec := walkFrom recs 0 nmaps

/-- UTXO.db is a state the node held: the header's block with exactly the walk of that block's set, and the header's count -/
def fileHeld (nmaps : Nat) (s : LSt) : Bool :=
  match s.db with
  | none => true
  | some f => s.held.any (fun h => h.1 == f.tip && f.recs == walkAll h.2 nmaps && f.count == h.2.length)

/-- the history of the seeded change: two records in map 200 (the block's own) and one in map 100 (spent by it); the snapshot of
    block 2 starts, walks map 0, block 2 is undone, the writer finishes -/
def lazyWitness : List LOp :=
  [.commit 1 [] [⟨100, 1⟩], .commit 2 [⟨100, 1⟩] [⟨200, 2⟩, ⟨200, 3⟩], .saveStart, .saveStep,
   .undo 1 [⟨200, 2⟩, ⟨200, 3⟩] [⟨100, 1⟩], .saveFinish]

end GocoinV.Persist
