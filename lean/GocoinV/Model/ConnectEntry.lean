/-
  Model.ConnectEntry — how the *btc.Block OBJECT that commitTxs walks got its transaction list (lib/btc/block.go):

      BuildTxList() = BuildTxListExt(true)   Chain.CheckBlock / PostCheckBlock, ParseTillBlock (re-organisations, start-up),
                                             every tool: parses, hashes in worker goroutines, marks the coinbase outputs
      BuildTxListExt(false)                  client/main.go get_block_from_disk_cache: a block parked in the client's disk
                                             cache is parsed WITHOUT hashing (the hashes come back from a side file) and
                                             that object goes to Chain.CommitBlock

  commitTxs copies `TxOut.WasCoinbase` of the list's outputs into `UtxoRec.Coinbase` of the records it adds
  (`rec.Coinbase = v[i].WasCoinbase`) and refuses to spend a block's own coinbase by the same field; Model/Connect.lean
  writes that flag as "is the first transaction of the block" (`procTxs … first`).  Whether the list really carries the
  mark on BOTH roads is a structural fact of BuildTxListExt, regenerated from the source on every run
  (`Gen.C04Facts.txListMarksCoinbaseHashed/Plain`, go/cmd/gen_c04).  Core-only.
-/
import GocoinV.Model.Connect
import GocoinV.Gen.C04Facts
namespace GocoinV.Connect

/-- which call built `bl.Txs` -/
inductive ListBuild
  | hashed   -- BuildTxList / BuildTxListExt(true)
  | plain    -- BuildTxListExt(false)
  deriving DecidableEq, Repr

structure ListCfg where
  marksHashed : Bool
  marksPlain : Bool
  deriving DecidableEq, Repr

/-- what /repo contains now -/
def ListCfg.current : ListCfg := ⟨Gen.C04Facts.txListMarksCoinbaseHashed, Gen.C04Facts.txListMarksCoinbasePlain⟩

/-- `TxOut.WasCoinbase` of the outputs of transaction number `i` of a list built by `how` -/
def wasCoinbase (cfg : ListCfg) (how : ListBuild) (i : Nat) : Bool :=
  i == 0 && (match how with
    | .hashed => cfg.marksHashed
    | .plain => cfg.marksPlain)

/-- the record commitTxs adds for transaction number `i` (`rec.Coinbase = v[i].WasCoinbase`, `rec.InBlock = height`) -/
def recOfListed (cfg : ListCfg) (how : ListBuild) (height i : Nat) (txid : Bytes) (outs : List (Option TxOut)) : Rec :=
  { txid := txid, height := height, coinbase := wasCoinbase cfg how i, outs := outs }

end GocoinV.Connect
