/-
  Model.Base58Str — HOW `Decodeb58` READS THE TYPED STRING (lib/btc/addr.go).

  `Model.Base58` treats a Go string as the list of its bytes. The digit loop of `Decodeb58` is written
  `for i := range s { v := b58chr2int(byte(s[i])) … }`: `range` over a STRING does not visit every byte, it decodes
  UTF-8 and visits the first byte of every code point (an invalid byte counts as the code point U+FFFD of width 1).
  This file models that statement as it is written, in the variants a rewrite can produce, selected by two facts
  regenerated from the source on every run (Gen/C15Str.lean, go/cmd/gen_c15/strloop.go):

    b58DecodeRangesString : the digit loop is a `range` over the string (or over `[]rune(s)`): positions = code points
    b58DecodeLookup       : what is looked up in the alphabet at such a position —
                            0 the byte `s[i]`, 1 the code point narrowed to 8 bits (`byte(c)`), 2 the code point itself
                            (every use a comparison / index / switch at full width), 3 the code point used in a way
                            the extractor does not classify (handed to a callee, converted, stored) — modelled like 1,
                            the worst case

  Proofs/C15Str.lean proves that for lookup 0 and 2 the loop computes `Base58.value?` (the bytewise model all other
  theorems are about) and that for lookup 1 (and 3, which is modelled the same) it does not. `decodeRune` is tied to Go's `range` by the harness
  (oracle op `runes`).
-/
import GocoinV.Model.Base58
import GocoinV.Gen.C15Str
namespace GocoinV.Base58Str
open GocoinV.Base58

/-- UTF-8 continuation byte -/
def cont (b : Nat) : Bool := decide (0x80 ≤ b) && decide (b ≤ 0xBF)

/-- `utf8.DecodeRuneInString` as the `range` statement uses it: (code point, width) for the bytes at the current
    position; anything that is not a shortest-form encoding of a scalar value is (U+FFFD, 1). -/
def decodeRune : Bytes → Nat × Nat
  | [] => (0xFFFD, 1)
  | c0 :: t =>
    let b0 := c0.toNat
    if b0 < 0x80 then (b0, 1)
    else if 0xC2 ≤ b0 ∧ b0 ≤ 0xDF then
      match t with
      | c1 :: _ => if cont c1.toNat then ((b0 % 32) * 64 + c1.toNat % 64, 2) else (0xFFFD, 1)
      | _ => (0xFFFD, 1)
    else if 0xE0 ≤ b0 ∧ b0 ≤ 0xEF then
      match t with
      | c1 :: c2 :: _ =>
        let lo := if b0 = 0xE0 then 0xA0 else 0x80
        let hi := if b0 = 0xED then 0x9F else 0xBF
        if lo ≤ c1.toNat ∧ c1.toNat ≤ hi ∧ cont c2.toNat then
          ((b0 % 16) * 4096 + (c1.toNat % 64) * 64 + c2.toNat % 64, 3)
        else (0xFFFD, 1)
      | _ => (0xFFFD, 1)
    else if 0xF0 ≤ b0 ∧ b0 ≤ 0xF4 then
      match t with
      | c1 :: c2 :: c3 :: _ =>
        let lo := if b0 = 0xF0 then 0x90 else 0x80
        let hi := if b0 = 0xF4 then 0x8F else 0xBF
        if lo ≤ c1.toNat ∧ c1.toNat ≤ hi ∧ cont c2.toNat ∧ cont c3.toNat then
          ((b0 % 8) * 262144 + (c1.toNat % 64) * 4096 + (c2.toNat % 64) * 64 + c3.toNat % 64, 4)
        else (0xFFFD, 1)
      | _ => (0xFFFD, 1)
    else (0xFFFD, 1)

/-- the (position, code point) pairs `for i, c := range s` yields; `skip` = bytes of the current code point left -/
def runesFrom : Bytes → Nat → Nat → List (Nat × Nat)
  | [], _, _ => []
  | _ :: t, skip + 1, pos => runesFrom t skip (pos + 1)
  | c :: t, 0, pos =>
    let rw := decodeRune (c :: t)
    (pos, rw.1) :: runesFrom t (rw.2 - 1) (pos + 1)

def runes (s : Bytes) : List (Nat × Nat) := runesFrom s 0 0

/-- the alphabet lookup at a position where the byte is `c` and the code point is `r` -/
def lookupOf (lookup : Nat) (c : UInt8) (r : Nat) : Option Nat :=
  if lookup = 0 then chr2int c
  else if lookup = 2 then (if r < 256 then chr2int (UInt8.ofNat r) else none)
  else chr2int (UInt8.ofNat (r % 256))

/-- the digit loop over the code points of the string -/
def valueR (lookup : Nat) : Bytes → Nat → Nat → Option Nat
  | [], _, acc => some acc
  | _ :: t, skip + 1, acc => valueR lookup t skip acc
  | c :: t, 0, acc =>
    let rw := decodeRune (c :: t)
    match lookupOf lookup c rw.1 with
    | none => none
    | some v => valueR lookup t (rw.2 - 1) (acc * 58 + v)

/-- the digit loop as written -/
def valueGo (ranges : Bool) (lookup : Nat) (s : Bytes) : Option Nat :=
  if ranges then valueR lookup s 0 0 else value? s 0

/-- `Decodeb58` with the digit loop as written; the second loop (leading '1's) indexes bytes in every variant -/
def decodeGo (ranges : Bool) (lookup : Nat) (s : Bytes) : Option Bytes :=
  match valueGo ranges lookup s with
  | none => none
  | some bn =>
    let i := (s.takeWhile (· == digitChar 0)).length
    let res := List.replicate i (0 : UInt8) ++ natBytes bn
    if res.isEmpty then none else some res

/-- `Decodeb58` as the source under test has it -/
def decodeSrc (s : Bytes) : Option Bytes :=
  decodeGo Gen.C15Str.b58DecodeRangesString Gen.C15Str.b58DecodeLookup s

end GocoinV.Base58Str
