/-
  Model.Addr — mirror of lib/btc/addr.go: NewAddrFromString, BtcAddr.String, OutScript,
  NewAddrFromPkScript, and of IsWitnessProgram (lib/btc/funcs.go).
  Hashes are parameters (`H`): theorems hold for every hash function; the oracle instantiates
  them with the executable SHA-256 / RIPEMD-160.
-/
import GocoinV.Model.Bech32
import GocoinV.Model.Base58
namespace GocoinV.Addr

structure Hashes where
  sha2sum : Bytes → Bytes   -- btc.Sha2Sum = double SHA-256 (32 bytes)
  hash160 : Bytes → Bytes   -- btc.RimpHash = RIPEMD160(SHA256(x)) (20 bytes)

inductive Addr where
  | segwit (hrp : Bytes) (ver : Nat) (prog : Bytes)
  | b58 (ver : UInt8) (h160 : Bytes) (enc : Option Bytes)   -- enc = cached Enc58str
  deriving Repr, DecidableEq

inductive Err | short | segwit (e : Bech32.SegErr) | b58decode | b58short | checksum | payload
  deriving Repr, DecidableEq

def asciiLower (c : UInt8) : UInt8 := if 65 ≤ c.toNat ∧ c.toNat ≤ 90 then c + 32 else c

/-- `btc.NewAddrFromString` -/
def fromString (H : Hashes) (hs : Bytes) : Except Err Addr :=
  if hs.length < 4 then .error .short
  else
    let prefix3 := (hs.take 3).map asciiLower
    if prefix3 = strBytes "bc1" ∨ prefix3 = strBytes "tb1" then
      let hrp := prefix3.take 2
      match Bech32.segwitDecode hrp hs with
      | .ok (v, p) => .ok (.segwit hrp v p)
      | .error e => .error (.segwit e)
    else match Base58.decode hs with
      | none => .error .b58decode
      | some dec =>
        if dec.length < 25 then .error .b58short
        else if dec.length = 25 then
          if (H.sha2sum (dec.take 21)).take 4 ≠ dec.drop 21 then .error .checksum
          else .ok (.b58 (dec.headD 0) ((dec.drop 1).take 20) (some hs))
        else .error .payload

/-- `BtcAddr.String` for an address without cached string -/
def toString (H : Hashes) : Addr → Option Bytes
  | .segwit hrp v p => Bech32.segwitEncode hrp v p
  | .b58 _ _ (some s) => some s
  | .b58 ver h none =>
    let ad := ver :: h
    some (Base58.encode (ad ++ (H.sha2sum ad).take 4))

/-- `BtcAddr.OutScript`; `none` = Go panic (unknown version) -/
def outScript : Addr → Option Bytes
  | .segwit _ v p =>
    if v = 0 then some (0x00 :: UInt8.ofNat p.length :: p)
    else if v ≤ 16 then some (UInt8.ofNat (v - 1 + 0x51) :: UInt8.ofNat p.length :: p)
    else none
  | .b58 ver h _ =>
    if ver = 0 ∨ ver = 111 ∨ ver = 48 then some ([0x76, 0xa9, 20] ++ h ++ [0x88, 0xac])
    else if ver = 5 ∨ ver = 196 then some ([0xa9, 20] ++ h ++ [0x87])
    else none

/-- `btc.IsWitnessProgram` : (version, program) or none (program == nil) -/
def isWitnessProgram (scr : Bytes) : Option (Nat × Bytes) :=
  if scr.length < 4 ∨ scr.length > 42 then none
  else
    let s0 := scr.headD 0
    let s1 := (scr.drop 1).headD 0
    if s0 ≠ 0 ∧ (s0.toNat < 0x51 ∨ s0.toNat > 0x60) then none
    else if s1.toNat + 2 = scr.length then
      some (if s0 = 0 then 0 else s0.toNat - 0x50, scr.drop 2)
    else none

/-- `btc.NewAddrFromPkScript`; `none` = nil -/
def fromPkScript (H : Hashes) (scr : Bytes) (testnet : Bool) : Option Addr :=
  if scr.isEmpty then none
  else match isWitnessProgram scr with
  | some (v, p) =>
    let hrp := if testnet then strBytes "tb" else strBytes "bc"
    match Bech32.segwitEncode hrp v p with
    | none => none
    | some _ => some (.segwit hrp v p)
  | none =>
    let verPk : UInt8 := if testnet then 111 else 0
    let verSc : UInt8 := if testnet then 196 else 5
    let at_ (i : Nat) : UInt8 := scr.getD i 0
    if scr.length = 25 ∧ at_ 0 = 0x76 ∧ at_ 1 = 0xa9 ∧ at_ 2 = 0x14 ∧ at_ 23 = 0x88 ∧ at_ 24 = 0xac then
      some (.b58 verPk ((scr.drop 3).take 20) none)
    else if scr.length = 67 ∧ at_ 0 = 0x41 ∧ at_ 66 = 0xac then
      some (.b58 verPk (H.hash160 ((scr.drop 1).take 65)) none)
    else if scr.length = 35 ∧ at_ 0 = 0x21 ∧ at_ 34 = 0xac then
      some (.b58 verPk (H.hash160 ((scr.drop 1).take 33)) none)
    else if scr.length = 23 ∧ at_ 0 = 0xa9 ∧ at_ 1 = 0x14 ∧ at_ 22 = 0x87 then
      some (.b58 verSc ((scr.drop 2).take 20) none)
    else none

end GocoinV.Addr
