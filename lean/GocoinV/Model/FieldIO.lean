/-
  Model.FieldIO (C08) — glue between the GENERATED limb functions (Gen.Field5x52) and the rest:
  the value of a limb vector, byte-list adapters for SetB32/GetB32, magnitude predicate.
  Core-only.
-/
import GocoinV.Gen.Field5x52
import GocoinV.Gen.CurveConsts

namespace GocoinV.C08
open GocoinV.Gen.Field5x52

/-- the field characteristic as written in `secp256k1.go` -/
abbrev P : Nat := GocoinV.Gen.CurveConsts.p

/-- the integer a 5x52 limb vector stands for -/
def _root_.GocoinV.Gen.Field5x52.Fe.val (a : Fe) : Nat :=
  a.n0 + a.n1 * 2^52 + a.n2 * 2^104 + a.n3 * 2^156 + a.n4 * 2^208

/-- libsecp256k1's magnitude contract: every limb at most `2·m` times its canonical maximum -/
def _root_.GocoinV.Gen.Field5x52.Fe.mag (a : Fe) (m : Nat) : Prop :=
  a.n0 ≤ 2 * m * (2^52 - 1) ∧ a.n1 ≤ 2 * m * (2^52 - 1) ∧ a.n2 ≤ 2 * m * (2^52 - 1) ∧
  a.n3 ≤ 2 * m * (2^52 - 1) ∧ a.n4 ≤ 2 * m * (2^48 - 1)

instance (a : Fe) (m : Nat) : Decidable (Fe.mag a m) := by unfold GocoinV.Gen.Field5x52.Fe.mag; exact inferInstance

/-- canonical limbs: 52/52/52/52/48 bits (value < 2^256; not necessarily < p) -/
def _root_.GocoinV.Gen.Field5x52.Fe.canon (a : Fe) : Prop :=
  a.n0 < 2^52 ∧ a.n1 < 2^52 ∧ a.n2 < 2^52 ∧ a.n3 < 2^52 ∧ a.n4 < 2^48

instance (a : Fe) : Decidable (Fe.canon a) := by unfold GocoinV.Gen.Field5x52.Fe.canon; exact inferInstance

/-- all limbs are 64-bit words (the only thing the Go type guarantees) -/
def _root_.GocoinV.Gen.Field5x52.Fe.w64 (a : Fe) : Prop :=
  a.n0 < 2^64 ∧ a.n1 < 2^64 ∧ a.n2 < 2^64 ∧ a.n3 < 2^64 ∧ a.n4 < 2^64

/-- a Go `[]byte` of length ≥ 32 seen as an index function (what `SetB32` reads) -/
def bytesFn (l : List Nat) : Nat → Nat := fun i => l.getD i 0

/-- `Field.SetB32` on a byte list -/
def setB32L (l : List Nat) : Fe := setB32 (bytesFn l)

/-- big-endian value of a byte list -/
def beVal : List Nat → Nat
  | [] => 0
  | b :: rest => b * 256 ^ rest.length + beVal rest

/-- 32 big-endian bytes of a number (mod 2^256) -/
def toB32 (v : Nat) : List Nat :=
  (List.range 32).map fun i => (v / 256 ^ (31 - i)) % 256

/-- field element with canonical limbs for a value < 2^256 (this is what `SetB32 ∘ toB32` computes) -/
def _root_.GocoinV.Gen.Field5x52.Fe.ofNat (v : Nat) : Fe := setB32L (toB32 v)

def _root_.GocoinV.Gen.Field5x52.Fe.toList (a : Fe) : List Nat := [a.n0, a.n1, a.n2, a.n3, a.n4]

def _root_.GocoinV.Gen.Field5x52.Fe.ofList : List Nat → Fe
  | [a, b, c, d, e] => ⟨a, b, c, d, e⟩
  | _ => ⟨0, 0, 0, 0, 0⟩

end GocoinV.C08
