/-
  Model.UtxoShared — three places where a UTXO record passes through state that is SHARED with something else, and
  "returned unchanged" needs a fact about that state. Core-only, executable. The facts themselves are not written here:
  go/cmd/gen_c10 reads them from the source on every run (Gen/UtxoSharedFacts.lean: `poolClear`, `readShape`,
  `undoOwnsScript`), the theorems of Props.C10 are about those generated values.

  1. The pooled ("static") decoders — lib/utxo/unspent_rec.go: `NewUtxoRecStatic` / `NewUtxoRecStaticU` run the ordinary
     decoder with the callbacks `sta_cbs`: `OutsList(cnt)` hands out the first `cnt` slots of ONE package-level pointer
     slice (`rec_outs`), `OneOut()` the next entry of one package-level array (`rec_pool`). The decoder only writes the
     slots of the outputs it finds, so whatever `OutsList` leaves in the other slots is returned as an unspent output.
     `PoolClear` says which slots `OutsList` sets to nil. (PurgeUnspendable stores `Serialize` of such a result back
     into the database; LoadBalancesFromUtxo feeds it to the wallet.)
       Abstraction: a slot that is not cleared is shown with SOME content (`Pool.slots`); a stale pointer really shows
       whatever its pool entry holds at the time it is read. The positive theorem quantifies over every pool, the
       counterexample only needs the slot to be non-nil.
  2. The reader of UTXO.db — lib/btc/funcs.go `ReadVLen` and the record loop of `NewUnspentDb` fetch every element of a
     record's frame with a call of its own from a `bufio.Reader`; `Read` may return fewer bytes than asked for (what is
     left in the buffer), `io.ReadFull` repeats. `Rd` is a reader whose `Read` calls are capped by an arbitrary list
     (`caps`): every way of cutting the file into reads. `ReadShape` says which calls are `io.ReadFull`.
  3. The undo record — lib/chain/chain_accept.go `commitTxs` builds `BlockChanges.UndoData` from `UnspentGet`, whose
     `Pk_script` is a sub-slice of the stored record; `CommitBlockTxs` serialises UndoData concurrently with `db.commit()`
     which frees / rewrites those records (cells of the UTXO heap) and allocates new ones into freed cells. `ScrRef` is
     what an undo entry holds for the script: bytes of its own, or a reference into a heap cell.
-/
import GocoinV.Model.UtxoRec
namespace GocoinV.UtxoRec
open GocoinV.CompactSize
open ScriptCompress (KeyOps)

/-! ## 1. pooled decoders -/

/-- which slots `sta_cbs.OutsList(cnt)` sets to nil before returning `rec_outs[:cnt]` -/
structure PoolClear where
  /-- all `cnt` slots of the slice it returns -/
  overReturned : Bool
  /-- (only consulted when `overReturned` is false) the first `rec_idx` slots: as many as the previous record had
      unspent outputs -/
  overCursor : Bool
  deriving DecidableEq, Repr

def PoolClear.cleared (s : PoolClear) (cnt cursor : Nat) : Nat :=
  if s.overReturned then cnt else if s.overCursor then cursor else 0

/-- the package-level pool between two calls: `rec_outs` as the next caller will see it, and `rec_idx` -/
structure Pool where
  slots : List (Option Out)
  cursor : Nat
  deriving DecidableEq, Repr

/-- `make([]*UtxoTxOut, n)`, `rec_idx = 0` -/
def Pool.fresh (n : Nat) : Pool := ⟨List.replicate n none, 0⟩

/-- `sta_cbs.OutsList(cnt)`: a pool that is too short is re-made (all nil) -/
def outsList (s : PoolClear) (p : Pool) (cnt : Nat) : List (Option Out) :=
  if p.slots.length < cnt then List.replicate cnt none
  else
    let k := min (s.cleared cnt p.cursor) cnt
    List.replicate k none ++ (p.slots.take cnt).drop k

/-- the pool after a record of `cnt` slots was decoded into it: `rec_idx` = entries handed out by `OneOut` (for a
    serialised record: its unspent outputs) -/
def poolAfter (p : Pool) (cnt : Nat) (outs : List (Option Out)) : Pool :=
  ⟨if p.slots.length < cnt then outs else outs ++ p.slots.drop cnt, (outs.filter Option.isSome).length⟩

/-- `NewUtxoRecStaticU(dat)` / `NewUtxoRecStatic` in plain mode: `NewUtxoRecOwnU(dat, &sta_rec, &sta_cbs)`.
    (A panic leaves the pool as it was: only serialised records are decoded this way.) -/
def newRecStaticU (s : PoolClear) (p : Pool) (dat : Bytes) : Res Rec × Pool :=
  match decHeader dat with
  | none => (.panic, p)
  | some (txid, h, c, rest) =>
    if c / 2 > maxOuts then (.panic, p)
    else match decOutsU rest.length rest (outsList s p (c / 2)) with
      | .ok outs => (.ok ⟨txid, h % 2 ^ 32, c % 2 == 1, outs⟩, poolAfter p (c / 2) outs)
      | .panic => (.panic, p)
      | .hang => (.hang, p)

/-- `NewUtxoRecStatic` in compressed mode: `NewUtxoRecOwnC(dat, &sta_rec, &sta_cbs)` -/
def newRecStaticC (s : PoolClear) (K : KeyOps) (p : Pool) (dat : Bytes) : Res Rec × Pool :=
  match decHeader dat with
  | none => (.panic, p)
  | some (txid, h, c, rest) =>
    if c / 2 > maxOuts then (.panic, p)
    else match decOutsC K rest.length rest (outsList s p (c / 2)) with
      | .ok outs => (.ok ⟨txid, h % 2 ^ 32, c % 2 == 1, outs⟩, poolAfter p (c / 2) outs)
      | .panic => (.panic, p)
      | .hang => (.hang, p)

/-- a history: records (format flag, bytes) decoded one after the other on the one pool -/
def staticHistory (s : PoolClear) (K : KeyOps) : Pool → List (Bool × Bytes) → List (Res Rec)
  | _, [] => []
  | p, (c, dat) :: t =>
    let x := if c then newRecStaticC s K p dat else newRecStaticU s p dat
    x.1 :: staticHistory s K x.2 t

/-- the same records through the decoder that allocates (`NewUtxoRec`) -/
def freshHistory (K : KeyOps) (l : List (Bool × Bytes)) : List (Res Rec) :=
  l.map fun x => if x.1 then newRecC K x.2 else newRecU x.2

/-! ## 2. a reader that returns what it has -/

/-- which calls are `io.ReadFull` (true) and which a plain `Read` (false) -/
structure ReadShape where
  /-- `ReadVLen`: the marker byte -/
  markerFull : Bool
  /-- `ReadVLen`: the 2 / 4 / 8 length bytes -/
  lengthFull : Bool
  /-- the record loop of `NewUnspentDb`: the record itself -/
  recordFull : Bool
  deriving DecidableEq, Repr

/-- the unread rest of the file, and for each coming call of `Read` how many bytes BEYOND THE FIRST it may return at
    most (a `Read` with room for at least one byte returns at least one unless the file is at its end); calls after
    the list is used up are served completely -/
structure Rd where
  data : Bytes
  caps : List Nat

/-- one call of `Read(p)`, `len(p) = n` -/
def Rd.read (r : Rd) (n : Nat) : Bytes × Rd :=
  let k := match r.caps with
    | [] => n
    | c :: _ => min n (c + 1)
  (r.data.take k, ⟨r.data.drop k, r.caps.tail⟩)

/-- a plain `Read(p)` as the callers use it: `none` = error (end of file), else the bytes that arrived (the rest of
    `p` keeps its zeroes) -/
def Rd.readPlain (r : Rd) (n : Nat) : Option (Bytes × Rd) :=
  if n = 0 then some ([], r)
  else
    let x := r.read n
    if x.1.isEmpty then none else some x

/-- `io.ReadFull(r, p)`, `len(p) = n`: repeats `Read` until `p` is full; `none` = EOF / unexpected EOF.
    `fuel` calls suffice when `fuel ≥ n` (every call brings at least one byte). -/
def Rd.readFullAux : Nat → Rd → Nat → Option (Bytes × Rd)
  | _, r, 0 => some ([], r)
  | 0, _, _ + 1 => none
  | fuel + 1, r, n + 1 =>
    let x := r.read (n + 1)
    if x.1.isEmpty then none
    else match readFullAux fuel x.2 (n + 1 - x.1.length) with
      | none => none
      | some (more, r') => some (x.1 ++ more, r')

def Rd.readFull (r : Rd) (n : Nat) : Option (Bytes × Rd) := Rd.readFullAux n r n

def Rd.get (full : Bool) (r : Rd) (n : Nat) : Option (Bytes × Rd) :=
  if full then r.readFull n else r.readPlain n

/-- `btc.ReadVLen(b)` on such a reader (`var buf [8]byte`; a short plain read leaves zeroes in the rest of `buf[:c]`) -/
def readVLenRd (sh : ReadShape) (r : Rd) : Option (Nat × Rd) :=
  match r.get sh.markerFull 1 with
  | none => none
  | some (m, r1) =>
    let h := (m.getD 0 0).toNat
    if h < 0xfd then some (h, r1)
    else
      let c := 2 <<< (2 - (0xff - h))
      match r1.get sh.lengthFull c with
      | none => none
      | some (got, r2) => some (leVal (got ++ List.replicate (c - got.length) 0), r2)

/-- the record loop of `NewUnspentDb` on such a reader: `n` records (`Memory_Malloc(le)`; a short plain read leaves the
    rest of the new buffer as it is — zero here) -/
def decRecsRd (sh : ReadShape) : Nat → Rd → Option (List Bytes)
  | 0, _ => some []
  | n + 1, r =>
    match readVLenRd sh r with
    | none => none
    | some (le, r1) =>
      match r1.get sh.recordFull le with
      | none => none
      | some (got, r2) =>
        match decRecsRd sh n r2 with
        | none => none
        | some l => some ((got ++ List.replicate (le - got.length) 0) :: l)

/-! ## 3. who owns the script of an undo entry -/

/-- what `UndoData[txid].Outs[vout].PKScr` is: bytes of its own, or `len` bytes at `off` of a cell of the UTXO heap -/
inductive ScrRef where
  | own (b : Bytes)
  | alias (cell off len : Nat)
  deriving DecidableEq, Repr

/-- the UTXO heap: cell ↦ contents (a freed cell keeps whatever the allocator or its next owner writes there) -/
abbrev Heap := Nat → Bytes

def ScrRef.read (h : Heap) : ScrRef → Bytes
  | .own b => b
  | .alias c off len => ((h c).drop off).take len

/-- what `db.commit()` and the allocator may do to a cell while the undo file is not yet written: `Memory_Free`
    (the allocator's own bookkeeping or a poison pattern), a later `Memory_Malloc` + `Serialize` of another record -/
structure HeapEv where
  cell : Nat
  content : Bytes

def HeapEv.apply (h : Heap) (e : HeapEv) : Heap := fun c => if c = e.cell then e.content else h c

/-- the entry `commitTxs` makes for an output whose script is `len` bytes at `off` of the stored record in `cell` -/
def undoEntry (copies : Bool) (h : Heap) (cell off len : Nat) : ScrRef :=
  if copies then .own (((h cell).drop off).take len) else .alias cell off len

end GocoinV.UtxoRec
