/-
  Model.Balances — the per-address balance index of client/wallet (db.go, onoff.go) together with the
  call sites in lib/utxo/unspent_db.go that feed it (commit do_add / del, UndoBlockTxs). Core-only.

  What is mirrored (statement level):
    * `Script2Idx`      : five script forms, checked in the code's order, payload hashed by `H`
                          (the oracle instantiates `H` with SipHash-2-4 key (0,0) = `siphash.Hash(0,0,·)`).
    * `NewUTXO`         : per output: nil → skip, `Value < AllBalMinVal()` → skip, `Script2Idx < 0` → skip,
                          record fetched or created, `Value += out.Value` (uint64 wrap), then
                          map-mode insert / list→map switch when `len(unsp) >= useMapCnt-1` / list append.
    * `all_del_utxos`   : per output: `!outs[vout] || nil || Value < min` → skip, no index → skip, record
                          missing → skip ("ERROR" print), map mode: missing → skip, delete, empty → drop
                          record else `Value -= out.Value`; list mode: `slices.Index` < 0 → skip,
                          `len == 1` → drop record else subtract and cut the element out.
    * `GetAllUnspent`   : address → (idx, H payload) → record → every entry looked up in the UTXO map by
                          its 8-byte key (`GetRec`), reported when the output is still non-nil. The branches that map
                          ANY `btc.BtcAddr` value (any witness version / program, any base58 version) to (idx, payload)
                          or to "return nothing" are in Model/BalancesAddr.lean (`addrKey`, `getAllUnspentQ`).
    * `LoadBalancesFromUtxo` / `Disable` / `InitMaps` (min value and useMapCnt are re-read only here — a source
                          fact regenerated from /repo by go/cmd/gen_c17, see Model/BalancesCfg.lean for config
                          changes landing during the build).
    * `UnspentDB.commit` do_add (notify with the new record, then store it), `UnspentDB.del` (look the
      record up, notify with it and the mask, clear the masked outputs, store or drop), `UndoBlockTxs`
      (with callbacks: `del` with an all-true mask; without: drop the whole record; then for every undo
      record: notify with the UNDO record, merge the still-unspent outputs of the stored record, store).
  Go maps are association lists (order is not observable: Go map iteration order is random, and the
  harness sorts). A Go map used as a set (`unspMap`) is a duplicate-free list.
  The byte-level load (NewUtxoRecStatic with its static buffers, plain and compressed records, the abort path of
  LoadBalancesFromUtxo via FetchingBalanceTick) is in Model/BalancesLoad.lean; `.enable` below is its record-level form
  (Props.C17.load_bytes_eq_enable).
    * `SaveBalances` → restart → `LoadBalances` (disk.go) as the history event `.reload`: every record comes back with its
                          Value and its entries in the order the FILE had them — a list record in list order, a map record in
                          Go's map iteration order (any rearrangement; the event carries it) — and the layout is re-chosen from
                          the count alone (`int(le) >= useMapCnt`, with the UseMapCnt configured at the restart): a map that
                          shrank below useMapCnt comes back as a list in arbitrary order. The bytes are in Model/BalancesDisk.lean.
  Not modelled: the OP_RETURN "message" decoration of GetAllUnspent, UTXO_PURGE_UNSPENDABLE (false).
  Index panics of the Go code (a spent mask SHORTER than the record's output list: all_del_utxos `outs[vout]`; a mask
  LONGER than it: UnspentDB.del `rec.Outs[i]`) are total here (`getD`: a missing mask entry = not spent, a surplus one is
  ignored). `Admissible` does NOT exclude such events (`.del` / `.undoDel` are admissible with any mask) and the theorems
  hold for them — about this total definition, not about the Go code, which panics. They cannot arise: chain_accept.go
  makes every mask `make([]bool, VoutCount)` of the record it spends, UndoBlockTxs builds its mask from the transaction's
  own output count. With the index OFF and a mask shorter than the record, Go's `del` computes `anyout` over the mask's
  range only; the model looks at all outputs — same remark.
  `step (.reload)` keeps every record's `value`; that this is what disk.go does is `reload_is_cache_roundtrip`, which needs
  `WFBal` (value < 2^64 and entries distinct): CompressAmount / the VARINT writer do not wrap below 2^64, and a record's
  value is a sum of outputs of one address (bounded by the money supply, < 2^51). The keyed theorems do not assume it.
-/
import GocoinV.Base.Hex
namespace GocoinV.Model.Balances

/-! ### association lists (Go maps) -/

def aget {κ β : Type} [DecidableEq κ] (k : κ) : List (κ × β) → Option β
  | [] => none
  | p :: t => if p.1 = k then some p.2 else aget k t

def adel {κ β : Type} [DecidableEq κ] (k : κ) (l : List (κ × β)) : List (κ × β) :=
  l.filter (fun p => decide (p.1 ≠ k))

def aset {κ β : Type} [DecidableEq κ] (k : κ) (v : β) (l : List (κ × β)) : List (κ × β) :=
  (k, v) :: adel k l

/-! ### SipHash-2-4 (lib/others/siphash) -/

def rotl (x : UInt64) (n : UInt64) : UInt64 := (x <<< n) ||| (x >>> (64 - n))

structure Sip where
  v0 : UInt64
  v1 : UInt64
  v2 : UInt64
  v3 : UInt64

def sipRound (s : Sip) : Sip :=
  let v0 := s.v0 + s.v1
  let v1 := rotl s.v1 13
  let v1 := v1 ^^^ v0
  let v0 := rotl v0 32
  let v2 := s.v2 + s.v3
  let v3 := rotl s.v3 16
  let v3 := v3 ^^^ v2
  let v0 := v0 + v3
  let v3 := rotl v3 21
  let v3 := v3 ^^^ v0
  let v2 := v2 + v1
  let v1 := rotl v1 17
  let v1 := v1 ^^^ v2
  let v2 := rotl v2 32
  ⟨v0, v1, v2, v3⟩

def le64 (b : Bytes) : UInt64 :=
  (b.take 8).foldr (fun x acc => acc * 256 + x.toUInt64) 0

def sipBlock (s : Sip) (m : UInt64) : Sip :=
  let s := { s with v3 := s.v3 ^^^ m }
  let s := sipRound (sipRound s)
  { s with v0 := s.v0 ^^^ m }

/-- absorb the full 8-byte blocks; `fuel` ≥ number of blocks -/
def sipBlocks : Nat → Sip → Bytes → Sip × Bytes
  | 0, s, p => (s, p)
  | fuel+1, s, p =>
    if p.length ≥ 8 then sipBlocks fuel (sipBlock s (le64 p)) (p.drop 8) else (s, p)

def sipHash (k0 k1 : UInt64) (m : Bytes) : UInt64 :=
  let s : Sip := ⟨k0 ^^^ 0x736f6d6570736575, k1 ^^^ 0x646f72616e646f6d,
                  k0 ^^^ 0x6c7967656e657261, k1 ^^^ 0x7465646279746573⟩
  let (s, tail) := sipBlocks (m.length / 8 + 1) s m
  let last : UInt64 := le64 tail ||| ((UInt64.ofNat (m.length % 256)) <<< 56)
  let s := sipBlock s last
  let s := { s with v2 := s.v2 ^^^ 0xff }
  let s := sipRound (sipRound (sipRound (sipRound s)))
  s.v0 ^^^ s.v1 ^^^ s.v2 ^^^ s.v3

/-- `ourHash` of client/wallet/db.go -/
def ourHash (dat : Bytes) : Nat := (sipHash 0 0 dat).toNat

/-! ### data -/

structure Out where
  value : Nat
  script : Bytes
deriving DecidableEq, Repr, Inhabited

/-- `utxo.UtxoRec` -/
structure Rec where
  txid : Bytes
  inBlock : Nat
  coinbase : Bool
  outs : List (Option Out)
deriving DecidableEq, Repr, Inhabited

abbrev Key := Bytes
/-- `UtxoKeyType`: the first `UtxoIdxLen = 8` bytes of the txid -/
def Rec.key (r : Rec) : Key := r.txid.take 8

/-- `OneAllAddrInp`: 8 key bytes + little-endian vout -/
abbrev Inp := Key × Nat
/-- index into `allBalances`: (address type 0..4, `ourHash` of the payload) -/
abbrev AKey := Nat × Nat

/-- `OneAllAddrBal`; `isMap` ⇔ `unspMap != nil` (then `unsp` lists the map's keys) -/
structure Bal where
  value : Nat
  unsp : List Inp
  isMap : Bool
deriving DecidableEq, Repr, Inhabited

abbrev Utxo := List (Key × Rec)
abbrev BalMap := List (AKey × Bal)

/-- `common.AllBalMinVal()` and `useMapCnt` as applied at the last enable -/
structure Cfg where
  min : Nat
  useMapCnt : Nat
deriving Repr, Inhabited

abbrev M64 : Nat := 18446744073709551616

def outAt (outs : List (Option Out)) (j : Nat) : Option Out :=
  match outs[j]? with
  | some (some o) => some o
  | _ => none

/-! ### Script2Idx -/

def byteAt (s : Bytes) (i : Nat) : Nat := (s.getD i 0).toNat

/-- the script form and the hashed payload: `(idx, payload)`; `none` ⇔ `idx = -1` -/
def scriptForm (s : Bytes) : Option (Nat × Bytes) :=
  if s.length = 25 ∧ byteAt s 0 = 0x76 ∧ byteAt s 1 = 0xa9 ∧ byteAt s 2 = 0x14 ∧ byteAt s 23 = 0x88 ∧ byteAt s 24 = 0xac then
    some (0, (s.drop 3).take 20)
  else if s.length = 23 ∧ byteAt s 0 = 0xa9 ∧ byteAt s 1 = 0x14 ∧ byteAt s 22 = 0x87 then
    some (1, (s.drop 2).take 20)
  else if s.length = 22 ∧ byteAt s 0 = 0 ∧ byteAt s 1 = 20 then
    some (2, (s.drop 2).take 20)
  else if s.length = 34 ∧ byteAt s 0 = 0 ∧ byteAt s 1 = 32 then
    some (3, (s.drop 2).take 32)
  else if s.length = 34 ∧ byteAt s 0 = 0x51 ∧ byteAt s 1 = 32 then
    some (4, (s.drop 2).take 32)
  else none

def script2idx (H : Bytes → Nat) (s : Bytes) : Option AKey :=
  match scriptForm s with
  | some (i, p) => some (i, H p)
  | none => none

/-! ### NewUTXO -/

/-- insertion into a Go map used as a set -/
def mapIns (x : Inp) (l : List Inp) : List Inp := if x ∈ l then l else l ++ [x]

/-- `for _, v := range rec.unsp { rec.unspMap[v] = struct{}{} }` -/
def mapOfList (l : List Inp) : List Inp := l.foldl (fun m x => mapIns x m) []

/-- the body of NewUTXO's loop after the three `continue` guards -/
def addOne (cfg : Cfg) (bal : BalMap) (K : AKey) (inp : Inp) (v : Nat) : BalMap :=
  let b := (aget K bal).getD { value := 0, unsp := [], isMap := false }
  let val := (b.value + v) % M64
  if b.isMap then
    aset K { value := val, unsp := mapIns inp b.unsp, isMap := true } bal
  else if b.unsp.length + 1 ≥ cfg.useMapCnt then
    aset K { value := val, unsp := mapIns inp (mapOfList b.unsp), isMap := true } bal
  else
    aset K { value := val, unsp := b.unsp ++ [inp], isMap := false } bal

def addStep (cfg : Cfg) (H : Bytes → Nat) (key : Key) (bal : BalMap) (o : Option Out) (j : Nat) : BalMap :=
  match o with
  | none => bal
  | some o =>
    if o.value < cfg.min then bal
    else match script2idx H o.script with
      | none => bal
      | some K => addOne cfg bal K (key, j) o.value

def addOuts (cfg : Cfg) (H : Bytes → Nat) (key : Key) : List (Option Out) → Nat → BalMap → BalMap
  | [], _, bal => bal
  | o :: rest, j, bal => addOuts cfg H key rest (j + 1) (addStep cfg H key bal o j)

/-- `wallet.NewUTXO` (= `TxNotifyAdd`) -/
def newUTXO (cfg : Cfg) (H : Bytes → Nat) (bal : BalMap) (r : Rec) : BalMap :=
  addOuts cfg H r.key r.outs 0 bal

/-! ### all_del_utxos -/

/-- the body of all_del_utxos' loop after the guards and `Script2Idx` -/
def delOne (bal : BalMap) (K : AKey) (inp : Inp) (v : Nat) : BalMap :=
  match aget K bal with
  | none => bal
  | some b =>
    if b.isMap then
      if inp ∈ b.unsp then
        let u := b.unsp.erase inp
        if u.length = 0 then adel K bal
        else aset K { value := (b.value + M64 - v % M64) % M64, unsp := u, isMap := true } bal
      else bal
    else
      if inp ∈ b.unsp then
        if b.unsp.length = 1 then adel K bal
        else aset K { value := (b.value + M64 - v % M64) % M64, unsp := b.unsp.erase inp, isMap := false } bal
      else bal

def delStep (cfg : Cfg) (H : Bytes → Nat) (key : Key) (mask : List Bool) (bal : BalMap) (o : Option Out) (j : Nat) : BalMap :=
  match o with
  | none => bal
  | some o =>
    if mask.getD j false = false then bal
    else if o.value < cfg.min then bal
    else match script2idx H o.script with
      | none => bal
      | some K => delOne bal K (key, j) o.value

def delOuts (cfg : Cfg) (H : Bytes → Nat) (key : Key) (mask : List Bool) : List (Option Out) → Nat → BalMap → BalMap
  | [], _, bal => bal
  | o :: rest, j, bal => delOuts cfg H key mask rest (j + 1) (delStep cfg H key mask bal o j)

/-- `wallet.all_del_utxos` (= `TxNotifyDel`) -/
def allDel (cfg : Cfg) (H : Bytes → Nat) (bal : BalMap) (r : Rec) (mask : List Bool) : BalMap :=
  delOuts cfg H r.key mask r.outs 0 bal

/-! ### the record after a restart through the balances cache (disk.go: OneAllAddrBal.Save, newAddrBal) -/

/-- the order in which `OneAllAddrBal.Save` writes the entries: a list record in list order; a map record in Go's map
    iteration order — `ord` when it is a rearrangement of the entries (otherwise the model's own order) -/
def savedOrder (ord : List Inp) (b : Bal) : List Inp :=
  if b.isMap && ord.isPerm b.unsp then ord else b.unsp

/-- `newAddrBal` on what `Save` wrote: same Value; `int(le) >= useMapCnt` → the entries inserted one by one into a fresh
    map, otherwise a list holding them in FILE order (no sorting, no other normalisation) -/
def relayout (useMapCnt : Nat) (ord : List Inp) (b : Bal) : Bal :=
  let l := savedOrder ord b
  if useMapCnt ≤ l.length then { value := b.value, unsp := mapOfList l, isMap := true }
  else { value := b.value, unsp := l, isMap := false }

/-- every record of the index through `relayout`; `ords` = the iteration order of each map record at save time -/
def reloadBal (useMapCnt : Nat) (ords : List (AKey × List Inp)) (bal : BalMap) : BalMap :=
  bal.map (fun p => (p.1, relayout useMapCnt ((aget p.1 ords).getD []) p.2))

/-! ### node state and the UTXO change stream -/

structure State where
  utxo : Utxo
  bal : BalMap
  on : Bool
  cfg : Cfg
deriving Repr, Inhabited

def State.init : State := { utxo := [], bal := [], on := false, cfg := { min := 0, useMapCnt := 0 } }

/-- `rec.Outs[i] = nil` for every masked position -/
def maskOuts : List (Option Out) → Nat → List Bool → List (Option Out)
  | [], _, _ => []
  | o :: rest, j, mask => (if mask.getD j false then none else o) :: maskOuts rest (j + 1) mask

def anyOut (outs : List (Option Out)) : Bool := outs.any (fun o => o.isSome)

/-- undo merge: `if rec.Outs[a] == nil { rec.Outs[a] = oldrec.Outs[a] }` -/
def mergeOuts : List (Option Out) → List (Option Out) → List (Option Out)
  | [], _ => []
  | o :: rest, old => (match o with | some x => some x | none => (old.headD none)) :: mergeOuts rest old.tail

inductive Ev where
  /-- commit.do_add: NotifyTxAdd(rec); HashMap[key] = rec -/
  | add (r : Rec)
  /-- UnspentDB.del(txid, mask) from commit.do_del — the FULL 32-byte txid: the record stored under its first 8 bytes is touched
      only if it carries exactly this txid (`bytes.Equal((*v)[:32], txid)`, fix 9e63ae4d) -/
  | del (txid : Bytes) (mask : List Bool)
  /-- UndoBlockTxs, first loop, for a transaction (txid) of the undone block with `n` outputs: with the wallet callbacks installed
      it goes through UnspentDB.del (full txid compared); without them it deletes by the 8-byte key directly -/
  | undoDel (txid : Bytes) (n : Nat)
  /-- UndoBlockTxs, second loop, for one undo record -/
  | undoAdd (r : Rec)
  /-- wallet.LoadBalancesFromUtxo with CFG.AllBalances.{MinValue,UseMapCnt} -/
  | enable (min useMapCnt : Nat)
  /-- wallet.Disable -/
  | disable
  /-- wallet.SaveBalances, restart of the client (or Disable), wallet.LoadBalances at the same block with
      CFG.AllBalances.UseMapCnt = useMapCnt; `ords`: Go's map iteration order of the map records while they were saved -/
  | reload (useMapCnt : Nat) (ords : List (AKey × List Inp))
deriving Repr

/-- `UnspentDB.del` -/
def dbDel (H : Bytes → Nat) (s : State) (key : Key) (mask : List Bool) : State :=
  match aget key s.utxo with
  | none => s
  | some r =>
    let bal := if s.on then allDel s.cfg H s.bal r mask else s.bal
    let outs := maskOuts r.outs 0 mask
    let utxo := if anyOut outs then aset key { r with outs := outs } s.utxo else adel key s.utxo
    { s with bal := bal, utxo := utxo }

/-- `UnspentDB.del(txid, mask)`: look the record up under the 8-byte key; a record of ANOTHER transaction with the same key prefix
    is left alone (and the wallet is not notified) -/
def dbDelTx (H : Bytes → Nat) (s : State) (txid : Bytes) (mask : List Bool) : State :=
  match aget (txid.take 8) s.utxo with
  | none => s
  | some r => if r.txid = txid then dbDel H s (txid.take 8) mask else s

/-- `LoadBalancesFromUtxo`'s loop: `TxNotifyAdd` for every stored record -/
def loadAll (cfg : Cfg) (H : Bytes → Nat) : Utxo → BalMap → BalMap
  | [], bal => bal
  | p :: rest, bal => loadAll cfg H rest (newUTXO cfg H bal p.2)

def step (H : Bytes → Nat) (s : State) : Ev → State
  | .add r =>
    let bal := if s.on then newUTXO s.cfg H s.bal r else s.bal
    { s with bal := bal, utxo := aset r.key r s.utxo }
  | .del txid mask => dbDelTx H s txid mask
  | .undoDel txid n =>
    if s.on then dbDelTx H s txid (List.replicate n true)
    else { s with utxo := adel (txid.take 8) s.utxo }
  | .undoAdd r =>
    let bal := if s.on then newUTXO s.cfg H s.bal r else s.bal
    let merged := match aget r.key s.utxo with
      | some old => { r with outs := mergeOuts r.outs old.outs }
      | none => r
    { s with bal := bal, utxo := aset r.key merged s.utxo }
  | .enable min useMapCnt =>
    if s.on then s
    else
      let cfg : Cfg := { min := min, useMapCnt := useMapCnt }
      { s with cfg := cfg, bal := loadAll cfg H s.utxo [], on := true }
  | .disable =>
    if s.on then { s with bal := [], on := false } else s
  | .reload um ords =>
    -- SaveBalances refuses when the wallet is off (nothing is written, the restart then builds from the UTXO set = `.enable`)
    if s.on then { s with cfg := { s.cfg with useMapCnt := um }, bal := reloadBal um ords s.bal } else s

def run (H : Bytes → Nat) (s : State) (evs : List Ev) : State := evs.foldl (step H) s

/-! ### GetAllUnspent -/

/-- an address the index knows: type 0..4 (P2KH, P2SH, P2WKH, P2WSH, P2TAP) and its 20/32-byte payload -/
structure Addr where
  idx : Nat
  payload : Bytes
deriving DecidableEq, Repr

/-- the scriptPubKey that pays to the address -/
def Addr.script (a : Addr) : Bytes :=
  match a.idx with
  | 0 => [0x76, 0xa9, 0x14] ++ a.payload ++ [0x88, 0xac]
  | 1 => [0xa9, 0x14] ++ a.payload ++ [0x87]
  | 2 => [0x00, 0x14] ++ a.payload
  | 3 => [0x00, 0x20] ++ a.payload
  | _ => [0x51, 0x20] ++ a.payload

/-- one reported unspent output: txid, vout, value, MinedAt, Coinbase -/
structure Unspent where
  txid : Bytes
  vout : Nat
  value : Nat
  minedAt : Nat
  coinbase : Bool
deriving DecidableEq, Repr

/-- `OneAllAddrInp.GetRec` + the body of the Browse callback -/
def getRec (utxo : Utxo) (inp : Inp) : Option Unspent :=
  match aget inp.1 utxo with
  | none => none
  | some r =>
    match outAt r.outs inp.2 with
    | none => none
    | some o => some { txid := r.txid, vout := inp.2, value := o.value, minedAt := r.inBlock, coinbase := r.coinbase }

/-- `wallet.GetAllUnspent` for a supported address -/
def getAllUnspent (H : Bytes → Nat) (s : State) (a : Addr) : List Unspent :=
  match aget (a.idx, H a.payload) s.bal with
  | none => []
  | some b => b.unsp.filterMap (getRec s.utxo)

/-- the record's `Value` as shown by wallet.Browse (0 when there is no record) -/
def total (H : Bytes → Nat) (s : State) (a : Addr) : Nat :=
  match aget (a.idx, H a.payload) s.bal with
  | none => 0
  | some b => b.value

end GocoinV.Model.Balances
