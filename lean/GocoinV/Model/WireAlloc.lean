/-
  Model.WireAlloc — allocation accounting of `btc.NewTx` (lib/btc/tx.go), for EVERY input, accepted or refused.

  `allocTx K b` is the number of bytes `btc.NewTx(b)` asks the Go allocator for, statement by statement:
    new(Tx)                               K.tx          (before anything is read)
    tx.TxIn  = make([]*TxIn, le)          8·le          (le = input count that passed vlenWire)
      NewTxIn:  new(TxIn)                 K.txIn        (first statement of NewTxIn, also when it then fails)
                make([]byte, le)          le            (script length that passed vlenWire)
    tx.TxOut = make([]*TxOut, le)         8·le          (not reached when the zero-input rule refuses)
      NewTxOut: new(TxOut)                K.txOut
                make([]byte, le)          le
    tx.SegWit = make([][][]byte, nin)     24·nin        (witness-flagged only)
      per stack  make([][]byte, le)       24·le
      per item   make([]byte, lel)        lel
  A loop stops at the first element that fails (its own allocations made so far are counted). `K` holds
  `unsafe.Sizeof` of the three structs (read from the real types by the harness); slice headers are 24 bytes and
  pointers 8 (64-bit Go). What the runtime adds is NOT modelled: size-class rounding (≤ 2×), the panic value on
  a slice-bounds failure; the harness compares `A ≤ measured ≤ 2·A + slack` (runtime.MemStats) on every case.
  Core-only.
-/
import GocoinV.Model.Wire
namespace GocoinV.Wire
open GocoinV.CompactSize

structure AllocK where
  tx : Nat
  txIn : Nat
  txOut : Nat
deriving Repr

/-- allocation of a `for i := range make(…, n)` loop whose body decodes one element with `f` (allocating `a b`
    on the bytes `b` it is given) and returns at the first failure -/
def allocN {α : Type} (f : Bytes → Option (α × Bytes)) (a : Bytes → Nat) : Nat → Bytes → Nat
  | 0, _ => 0
  | n+1, b => a b + match f b with
    | none => 0
    | some (_, b') => allocN f a n b'

/-- `btc.NewTxIn` -/
def allocTxIn (K : AllocK) (b : Bytes) : Nat :=
  K.txIn + match readN 36 b with
    | none => 0
    | some (_, b') => match vlenWire b' with
      | none => 0
      | some (le, _) => le

/-- `btc.NewTxOut` -/
def allocTxOut (K : AllocK) (b : Bytes) : Nat :=
  K.txOut + match readN 8 b with
    | none => 0
    | some (_, b') => match vlenWire b' with
      | none => 0
      | some (le, _) => le

/-- one witness item: `make([]byte, lel)` -/
def allocItem (b : Bytes) : Nat :=
  match vlenWire b with
  | none => 0
  | some (le, _) => le

/-- one witness stack: `make([][]byte, le)` + its items -/
def allocStack (b : Bytes) : Nat :=
  match vlenWire b with
  | none => 0
  | some (n, r) => 24 * n + allocN decodeItem allocItem n r

/-- bytes requested from the allocator by `btc.NewTx(b)` (current code), on every path -/
def allocTx (K : AllocK) (b : Bytes) : Nat :=
  K.tx +
  match readN 4 b with
  | none => 0
  | some (_, b1) =>
  match readMarker b1 with
  | none => 0
  | some (segwit, b2) =>
  match vlenWire b2 with
  | none => 0
  | some (nin, b3) =>
  8 * nin + allocN decodeTxIn (allocTxIn K) nin b3 +
  match decodeN decodeTxIn nin b3 with
  | none => 0
  | some (_, b4) =>
  match vlenWire b4 with
  | none => 0
  | some (nout, b5) =>
  if !segwit && nin == 0 && nout != 0 then 0 else
  8 * nout + allocN decodeTxOut (allocTxOut K) nout b5 +
  match decodeN decodeTxOut nout b5 with
  | none => 0
  | some (_, b6) =>
  if segwit then 24 * nin + allocN decodeStack allocStack nin b6 else 0

end GocoinV.Wire
