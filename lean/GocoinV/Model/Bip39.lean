/-
  Model.Bip39 — mirror of lib/others/bip39/bip39.go: NewMnemonic, EntropyFromMnemonic,
  MnemonicToByteArray, IsMnemonicValid, NewSeedWithErrorChecking, addChecksum, padByteSlice,
  splitMnemonicWords. math/big is `Nat` (`Or` of a value below 2^k into a multiple of 2^k is `+`),
  Go strings are byte strings, the word list is REGENERATED from wordlist.go (Gen/Bip39Words.lean),
  `wordMap` (a Go map built from the list) is "index of the word in the list".
  `strings.Fields` is modelled for ASCII white space (the harness keeps mnemonics ASCII).
-/
import GocoinV.Base.Bytes
import GocoinV.Model.Base58
import GocoinV.Model.WalletCrypto
import GocoinV.Gen.Bip39Words
namespace GocoinV.Bip39

inductive Err | entropyLen | invalidMnemonic | wordNotFound | checksum
  deriving Repr, DecidableEq

/-- `wordList` -/
def wordList : List Bytes := Gen.Bip39Words.words
-- 2048 literal entries: keep the elaborator from unfolding it (kernel evaluation is unaffected)
attribute [irreducible] wordList

/-- `wordMap[w]` : (index, found). (First index; the list has no duplicates — Props.C14.words_nodup.) -/
def wordIndex (w : Bytes) : Option Nat :=
  let i := wordList.findIdx (· == w)
  if i < wordList.length then some i else none

/-- `padByteSlice` -/
def padByteSlice (s : Bytes) (length : Nat) : Bytes :=
  if length ≤ s.length then s else List.replicate (length - s.length) 0 ++ s

/-- `big.Int.Bytes()` -/
abbrev natBytes := Base58.natBytes

/-- the loop of `addChecksum`: shift in bit (7-i) of the first hash byte, i = from … -/
def addChecksumLoop (first : UInt8) : Nat → Nat → Nat → Nat
  | 0, _, n => n
  | k+1, i, n => addChecksumLoop first k (i + 1) (n * 2 + (if i < 8 ∧ first.toNat.testBit (7 - i) then 1 else 0))

/-- `addChecksum(data)` as the big integer before `.Bytes()` -/
def addChecksumNat (C : WalletCrypto) (data : Bytes) : Nat :=
  addChecksumLoop ((C.sha256 data).headD 0) (data.length / 4) 0 (beVal data)

/-- k 11-bit digits of n, most significant first (the `for i := sentenceLength-1; i >= 0` loop) -/
def digits11 : Nat → Nat → List Nat
  | 0, _ => []
  | k+1, n => digits11 k (n / 2048) ++ [n % 2048]

def joinSp : List Bytes → Bytes
  | [] => []
  | [w] => w
  | w :: ws => w ++ 32 :: joinSp ws

/-- `NewMnemonic(entropy)` -/
def newMnemonic (C : WalletCrypto) (entropy : Bytes) : Except Err Bytes :=
  let entropyBitLength := entropy.length * 8
  let checksumBitLength := entropyBitLength / 32
  let sentenceLength := (entropyBitLength + checksumBitLength) / 11
  if entropyBitLength % 32 ≠ 0 ∨ entropyBitLength < 128 ∨ entropyBitLength > 256 then .error .entropyLen
  else
    let entropyInt := beVal (natBytes (addChecksumNat C entropy))
    .ok (joinSp ((digits11 sentenceLength entropyInt).map fun d => wordList.getD d []))

def isSpace (c : UInt8) : Bool := c = 32 ∨ c = 9 ∨ c = 10 ∨ c = 11 ∨ c = 12 ∨ c = 13

/-- `strings.Fields` (ASCII white space); `cur` is the current word reversed -/
def fieldsAux : Bytes → Bytes → List Bytes
  | [], cur => if cur.isEmpty then [] else [cur.reverse]
  | c :: t, cur =>
    if isSpace c then (if cur.isEmpty then fieldsAux t [] else cur.reverse :: fieldsAux t [])
    else fieldsAux t (c :: cur)

def fields (s : Bytes) : List Bytes := fieldsAux s []

/-- `strings.Split(s, " ")` -/
def splitAux : Bytes → Bytes → List Bytes
  | [], cur => [cur.reverse]
  | c :: t, cur => if c = 32 then cur.reverse :: splitAux t [] else splitAux t (c :: cur)

def splitSp (s : Bytes) : List Bytes := splitAux s []

/-- `splitMnemonicWords` -/
def splitMnemonicWords (m : Bytes) : Option (List Bytes) :=
  let words := fields m
  if words.length % 3 ≠ 0 ∨ words.length < 12 ∨ words.length > 24 then none else some words

/-- the decoding loop: b = b*2048 | index -/
def decodeWords : List Bytes → Nat → Option Nat
  | [], b => some b
  | w :: t, b => match wordIndex w with
    | none => none
    | some i => decodeWords t (b * 2048 + i % 65536)

/-- `wordLengthChecksumMasksMapping[l]` (a missing key would be a nil *big.Int → panic; l is validated) -/
def checksumMask (l : Nat) : Nat :=
  if l = 12 then 15 else if l = 15 then 31 else if l = 18 then 63 else if l = 21 then 127 else 255
/-- `wordLengthChecksumShiftMapping[l]` -/
def checksumShift (l : Nat) : Nat :=
  if l = 12 then 16 else if l = 15 then 8 else if l = 18 then 4 else 2

/-- `EntropyFromMnemonic` -/
def entropyFromMnemonic (C : WalletCrypto) (m : Bytes) : Except Err Bytes :=
  match splitMnemonicWords m with
  | none => .error .invalidMnemonic
  | some ws =>
    match decodeWords ws 0 with
    | none => .error .wordNotFound
    | some b =>
      let l := ws.length
      let mask := checksumMask l
      let checksum := b % (mask + 1)          -- And(b, mask), mask = 2^k - 1
      let b := b / (mask + 1)
      let entropy := padByteSlice (natBytes b) (l / 3 * 4)
      let first := ((C.sha256 entropy).headD 0).toNat
      let entropyChecksum := if l ≠ 24 then first / checksumShift l else first
      if checksum ≠ entropyChecksum then .error .checksum else .ok entropy

/-- the index loop of `MnemonicToByteArray`: a word that is not in the map counts as index 0 -/
def decodeWords0 : List Bytes → Nat → Nat
  | [], b => b
  | w :: t, b => decodeWords0 t (b * 2048 + (wordIndex w).getD 0)

/-- `MnemonicToByteArray(mnemonic, raw)` -/
def mnemonicToByteArray (C : WalletCrypto) (m : Bytes) (raw : Bool) : Except Err Bytes :=
  let mnemonicSlice := splitSp m
  let entropyBitSize := mnemonicSlice.length * 11
  let checksumBitSize := entropyBitSize % 32
  let fullByteSize := (entropyBitSize - checksumBitSize) / 8 + 1
  let checksumByteSize := fullByteSize - fullByteSize % 4
  match entropyFromMnemonic C m with
  | .error e => .error e
  | .ok _ =>
    let checksummedEntropy := decodeWords0 mnemonicSlice 0
    let rawEntropy := checksummedEntropy / 2 ^ checksumBitSize
    let rawEntropyBytes := padByteSlice (natBytes rawEntropy) checksumByteSize
    let checksummedEntropyBytes := padByteSlice (natBytes checksummedEntropy) fullByteSize
    let newChecksummed := padByteSlice (natBytes (addChecksumNat C rawEntropyBytes)) fullByteSize
    if checksummedEntropyBytes ≠ newChecksummed then .error .checksum
    else if raw then .ok rawEntropyBytes else .ok checksummedEntropyBytes

/-- `NewSeedWithErrorChecking(mnemonic, password)` -/
def newSeedWithErrorChecking (C : WalletCrypto) (m password : Bytes) : Except Err Bytes :=
  match mnemonicToByteArray C m false with
  | .error e => .error e
  | .ok _ => .ok (C.pbkdf2 m (strBytes "mnemonic" ++ password))

end GocoinV.Bip39
