/-
  Model.SigHash — the three signature-hash algorithms of gocoin and the Schnorr signature check that
  consumes the taproot one. Core-only. Mirrors, statement by statement:

    btc.GetOpcode            lib/btc/funcs.go      → `getOpcode`
    Tx.SignatureHash         lib/btc/tx.go         → `signatureHash`     (legacy)
    Tx.WitnessSigHash        lib/btc/tx.go         → `witnessSigHash`    (BIP143, cache threaded)
    Tx.TaprootSigHash        lib/btc/taproot.go    → `taprootSigHash`    (BIP341/342, cache threaded)
    SigChecker.CheckSchnorrSignature  lib/script/checker.go → `schnorrPlan` / `checkSchnorrSignature`
    delSig                   lib/script/script.go  → `delSig`            (FindAndDelete of one signature)
                             (the code after fix acaf95d6: the pattern is the canonical push of the signature,
                              direct / PUSHDATA1 / PUSHDATA2 / PUSHDATA4 — compared with the real delSig through
                              the hook script.VerifDelSig on every run)

  * The per-transaction cache (`TxVerVars.hashPrevouts/hashSequence/hashOutputs/tapSingleHashes/
    tapOutSingleHash`) is EXPLICIT STATE: every call takes a `Cache` and returns the new one. Each call
    holds `hashLock` for its whole body, so one call = one atomic step.
  * Every function returns the PREIMAGE (the byte string fed to the final hash) as well as the digest.
  * The hash function is a parameter `H` (single SHA-256 in the oracle). `sha.Sum(nil)` is assumed to
    return 32 bytes (the Go code `copy`s it into `[32]byte` fields).
  * Go run-time panics (index out of range on `TxIn[nIn]`, `Spent_outputs[i]`) are the result `.panic`.
  * Hash types: Go `int32` for legacy/BIP143 — modelled by the uint32 bit pattern (`0 ≤ ht < 2^32`;
    `&` acts on the bit pattern, `binary.Write` emits exactly these 4 bytes); Go `byte` for taproot.
  * `fixed : Bool` selects the code before (`false`) / after (`true`) the commit
    "fix: TaprootSigHash returns nil where BIP341 defines no digest …". The oracle runs `fixed = true`
    (= the current source); `false` is kept for the counterexample theorem only.
-/
import GocoinV.Base.Bytes
import GocoinV.Model.Wire
namespace GocoinV.SigHash
open GocoinV.CompactSize
open GocoinV.Wire (Tx TxIn TxOut)

/-! ### primitives -/

/-- `binary.Write(w, LittleEndian, uint32(x))` -/
def le32 (n : Nat) : Bytes := leBytes 4 n
/-- `binary.Write(w, LittleEndian, uint64(x))` -/
def le64 (n : Nat) : Bytes := leBytes 8 n

/-- `btc.WriteVlen` (same four-way split as `PutULe`) -/
def writeVlen (n : Nat) : Bytes :=
  if n < 0xfd then [UInt8.ofNat n]
  else if n < 0x10000 then 0xfd :: leBytes 2 n
  else if n < 0x100000000 then 0xfe :: leBytes 4 n
  else 0xff :: leBytes 8 n

def zero32 : Bytes := List.replicate 32 0

/-- the constant returned by `SignatureHash` for SIGHASH_SINGLE without a matching output -/
def one32 : Bytes := 1 :: List.replicate 31 0

/-- `btc.GetOpcode(b)`: `some (opcode, n)` (n = bytes consumed) or `none` for any of its errors. -/
def getOpcode (b : Bytes) : Option (Nat × Nat) :=
  match b with
  | [] => none                                              -- "GetOpcode error 1"
  | op :: t =>
    let opcode := op.toNat
    if opcode ≤ 0x4e then
      let hdr : Option (Nat × Nat) :=                        -- (size, pc after the length field)
        if opcode < 0x4c then some (opcode, 1)
        else if opcode = 0x4c then (if 2 ≤ b.length then some (leVal (t.take 1), 2) else none)
        else if opcode = 0x4d then (if 3 ≤ b.length then some (leVal (t.take 2), 3) else none)
        else (if 5 ≤ b.length then some (leVal (t.take 4), 5) else none)
      match hdr with
      | none => none
      | some (size, pc) => if pc + size > b.length then none else some (opcode, pc + size)
    else some (opcode, 1)

/-- the loop at the top of `SignatureHash`: copy every opcode except 0xab; a decode error `break`s
    (the tail is dropped). Fuel = number of loop iterations still allowed (each consumes ≥ 1 byte). -/
def stripCodeSepAux : Nat → Bytes → Bytes
  | 0, _ => []
  | fuel+1, sc =>
    if sc.isEmpty then [] else
    match getOpcode sc with
    | none => []
    | some (op, n) => (if op ≠ 0xab then sc.take n else []) ++ stripCodeSepAux fuel (sc.drop n)

def stripCodeSep (sc : Bytes) : Bytes := stripCodeSepAux sc.length sc

/-- result of one digest request -/
inductive Res where
  /-- Go run-time panic -/
  | panic
  /-- a digest returned without hashing anything (legacy `01 00…00`; pre-fix taproot `00…00`) -/
  | const (d : Bytes)
  /-- `nil` returned: no digest (post-fix `TaprootSigHash` where BIP341 defines none) -/
  | undefined
  /-- `pre` was fed to the final hash, `digest` came out -/
  | hashed (pre : Bytes) (digest : Bytes)
deriving DecidableEq, Repr, Inhabited

def Res.digest? : Res → Option Bytes
  | .const d => some d
  | .hashed _ d => some d
  | _ => none

def Res.pre? : Res → Option Bytes
  | .hashed p _ => some p
  | _ => none

/-! ### legacy -/

def serOut (o : TxOut) : Bytes := le64 o.value ++ writeVlen o.pkScript.length ++ o.pkScript
def serOutpoint (i : TxIn) : Bytes := i.prevHash ++ le32 i.prevIdx

/-- the non-ANYONECANPAY input loop of `SignatureHash`, input number `k` onwards -/
def legacyIns (sc : Bytes) (nIn : Nat) (ht : Nat) : Nat → List TxIn → Bytes
  | _, [] => []
  | k, i :: rest =>
    serOutpoint i
    ++ (if k = nIn then writeVlen sc.length ++ sc else [0])
    ++ (if (ht = 2 ∨ ht = 3) ∧ k ≠ nIn then [0, 0, 0, 0] else le32 i.sequence)
    ++ legacyIns sc nIn ht (k+1) rest

/-- `Tx.SignatureHash(scriptCode, nIn, hashType)` -/
def signatureHash (H : Bytes → Bytes) (tx : Tx) (scriptCode : Bytes) (nIn : Nat) (hashType : Nat) : Res :=
  let sc := stripCodeSep scriptCode
  let ht := hashType &&& 0x1f
  let insPart : Option Bytes :=
    if hashType &&& 0x80 ≠ 0 then
      match tx.ins[nIn]? with
      | none => none
      | some i => some ([1] ++ serOutpoint i ++ writeVlen sc.length ++ sc ++ le32 i.sequence)
    else some (writeVlen tx.ins.length ++ legacyIns sc nIn ht 0 tx.ins)
  match insPart with
  | none => .panic
  | some insPart =>
    let outsPart : Option Bytes :=
      if ht = 2 then some [0]
      else if ht = 3 then
        match tx.outs[nIn]? with
        | none => none
        | some o => some (writeVlen (nIn + 1)
                          ++ (List.replicate nIn [0xff,0xff,0xff,0xff,0xff,0xff,0xff,0xff,0]).flatten
                          ++ serOut o)
      else some (writeVlen tx.outs.length ++ tx.outs.flatMap serOut)
    match outsPart with
    | none => .const one32
    | some outsPart =>
      let pre := le32 tx.version ++ insPart ++ outsPart ++ le32 tx.lockTime ++ le32 hashType
      .hashed pre (H (H pre))

/-! ### the cache -/

/-- `taprootSHType` -/
structure TapSingle where
  prevouts : Bytes
  amounts : Bytes
  scripts : Bytes
  sequences : Bytes
deriving DecidableEq, Repr, Inhabited

/-- the lazily filled fields of `TxVerVars` (nil pointer = `none`) -/
structure Cache where
  hashPrevouts : Option Bytes := none
  hashSequence : Option Bytes := none
  hashOutputs : Option Bytes := none
  tapSingle : Option TapSingle := none
  tapOutSingle : Option Bytes := none
deriving DecidableEq, Repr, Inhabited

def Cache.empty : Cache := {}

/-- `if tx.f == nil { tx.f = compute } ; use tx.f` -/
def lazyGet {α : Type} (cur : Option α) (compute : α) : α × Option α :=
  match cur with
  | some h => (h, some h)
  | none => (compute, some compute)

/-! ### BIP143 -/

def prevoutsBytes (tx : Tx) : Bytes := tx.ins.flatMap serOutpoint
def sequencesBytes (tx : Tx) : Bytes := tx.ins.flatMap fun i => le32 i.sequence
def outputsBytes (tx : Tx) : Bytes := tx.outs.flatMap serOut

/-- `Tx.WitnessSigHash(scriptCode, amount, nIn, hashType)` -/
def witnessSigHash (H : Bytes → Bytes) (tx : Tx) (c : Cache) (scriptCode : Bytes) (amount nIn hashType : Nat) :
    Res × Cache :=
  let acp := hashType &&& 0x80 ≠ 0
  let ht := hashType &&& 0x1f
  let r1 := if ¬ acp then lazyGet c.hashPrevouts (H (H (prevoutsBytes tx))) else (zero32, c.hashPrevouts)
  let r2 := if ¬ acp ∧ ht ≠ 3 ∧ ht ≠ 2 then lazyGet c.hashSequence (H (H (sequencesBytes tx)))
            else (zero32, c.hashSequence)
  let r3 := if ht ≠ 3 ∧ ht ≠ 2 then lazyGet c.hashOutputs (H (H (outputsBytes tx)))
            else if ht = 3 then
              match tx.outs[nIn]? with
              | some o => (H (H (serOut o)), c.hashOutputs)
              | none => (zero32, c.hashOutputs)
            else (zero32, c.hashOutputs)
  let c' : Cache := { c with hashPrevouts := r1.2, hashSequence := r2.2, hashOutputs := r3.2 }
  match tx.ins[nIn]? with
  | none => (.panic, c')
  | some i =>
    let pre := le32 tx.version ++ r1.1 ++ r2.1 ++ serOutpoint i
               ++ writeVlen scriptCode.length ++ scriptCode ++ le64 amount ++ le32 i.sequence
               ++ r3.1 ++ le32 tx.lockTime ++ le32 hashType
    (.hashed pre (H (H pre)), c')

/-! ### BIP341 / BIP342 -/

/-- `ScriptExecutionData` as far as `TaprootSigHash` reads it -/
structure ExecData where
  /-- `M_annex_hash` (`nil` = no annex) -/
  annexHash : Option Bytes := none
  tapleafHash : Bytes := []
  codesepPos : Nat := 0xffffffff
deriving DecidableEq, Repr, Inhabited

/-- witness.go, taproot branch: `sha256(WriteVlen(len(annex)) ‖ annex)` stored in `M_annex_hash` -/
def annexHashOf (H : Bytes → Bytes) (annex : Bytes) : Bytes := H (writeVlen annex.length ++ annex)

/-- ASCII "TapSighash" -/
def tapSighashTag : Bytes := [0x54, 0x61, 0x70, 0x53, 0x69, 0x67, 0x68, 0x61, 0x73, 0x68]

/-- what `Hasher(HASHER_TAPSIGHASH)` has already absorbed: SHA256(tag) ‖ SHA256(tag) -/
def tagPrefix (H : Bytes → Bytes) : Bytes := H tapSighashTag ++ H tapSighashTag

/-- the block filling `tx.tapSingleHashes`; `none` = panic on `Spent_outputs[i]` — the pointer is
    assigned BEFORE the loops run, so after a panic the field holds the prevouts hash and three
    all-zero arrays. -/
def tapSingleFill (H : Bytes → Bytes) (tx : Tx) (spent : List TxOut) : Option TapSingle × TapSingle :=
  let po := H (prevoutsBytes tx)
  if spent.length < tx.ins.length then
    (none, { prevouts := po, amounts := zero32, scripts := zero32, sequences := zero32 })
  else
    let sp := spent.take tx.ins.length
    let t : TapSingle :=
      { prevouts := po
        amounts := H (sp.flatMap fun o => le64 o.value)
        scripts := H (sp.flatMap fun o => writeVlen o.pkScript.length ++ o.pkScript)
        sequences := H (sequencesBytes tx) }
    (some t, t)

/-- `if tx.tapSingleHashes == nil { … }`: the value used (`none` = panic) and the cache afterwards -/
def tapSingleGet (H : Bytes → Bytes) (tx : Tx) (spent : List TxOut) (c : Cache) : Option TapSingle × Cache :=
  match c.tapSingle with
  | some t => (some t, c)
  | none =>
    let f := tapSingleFill H tx spent
    (f.1, { c with tapSingle := some f.2 })

/-- the part of `TaprootSigHash` after the two cached blocks (it does not touch the cache):
    `m` is what has been written so far (epoch, hash type, version, lock time, cached hashes). -/
def taprootTail (undef : Res) (H : Bytes → Bytes) (tx : Tx) (spent : List TxOut) (ed : ExecData)
    (inPos hashType : Nat) (script : Bool) (m : Bytes) : Res :=
  let extFlag := if script then 1 else 0
  let outputType := if hashType = 0 then 1 else hashType &&& 3
  let inputType := hashType &&& 0x80
  let spendType : Nat := extFlag * 2 + (if ed.annexHash.isSome then 1 else 0)
  let m1 := m ++ [UInt8.ofNat spendType]
  let inPart : Option Bytes :=
    if inputType = 0x80 then
      match tx.ins[inPos]?, spent[inPos]? with
      | some i, some o => some (serOutpoint i ++ le64 o.value ++ writeVlen o.pkScript.length ++ o.pkScript ++ le32 i.sequence)
      | _, _ => none
    else some (le32 inPos)
  match inPart with
  | none => .panic
  | some inPart =>
    let m2 := m1 ++ inPart ++ (match ed.annexHash with | some a => a | none => [])
    let outPart : Option Bytes :=
      if outputType = 3 then
        match tx.outs[inPos]? with
        | none => none
        | some o => some (H (serOut o))
      else some []
    match outPart with
    | none => undef
    | some outPart =>
      let m3 := m2 ++ outPart ++ (if script then ed.tapleafHash ++ [0] ++ le32 ed.codesepPos else [])
      let pre := tagPrefix H ++ m3
      .hashed pre (H pre)

/-- `Tx.TaprootSigHash(execdata, in_pos, hash_type, script)` -/
def taprootSigHash (fixed : Bool) (H : Bytes → Bytes) (tx : Tx) (spent : List TxOut) (c : Cache)
    (ed : ExecData) (inPos : Nat) (hashType : Nat) (script : Bool) : Res × Cache :=
  let undef : Res := if fixed then .undefined else .const zero32
  let outputType := if hashType = 0 then 1 else hashType &&& 3
  let inputType := hashType &&& 0x80
  if ¬ (hashType ≤ 0x03 ∨ (0x81 ≤ hashType ∧ hashType ≤ 0x83)) then (undef, c) else
  let m0 : Bytes := [0] ++ [UInt8.ofNat hashType] ++ le32 tx.version ++ le32 tx.lockTime
  -- tapSingleHashes
  let s1 : Option Bytes × Cache :=
    if inputType ≠ 0x80 then
      let g := tapSingleGet H tx spent c
      (g.1.map fun t => t.prevouts ++ t.amounts ++ t.scripts ++ t.sequences, g.2)
    else (some [], c)
  match s1.1 with
  | none => (.panic, s1.2)
  | some b1 =>
  -- tapOutSingleHash
  let r2 : Bytes × Cache :=
    if outputType = 1 then
      let r := lazyGet s1.2.tapOutSingle (H (outputsBytes tx))
      (r.1, { s1.2 with tapOutSingle := r.2 })
    else ([], s1.2)
  (taprootTail undef H tx spent ed inPos hashType script (m0 ++ b1 ++ r2.1), r2.2)

/-! ### the Schnorr signature check -/

/-- what `CheckSchnorrSignature` does with a signature: fail outright, or hand `(pubkey, sig64, msg)`
    to `btc.SchnorrVerify` -/
inductive Plan where
  | fail
  | panic
  | verify (pubkey sig msg : Bytes)
deriving DecidableEq, Repr, Inhabited

/-- `SigChecker.CheckSchnorrSignature(sig, pubkey, sigversion, execdata)` up to the call of
    `btc.SchnorrVerify`; `tapscript` is `sigversion == SIGVERSION_TAPSCRIPT`. -/
def schnorrPlan (fixed : Bool) (H : Bytes → Bytes) (tx : Tx) (spent : List TxOut) (c : Cache)
    (sig pubkey : Bytes) (tapscript : Bool) (ed : ExecData) (idx : Nat) : Plan × Cache :=
  if sig.length ≠ 64 ∧ sig.length ≠ 65 then (.fail, c) else
  let hashtype : Nat := if sig.length = 65 then (sig.getD 64 0).toNat else 0
  if sig.length = 65 ∧ hashtype = 0 then (.fail, c) else
  let sig64 := sig.take 64
  match taprootSigHash fixed H tx spent c ed idx hashtype tapscript with
  | (.panic, c') => (.panic, c')
  | (.undefined, c') => (.fail, c')                    -- `if sh == nil { return false }`
  | (.const d, c') => (.verify pubkey sig64 d, c')
  | (.hashed _ d, c') => (.verify pubkey sig64 d, c')

/-- verdict of `CheckSchnorrSignature` for a given `btc.SchnorrVerify` (`none` = panic) -/
def checkSchnorrSignature (fixed : Bool) (V : Bytes → Bytes → Bytes → Bool) (H : Bytes → Bytes) (tx : Tx)
    (spent : List TxOut) (c : Cache) (sig pubkey : Bytes) (tapscript : Bool) (ed : ExecData) (idx : Nat) :
    Option Bool :=
  match (schnorrPlan fixed H tx spent c sig pubkey tapscript ed idx).1 with
  | .fail => some false
  | .panic => none
  | .verify pk s m => some (V pk s m)

/-! ### delSig (FindAndDelete of one signature push) -/

/-- the push opcode `delSig` places in front of the signature (its `switch` on `len(sig)`): a direct push
    below OP_PUSHDATA1, else PUSHDATA1/2/4 with `byte(len)`, `byte(len>>8)`, … (truncating conversions) -/
def sigPushPrefix (n : Nat) : Bytes :=
  if n < 0x4c then [UInt8.ofNat n]
  else if n ≤ 0xff then [0x4c, UInt8.ofNat n]
  else if n ≤ 0xffff then 0x4d :: leBytes 2 n
  else 0x4e :: leBytes 4 n

def delSigAux (pat : Bytes) : Nat → Bytes → Bytes × Nat
  | 0, _ => ([], 0)
  | fuel+1, w =>
    if w.isEmpty then ([], 0) else
    match getOpcode w with
    | none => ([], 0)                                      -- prints and returns what it has
    | some (_, n) =>
      let r := delSigAux pat fuel (w.drop n)
      if w.take n ≠ pat then (w.take n ++ r.1, r.2) else (r.1, r.2 + 1)

/-- `delSig(where, sig)`: (script without the pushes of `sig`, number removed) -/
def delSig (wh sig : Bytes) : Bytes × Nat :=
  delSigAux (sigPushPrefix sig.length ++ sig) wh.length wh

/-! ### call sequences on one transaction object -/

inductive Call where
  | leg (sc : Bytes) (nIn ht : Nat)
  | wit (sc : Bytes) (amount nIn ht : Nat)
  | tap (ed : ExecData) (inPos ht : Nat) (script : Bool)
deriving DecidableEq, Repr, Inhabited

def step (fixed : Bool) (H : Bytes → Bytes) (tx : Tx) (spent : List TxOut) (c : Cache) : Call → Res × Cache
  | .leg sc nIn ht => (signatureHash H tx sc nIn ht, c)
  | .wit sc am nIn ht => witnessSigHash H tx c sc am nIn ht
  | .tap ed p ht s => taprootSigHash fixed H tx spent c ed p ht s

/-- run the calls one after the other on the same transaction object -/
def runCalls (fixed : Bool) (H : Bytes → Bytes) (tx : Tx) (spent : List TxOut) : Cache → List Call → List Res × Cache
  | c, [] => ([], c)
  | c, k :: ks =>
    let r := step fixed H tx spent c k
    let rs := runCalls fixed H tx spent r.2 ks
    (r.1 :: rs.1, rs.2)

end GocoinV.SigHash
