/-
  Model.Base58 — mirror of Encodeb58 / Decodeb58 / b58chr2int (lib/btc/addr.go).
  math/big is modelled as Nat. Go strings are byte strings. `none` = nil result.
  The alphabet is REGENERATED from the source (Gen/Base58Consts.lean).
-/
import GocoinV.Base.Bytes
import GocoinV.Gen.Base58Consts
namespace GocoinV.Base58

open Gen.Base58Consts

/-- `b58chr2int`: index in the alphabet or `none` (-1). First match wins, as in the Go loop. -/
def chr2int (c : UInt8) : Option Nat :=
  let i := b58set.findIdx (· == c)
  if i < b58set.length then some i else none

def digitChar (d : Nat) : UInt8 := b58set.getD d 0

/-- base-58 digits of n, most significant first (empty for 0) — the `for bn != 0` loop -/
def digits (n : Nat) : List Nat :=
  if _h : n = 0 then [] else digits (n / 58) ++ [n % 58]
decreasing_by omega

/-- minimal big-endian bytes of n (`big.Int.Bytes`): empty for 0 -/
def natBytes (n : Nat) : Bytes :=
  if _h : n = 0 then [] else natBytes (n / 256) ++ [UInt8.ofNat (n % 256)]
decreasing_by omega

def leadingZeros (a : Bytes) : Nat := (a.takeWhile (· == 0)).length

/-- `Encodeb58`. (The Go buffer of len*138/100+1 bytes is large enough: see theorem
    `encode_fits` in Props/C15; an overflow would be an index panic.) -/
def encode (a : Bytes) : Bytes :=
  List.replicate (leadingZeros a) (digitChar 0) ++ (digits (beVal a)).map digitChar

/-- value of a digit string: `bn = bn*58 + v`; none if a character is not in the alphabet -/
def value? : Bytes → Nat → Option Nat
  | [], acc => some acc
  | c :: t, acc => match chr2int c with
    | none => none
    | some v => value? t (acc * 58 + v)

/-- `Decodeb58`; `none` = nil (bad character, or empty result) -/
def decode (s : Bytes) : Option Bytes :=
  match value? s 0 with
  | none => none
  | some bn =>
    let i := (s.takeWhile (· == digitChar 0)).length
    let res := List.replicate i (0 : UInt8) ++ natBytes bn
    if res.isEmpty then none else some res

end GocoinV.Base58
