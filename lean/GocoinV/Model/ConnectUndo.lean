/-
  Model.ConnectUndo — the undo files of lib/utxo/unspent_db.go, as far as the property's clause "never spent twice /
  the set is what the chain created" depends on them through a re-organisation:

    CommitBlockTxs   if changes.UndoData != nil { go func() { … os.WriteFile(dir_undo+"tmp", …); os.Rename(dir_undo+"tmp", undo_fn) }() }
                     with undo_fn = dir_undo + <HEIGHT>            (commitTxs makes UndoData a non-nil, possibly EMPTY map
                                                                    for every block within UnwindBufLen of the last known one)
    UndoBlockTxs     delete the records of the block's transactions (by 8-byte key);
                     dat, er := os.ReadFile(dir_undo + <LastBlockHeight>); if er != nil { panic }
                     for each record of the file: merge with what the set still holds, store
                     //os.Remove(fn) — the file is KEPT

  A file is named by the height alone and survives the undo: after a re-organisation undo/<h> may hold the records
  that a block of ANOTHER branch spent at height h.  Two structural facts of the source decide whether such a stale file
  can ever be read back; both are regenerated from the source on every run (Gen.C04Facts, go/cmd/gen_c04) and are the
  parameters of this model (`UndoCfg.current`).  Core-only.
-/
import GocoinV.Model.Connect
import GocoinV.Gen.C04Facts
namespace GocoinV.Connect

structure UndoCfg where
  /-- the file is put in place whenever UndoData was collected (non-nil) — also when it is empty -/
  writeWheneverCollected : Bool
  /-- UndoBlockTxs panics when the file cannot be read -/
  missingPanics : Bool
  deriving DecidableEq, Repr

/-- what /repo contains now -/
def UndoCfg.current : UndoCfg := ⟨Gen.C04Facts.undoWrittenWheneverCollected, Gen.C04Facts.undoMissingPanics⟩

/-- the directory undo/: file name = height, content = the records to add back (the leading block hash is skipped by the reader) -/
abbrev UndoDir := List (Nat × List Rec)

/-- CommitBlockTxs, undo part. `collected = none` ⇔ `changes.UndoData == nil`. -/
def writeUndo (cfg : UndoCfg) (dir : UndoDir) (height : Nat) (collected : Option (List Rec)) : UndoDir :=
  match collected with
  | none => dir
  | some recs => if cfg.writeWheneverCollected || !recs.isEmpty then aSet dir height recs else dir

/-- UndoBlockTxs, reading the file of the height being undone; `none` = panic -/
def readUndo (cfg : UndoCfg) (dir : UndoDir) (height : Nat) : Option (List Rec) :=
  match aGet dir height with
  | some recs => some recs
  | none => if cfg.missingPanics then none else some []

/-- `if rec.Outs[a] == nil { rec.Outs[a] = oldrec.Outs[a] }` -/
def mergeOuts : List (Option TxOut) → List (Option TxOut) → List (Option TxOut)
  | a :: as, b :: bs => (match a with | some x => some x | none => b) :: mergeOuts as bs
  | as, [] => as
  | [], _ => []

/-- one record of the undo file goes back into the set -/
def addBack (db : DB) (r : Rec) : DB :=
  match aGet db (key8 r.txid) with
  | some old => aSet db (key8 r.txid) { r with outs := mergeOuts r.outs old.outs }
  | none => aSet db (key8 r.txid) r

/-- `UndoBlockTxs` for the block at `height` whose transactions have the ids `txids`; `none` = panic -/
def undoBlockTxs (cfg : UndoCfg) (db : DB) (dir : UndoDir) (height : Nat) (txids : List Bytes) : Option DB :=
  match readUndo cfg dir height with
  | none => none
  | some recs => some (recs.foldl addBack (txids.foldl (fun d h => aDel d (key8 h)) db))

end GocoinV.Connect
