/-
  Model.Wire — transaction / block wire format of lib/btc (tx.go, funcs.go, block.go). Core-only,
  self-contained (imports GocoinV.Base.* only). Mirrors the code AS FIXED by the /repo commits
  5f0d89be "fix: wire decoders refuse non-canonical CompactSize, …", 39cf1587 "fix: NewBlock returns an error …",
  b2c711ed "fix: NewTx never reads past the length of its buffer" and "fix: NewTx refuses a transaction without
  inputs that has outputs (unknown optional data)".

  ## Public API (stable; C02 / C04 / C18 import this file)

  Data
    `Wire.TxIn`   prevHash (32 bytes) · prevIdx (uint32) · scriptSig · sequence (uint32)
    `Wire.TxOut`  value (uint64) · pkScript
    `Wire.Tx`     version · ins · outs · witness : Option (List (List Bytes)) (= Tx.SegWit, none = nil) · lockTime
    `Wire.Tx.WF`  field ranges + what makes an encoding unambiguous (see `WF`)

  Decoders (Go panics → recovered → `none`; a returned `nil,0` is `none` too)
    `Wire.vlenWire      : Bytes → Option (Nat × Bytes)`        btc.vlenWire (canonical, value ≤ bytes left)
    `Wire.vlenLax       : Bytes → Option (Nat × Bytes)`        the pre-fix reader btc.VLen (any form, Go `int`)
    `Wire.decodeTxIn    : Bytes → Option (TxIn × Bytes)`       btc.NewTxIn   (value, rest)
    `Wire.decodeTxOut   : Bytes → Option (TxOut × Bytes)`      btc.NewTxOut
    `Wire.decodeTxFull  : Bytes → Option Decoded`              btc.NewTx: tx, consumed, NoWitSize as NewTx sets it
    `Wire.decodeTx      : Bytes → Option (Tx × Nat)`           (tx, consumed) of btc.NewTx
    `Wire.txSize        : Bytes → Nat`                         btc.TxSize (0 = failure)
    `Wire.decodeTxLax`                                         NewTx as it was BEFORE the fix (for the counterexamples)

  Encoders
    `Wire.encodeTxIn / encodeTxOut / encodeWitness`
    `Wire.encodeTxNoWit : Tx → Bytes`                          Tx.Serialize      (legacy / stripped form)
    `Wire.encodeTx      : Tx → Bytes`                          Tx.SerializeNew   (BIP144 form iff witness ≠ none)

  Sizes and ids (hash function is a parameter `H : Bytes → Bytes`; instantiate with `GocoinV.sha256d`)
    `Wire.setHash H tx raw : Ids`                              Tx.SetHash(raw): hash, wtxid, size, noWitSize
    `Wire.weight / Wire.vsize : Nat → Nat → Nat`               Tx.Weight / Tx.VSize from (noWitSize, size)
    `Wire.txid H tx`, `Wire.wtxid H tx`                        BIP141 definitions (spec side)

  Blocks
    `Wire.decodeBlock H raw : BlockRes`                        btc.NewBlock + BuildTxList: error class, txs parsed,
                                                               their ids, BlockWeight
    `Wire.blockWeightSpec`                                     BIP141 block weight of the parsed part

  Conventions: offsets are not tracked; every decoder returns the unconsumed rest and
  `consumed = input.length - rest.length`. btc.NewTx clips the capacity of its argument to its length
  (fix commit "NewTx never reads past the length of its buffer"), so list length = Go len.
-/
import GocoinV.Base.Bytes
namespace GocoinV.Wire
open GocoinV.CompactSize

/-! ### data -/

structure TxIn where
  prevHash : Bytes
  prevIdx : Nat
  scriptSig : Bytes
  sequence : Nat
deriving DecidableEq, Repr, Inhabited

structure TxOut where
  value : Nat
  pkScript : Bytes
deriving DecidableEq, Repr, Inhabited

structure Tx where
  version : Nat
  ins : List TxIn
  outs : List TxOut
  /-- `Tx.SegWit`: `none` = nil slice (legacy serialisation), `some stacks` = one stack per input -/
  witness : Option (List (List Bytes))
  lockTime : Nat
deriving DecidableEq, Repr, Inhabited

/-! ### primitive readers -/

/-- Go `b[0:k]`, then continue with `b[k:]`; `none` = slice bounds out of range. -/
def readN (k : Nat) (b : Bytes) : Option (Bytes × Bytes) :=
  if k ≤ b.length then some (b.take k, b.drop k) else none

/-- `btc.vlenWire`: canonical CompactSize whose value does not exceed the bytes that follow. -/
def vlenWire (b : Bytes) : Option (Nat × Bytes) :=
  let r := vule b
  if r.2 = 0 ∨ r.2 ≠ vlenSize r.1 ∨ r.1 > b.length - r.2 then none else some (r.1, b.drop r.2)

/-! #### compiled-code shortcuts (`@[csimp]`: proved equal, the compiler uses the fast form; the
     definitions above stay the ones every theorem is about). `k ≤ b.length` walks the whole rest of the
     input; `leLen k b` stops after `k` cells. -/

def leLen : Nat → Bytes → Bool
  | 0, _ => true
  | _+1, [] => false
  | k+1, _ :: t => leLen k t

theorem leLen_iff (k : Nat) (b : Bytes) : leLen k b = true ↔ k ≤ b.length := by
  induction k generalizing b with
  | zero => simp [leLen]
  | succ k ih =>
    cases b with
    | nil => simp [leLen]
    | cons x t => simp [leLen, ih]

def readNFast (k : Nat) (b : Bytes) : Option (Bytes × Bytes) :=
  if leLen k b then some (b.take k, b.drop k) else none

@[csimp] theorem readN_eq_fast : @readN = @readNFast := by
  funext k b
  unfold readN readNFast
  by_cases h : k ≤ b.length
  · simp [h, (leLen_iff k b).2 h]
  · have : leLen k b = false := by
      cases hh : leLen k b with
      | false => rfl
      | true => exact absurd ((leLen_iff k b).1 hh) h
    simp [h, this]

def vlenWireFast (b : Bytes) : Option (Nat × Bytes) :=
  let r := vule b
  if r.2 = 0 ∨ r.2 ≠ vlenSize r.1 then none
  else
    let rest := b.drop r.2
    if leLen r.1 rest then some (r.1, rest) else none

@[csimp] theorem vlenWire_eq_fast : @vlenWire = @vlenWireFast := by
  funext b
  unfold vlenWire vlenWireFast
  by_cases h1 : (vule b).2 = 0 ∨ (vule b).2 ≠ vlenSize (vule b).1
  · have : (vule b).2 = 0 ∨ (vule b).2 ≠ vlenSize (vule b).1 ∨ (vule b).1 > b.length - (vule b).2 := by
      rcases h1 with h | h
      · exact Or.inl h
      · exact Or.inr (Or.inl h)
    simp only [this, h1, ↓reduceIte]
  · simp only [h1, ↓reduceIte]
    have hl : (b.drop (vule b).2).length = b.length - (vule b).2 := by simp
    by_cases h2 : (vule b).1 ≤ b.length - (vule b).2
    · have h3 : leLen (vule b).1 (b.drop (vule b).2) = true := (leLen_iff _ _).2 (by rw [hl]; exact h2)
      have h4 : ¬ ((vule b).2 = 0 ∨ (vule b).2 ≠ vlenSize (vule b).1 ∨ (vule b).1 > b.length - (vule b).2) := by
        intro hc
        rcases hc with h | h | h
        · exact h1 (Or.inl h)
        · exact h1 (Or.inr h)
        · omega
      simp only [h3, h4, ↓reduceIte]
    · have h3 : leLen (vule b).1 (b.drop (vule b).2) = false := by
        cases hh : leLen (vule b).1 (b.drop (vule b).2) with
        | false => rfl
        | true => exact absurd (by have := (leLen_iff _ _).1 hh; rw [hl] at this; exact this) h2
      have h4 : ((vule b).2 = 0 ∨ (vule b).2 ≠ vlenSize (vule b).1 ∨ (vule b).1 > b.length - (vule b).2) :=
        Or.inr (Or.inr (by omega))
      simp only [h3, h4, ↓reduceIte]
      simp

/-- `btc.VLen` as the decoders used it before the fix: any of the four forms; the value is a Go
    `int`, a negative one makes the following `make` panic (= `none`). No bound. -/
def vlenLax (b : Bytes) : Option (Nat × Bytes) :=
  let r := vule b
  if r.2 = 0 ∨ r.1 ≥ 2^63 then none else some (r.1, b.drop r.2)

/-- decode `n` consecutive elements (Go: `make([]T, n)` and a `for i := range` loop that returns
    `nil` as soon as an element fails). Structural on the count: no fuel. -/
def decodeN {α : Type} (f : Bytes → Option (α × Bytes)) : Nat → Bytes → Option (List α × Bytes)
  | 0, b => some ([], b)
  | n+1, b =>
    match f b with
    | none => none
    | some (x, b') =>
      match decodeN f n b' with
      | none => none
      | some (xs, b'') => some (x :: xs, b'')

/-! ### elements (parametrised by the length reader so that the pre-fix decoder can be stated too) -/

/-- `btc.NewTxIn` -/
def decodeTxInWith (rd : Bytes → Option (Nat × Bytes)) (b : Bytes) : Option (TxIn × Bytes) :=
  match readN 32 b with
  | none => none
  | some (h, b) =>
  match readN 4 b with
  | none => none
  | some (v, b) =>
  match rd b with
  | none => none
  | some (le, b) =>
  match readN le b with
  | none => none
  | some (s, b) =>
  match readN 4 b with
  | none => none
  | some (q, b) => some ({ prevHash := h, prevIdx := leVal v, scriptSig := s, sequence := leVal q }, b)

/-- `btc.NewTxOut` -/
def decodeTxOutWith (rd : Bytes → Option (Nat × Bytes)) (b : Bytes) : Option (TxOut × Bytes) :=
  match readN 8 b with
  | none => none
  | some (v, b) =>
  match rd b with
  | none => none
  | some (le, b) =>
  match readN le b with
  | none => none
  | some (s, b) => some ({ value := leVal v, pkScript := s }, b)

/-- one witness item: length prefix + bytes -/
def decodeItemWith (rd : Bytes → Option (Nat × Bytes)) (b : Bytes) : Option (Bytes × Bytes) :=
  match rd b with
  | none => none
  | some (le, b) => readN le b

/-- one witness stack: item count + items -/
def decodeStackWith (rd : Bytes → Option (Nat × Bytes)) (b : Bytes) : Option (List Bytes × Bytes) :=
  match rd b with
  | none => none
  | some (n, b) => decodeN (decodeItemWith rd) n b

def decodeTxIn := decodeTxInWith vlenWire
def decodeTxOut := decodeTxOutWith vlenWire
def decodeItem := decodeItemWith vlenWire
def decodeStack := decodeStackWith vlenWire

/-! ### transactions -/

/-- result of `btc.NewTx`: the transaction, the bytes consumed and `tx.NoWitSize` as NewTx leaves it -/
structure Decoded where
  tx : Tx
  consumed : Nat
  noWitSize : Nat
deriving DecidableEq, Repr

/-- marker/flag test `b[offs] == 0 && b[offs+1] == 1` with Go's short-circuit and index panics:
    `none` = panic, `some (segwit, rest)`. -/
def readMarker (b : Bytes) : Option (Bool × Bytes) :=
  match b with
  | [] => none
  | x :: t =>
    if x = 0 then
      match t with
      | [] => none
      | y :: t' => if y = 1 then some (true, t') else some (false, b)
    else some (false, b)

/-- all witness stacks empty (`haswit` stayed false) -/
def noWitness (w : List (List Bytes)) : Bool := w.all (·.isEmpty)

/-- `btc.NewTx`, parametrised by the length reader and by `strict`: whether the two refusals of Bitcoin's
    deserialiser that are not length checks are made — a superfluous witness record (witness flag, all stacks
    empty) and "unknown optional data" (an empty input vector in the legacy layout followed by a non-zero
    byte: that byte is the flags field of the extended format, and only 01 is defined).
    `strict = false` is the shape `btc.TxSize` walks (it has neither rule) and, with `vlenLax`, the pre-fix NewTx. -/
def decodeTxWith (rd : Bytes → Option (Nat × Bytes)) (strict : Bool) (b : Bytes) : Option Decoded :=
  match readN 4 b with
  | none => none
  | some (ver, b1) =>
  match readMarker b1 with
  | none => none
  | some (segwit, b2) =>
  match rd b2 with
  | none => none
  | some (nin, b3) =>
  match decodeN (decodeTxInWith rd) nin b3 with
  | none => none
  | some (ins, b4) =>
  match rd b4 with
  | none => none
  | some (nout, b5) =>
  if strict && (!segwit && nin == 0 && nout != 0) then none else
  match decodeN (decodeTxOutWith rd) nout b5 with
  | none => none
  | some (outs, b6) =>
  let offs := b.length - b6.length
  if segwit then
    match decodeN (decodeStackWith rd) ins.length b6 with
    | none => none
    | some (wit, b7) =>
    if strict && noWitness wit then none else
    match readN 4 b7 with
    | none => none
    | some (lt, rest) =>
      some { tx := { version := leVal ver, ins := ins, outs := outs, witness := some wit, lockTime := leVal lt },
             consumed := b.length - rest.length, noWitSize := (offs - 2 + 4) % 2^32 }
  else
    match readN 4 b6 with
    | none => none
    | some (lt, rest) =>
      some { tx := { version := leVal ver, ins := ins, outs := outs, witness := none, lockTime := leVal lt },
             consumed := b.length - rest.length, noWitSize := (offs + 4) % 2^32 }

/-- `btc.NewTx` (current code) -/
def decodeTxFull (b : Bytes) : Option Decoded := decodeTxWith vlenWire true b

/-- `(tx, consumed)` of `btc.NewTx` -/
def decodeTx (b : Bytes) : Option (Tx × Nat) := (decodeTxFull b).map fun d => (d.tx, d.consumed)

/-- `btc.NewTx` as it was before the fix commit (lax lengths, superfluous witness accepted).
    NOT a model of the nil-element behaviour of the old loop; used only for accepted inputs. -/
def decodeTxLax (b : Bytes) : Option (Tx × Nat) := (decodeTxWith vlenLax false b).map fun d => (d.tx, d.consumed)

/-! ### encoders -/

def encodeTxIn (i : TxIn) : Bytes :=
  i.prevHash ++ (leBytes 4 i.prevIdx ++ (putULe i.scriptSig.length ++ (i.scriptSig ++ leBytes 4 i.sequence)))

def encodeTxOut (o : TxOut) : Bytes :=
  leBytes 8 o.value ++ (putULe o.pkScript.length ++ o.pkScript)

def encodeItem (x : Bytes) : Bytes := putULe x.length ++ x

def encodeList {α : Type} (f : α → Bytes) : List α → Bytes
  | [] => []
  | x :: xs => f x ++ encodeList f xs

def encodeStack (s : List Bytes) : Bytes := putULe s.length ++ encodeList encodeItem s

def encodeWitness (w : List (List Bytes)) : Bytes := encodeList encodeStack w

/-- inputs and outputs with their counts (shared by both serialisations) -/
def encodeBody (t : Tx) : Bytes :=
  putULe t.ins.length ++ (encodeList encodeTxIn t.ins ++ (putULe t.outs.length ++ encodeList encodeTxOut t.outs))

/-- `Tx.Serialize` (non-segwit format) -/
def encodeTxNoWit (t : Tx) : Bytes :=
  leBytes 4 t.version ++ (encodeBody t ++ leBytes 4 t.lockTime)

/-- `Tx.SerializeNew` (BIP144 format when `SegWit != nil`) -/
def encodeTx (t : Tx) : Bytes :=
  match t.witness with
  | none => encodeTxNoWit t
  | some w => leBytes 4 t.version ++ ([0, 1] ++ (encodeBody t ++ (encodeWitness w ++ leBytes 4 t.lockTime)))

/-! ### sizes and ids -/

structure Ids where
  hash : Bytes
  wtxid : Bytes
  size : Nat
  noWitSize : Nat
deriving DecidableEq, Repr

/-- `Tx.SetHash(raw)` followed by reading `Hash`, `WTxID()`, `Size`, `NoWitSize`. -/
def setHash (H : Bytes → Bytes) (t : Tx) (raw : Bytes) : Ids :=
  let size := raw.length % 2^32
  match t.witness with
  | some _ =>
    let nw := encodeTxNoWit t
    { hash := H nw, wtxid := H raw, size := size, noWitSize := nw.length % 2^32 }
  | none => { hash := H raw, wtxid := H raw, size := size, noWitSize := size }

/-- `Tx.Weight()` -/
def weight (noWitSize size : Nat) : Nat := 3 * noWitSize + size

/-- `Tx.VSize()` (`NoWitSize+1` is a uint32 addition) -/
def vsize (noWitSize size : Nat) : Nat :=
  if noWitSize = size then size else (3 * ((noWitSize + 1) % 2^32) + size) / 4

/-- BIP141 txid: double-SHA256 of the stripped serialisation -/
def txid (H : Bytes → Bytes) (t : Tx) : Bytes := H (encodeTxNoWit t)
/-- BIP141 wtxid: double-SHA256 of the full serialisation -/
def wtxid (H : Bytes → Bytes) (t : Tx) : Bytes := H (encodeTx t)

/-! ### well-formed transactions (domain of `encode_decode`) -/

def TxIn.WF (i : TxIn) : Prop :=
  i.prevHash.length = 32 ∧ i.prevIdx < 2^32 ∧ i.sequence < 2^32 ∧ i.scriptSig.length < 2^64
def TxOut.WF (o : TxOut) : Prop := o.value < 2^64 ∧ o.pkScript.length < 2^64

/-- Exactly the transactions `btc.NewTx` can return (`decode_wf`) and whose serialisation it reads back
    (`encode_decode`): field ranges; a transaction without inputs has no outputs either (otherwise the byte
    after the input count `00` is read as the flags of the extended format: segwit marker or "unknown
    optional data"); a witness has one stack per input and at least one non-empty stack (otherwise it is
    the "superfluous witness record" the decoder refuses). -/
structure Tx.WF (t : Tx) : Prop where
  version : t.version < 2^32
  lockTime : t.lockTime < 2^32
  ins_ne : t.ins = [] → t.outs = []
  ins : ∀ i ∈ t.ins, i.WF
  outs : ∀ o ∈ t.outs, o.WF
  nins : t.ins.length < 2^64
  nouts : t.outs.length < 2^64
  wit : ∀ w, t.witness = some w → w.length = t.ins.length ∧ noWitness w = false ∧
          ∀ s ∈ w, s.length < 2^64 ∧ ∀ x ∈ s, x.length < 2^64

/-! ### TxSize -/

/-- `btc.TxInSize`: bytes taken by one input, 0 = error (`none` = slice panic) -/
def txInSize (b : Bytes) : Option Nat :=
  match readN 36 b with
  | none => none
  | some (_, b') =>
    match vlenWire b' with
    | none => some 0
    | some (le, r) => some (36 + (b'.length - r.length) + le + 4)

def txOutSize (b : Bytes) : Option Nat :=
  match readN 8 b with
  | none => none
  | some (_, b') =>
    match vlenWire b' with
    | none => some 0
    | some (le, r) => some (8 + (b'.length - r.length) + le)

/-- skip `n` elements whose size is computed by `f` (`none` or size 0 = failure; `b[offs:]` with
    `offs > len` = panic) -/
def skipN (f : Bytes → Option Nat) : Nat → Bytes → Option Bytes
  | 0, b => some b
  | n+1, b =>
    match f b with
    | none => none
    | some k => if k = 0 ∨ k > b.length then none else skipN f n (b.drop k)

def itemSize (b : Bytes) : Option Nat :=
  match vlenWire b with
  | none => none
  | some (le, r) => some ((b.length - r.length) + le)

def skipStack (b : Bytes) : Option Bytes :=
  match vlenWire b with
  | none => none
  | some (n, r) => skipN itemSize n r

def skipStacks : Nat → Bytes → Option Bytes
  | 0, b => some b
  | n+1, b => match skipStack b with
    | none => none
    | some r => skipStacks n r

/-- `btc.TxSize`: size of the transaction at the start of `b`, 0 when it cannot be determined. -/
def txSize (b : Bytes) : Nat :=
  let r : Option Nat :=
    match readN 4 b with     -- offs = 4; b[4] must exist
    | none => none
    | some (_, b1) =>
    match readMarker b1 with
    | none => none
    | some (segwit, b2) =>
    match vlenWire b2 with
    | none => none
    | some (nin, b3) =>
    match skipN txInSize nin b3 with
    | none => none
    | some b4 =>
    match vlenWire b4 with
    | none => none
    | some (nout, b5) =>
    match skipN txOutSize nout b5 with
    | none => none
    | some b6 =>
    let b7? := if segwit then skipStacks nin b6 else some b6
    match b7? with
    | none => none
    | some b7 => if 4 ≤ b7.length then some (b.length - b7.length + 4) else none
  r.getD 0

/-! ### blocks -/

inductive BlockErr | tooShort | badCount | txFailed
deriving DecidableEq, Repr

structure BlockTx where
  tx : Tx
  raw : Bytes
  ids : Ids
deriving Repr

structure BlockRes where
  err : Option BlockErr
  txCount : Nat
  txs : List BlockTx
  weight : Nat
deriving Repr

/-- parse up to `n` transactions; stops at the first failure (`Txs = Txs[:i]`); returns parsed list,
    whether all `n` were parsed -/
def decodeTxs : Nat → Bytes → List (Decoded × Bytes) × Bool
  | 0, _ => ([], true)
  | n+1, b =>
    match decodeTxFull b with
    | none => ([], false)
    | some d =>
      if d.consumed = 0 then ([], false) else
      let (l, ok) := decodeTxs n (b.drop d.consumed)
      ((d, b.take d.consumed) :: l, ok)

/-- ids of a transaction inside a block as `BuildTxListExt(true)` computes them: `Size = len(Raw)`,
    `NoWitSize` as left by NewTx, `Hash` over the stripped form, `wTxID` over Raw except for the
    coinbase of a segwit block position 0 (left all-zero). -/
def blockTxIds (H : Bytes → Bytes) (first : Bool) (d : Decoded) (raw : Bytes) : Ids :=
  let size := raw.length % 2^32
  match d.tx.witness with
  | some _ => { hash := H (encodeTxNoWit d.tx),
                wtxid := if first then List.replicate 32 0 else H raw,
                size := size, noWitSize := d.noWitSize }
  | none => { hash := H raw, wtxid := H raw, size := size, noWitSize := d.noWitSize }

def mkBlockTxs (H : Bytes → Bytes) : Bool → List (Decoded × Bytes) → List BlockTx
  | _, [] => []
  | first, (d, raw) :: l => { tx := d.tx, raw := raw, ids := blockTxIds H first d raw } :: mkBlockTxs H false l

/-- `btc.NewBlock(raw)` then `bl.BuildTxList()`. A header-only block (80 bytes) has no transactions
    to build (BuildTxList would index `Raw[80:]` = empty → vlenWire fails → badCount). -/
def decodeBlock (H : Bytes → Bytes) (raw : Bytes) : BlockRes :=
  if raw.length < 80 then { err := some .tooShort, txCount := 0, txs := [], weight := 0 } else
  match vlenWire (raw.drop 80) with
  | none => { err := some .badCount, txCount := 0, txs := [], weight := 0 }
  | some (cnt, rest) =>
    if cnt = 0 then { err := some .badCount, txCount := 0, txs := [], weight := 0 } else
    let (l, ok) := decodeTxs cnt rest
    let txs := mkBlockTxs H true l
    let w := 4 * (80 + vlenSize cnt) + (txs.map fun t => (3 * t.ids.noWitSize + t.ids.size) % 2^32).sum
    { err := if ok then none else some .txFailed, txCount := cnt, txs := txs, weight := w % 2^64 }

/-- BIP141 weight of a block made of header, count and the given transactions:
    3·base size + total size. -/
def blockWeightSpec (txs : List Tx) : Nat :=
  let base := 80 + vlenSize txs.length + (txs.map fun t => (encodeTxNoWit t).length).sum
  let total := 80 + vlenSize txs.length + (txs.map fun t => (encodeTx t).length).sum
  3 * base + total

end GocoinV.Wire
