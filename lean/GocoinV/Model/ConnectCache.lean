/-
  Model.ConnectCache — the REAL chain.TrustedTxChecker: client/txpool's verification cache (client/txpool/tosend.go):

      func txChecker(tx *btc.Tx) bool {
          rec, ok := TransactionsToSend[tx.Hash.BIdx()]              // by TXID
          if ok && rec.Local { return false }                        // own transactions are never vouched for
          if ok { ok = tx.WTxID().Equal(rec.WTxID()) }               // the WITNESS hash decides
          if !ok { … TransactionsRejected[bidx] … statistics only … }
          return ok }

  Model/ConnectTrust.lean proves the property for an HONEST hook (one that vouches only for transactions all of whose
  scripts verify).  This file is about why the real one is honest: the pool verified the scripts of the transaction it
  holds (processTx, untrusted sources), and that verdict is a fact about the WHOLE transaction — witness included —
  i.e. about its wtxid; the txid does not cover the witness.  Whether the hook compares witness hashes before it answers
  true is a structural fact of the source, regenerated on every run (`Gen.C04Facts.hookComparesWitness`, go/cmd/gen_c04;
  the hook is found as "the function assigned to chain.TrustedTxChecker").  Without it the model answers on the txid
  alone for every entry whose scripts were verified once (pooled or replaced).  Core-only.
-/
import GocoinV.Model.ConnectTrust
namespace GocoinV.Connect

inductive PoolState
  | toSend          -- in TransactionsToSend
  | replaced        -- in TransactionsRejected, reason REPLACED (its scripts had been verified)
  | rejectedOther   -- in TransactionsRejected for any other reason
  deriving DecidableEq, Repr

structure CacheEntry where
  txid : Bytes
  wtxid : Bytes
  state : PoolState
  localTx : Bool
  deriving DecidableEq, Repr

structure HookCfg where
  comparesWitness : Bool
  deriving DecidableEq, Repr

/-- what /repo contains now -/
def HookCfg.current : HookCfg := ⟨Gen.C04Facts.hookComparesWitness⟩

/-- the map look-ups by txid (BIdx collisions are the pool's own matter: property C12) -/
def cacheFind (cache : List CacheEntry) (txid : Bytes) : Option CacheEntry := cache.find? (·.txid == txid)

/-- `txChecker(tx)` for a transaction with this txid and this wtxid -/
def cacheSays (cfg : HookCfg) (cache : List CacheEntry) (txid wtxid : Bytes) : Bool :=
  match cacheFind cache txid with
  | none => false
  | some e =>
    if cfg.comparesWitness then
      (match e.state with
        | .toSend => !e.localTx && e.wtxid == wtxid
        | _ => false)
    else
      (match e.state with
        | .toSend => !e.localTx
        | .replaced => true
        | .rejectedOther => false)

/-- the hook commitTxs consults: `wtxidOf` = the witness hash of a transaction of the block -/
def cacheChecker (cfg : HookCfg) (cache : List CacheEntry) (wtxidOf : Tx → Bytes) : TxChecker :=
  some fun tx => cacheSays cfg cache tx.txid (wtxidOf tx)

end GocoinV.Connect
