/-
  Model.WireBlock — the Merkle-root side of block decoding (lib/btc/block.go): `Block.GetMerkle`,
  `Block.MerkleRoot`, `Block.MerkleRootMatch` on top of `Wire.decodeBlock` (= NewBlock + BuildTxList).
  `btc.CalcMerkle` itself is C05's model `BlockCheck.calcMerkle` (imported, not duplicated). Core-only.
-/
import GocoinV.Model.Wire
import GocoinV.Model.BlockCheck
namespace GocoinV.Wire

/-- `Block.GetMerkle()`: `mtr[i] = bl.Txs[i].Hash.Hash`, then `CalcMerkle(mtr)`. (`none` = the index panic of
    CalcMerkle on an empty slice; the nil-transaction exit cannot be taken after BuildTxList, which truncates
    `bl.Txs` at the first failure.) -/
def getMerkle (H : Bytes → Bytes) (r : BlockRes) : Option (Bytes × Bool) :=
  BlockCheck.calcMerkle H (r.txs.map (·.ids.hash))

/-- `Block.MerkleRoot()` = `bl.Raw[36:68]` -/
def headerMerkleRoot (raw : Bytes) : Bytes := (raw.drop 36).take 32

/-- `Block.MerkleRootMatch()` after `NewBlock(raw)` + `BuildTxList()` -/
def merkleRootMatch (H : Bytes → Bytes) (raw : Bytes) : Bool :=
  let r := decodeBlock H raw
  if r.txCount = 0 ∨ r.txs.length ≠ r.txCount then false else
  match getMerkle H r with
  | none => false
  | some (root, mutated) => !mutated && root == headerMerkleRoot raw

end GocoinV.Wire
